package rules

// E10 — API: shape rules on the conversion surface (parsing and formatting).

import (
	"fmt"
	"go/constant"
	"go/token"
	"go/types"
	"sort"
	"strings"

	"golang.org/x/tools/go/ssa"

	"decverif/internal/cdai"
	"decverif/internal/model"
	"decverif/internal/ob"
)

func init() {
	Register(&Rule{Name: "ERRNIL", Floor: 8, Run: runErrNil,
		Doc: "on every return of Parse, scan, SetString, ParseDecimal and the context wrappers: a possibly non-nil error comes with a nil *Decimal and a nil error with a non-nil one; Parse reports success only after the reader is exhausted (io.EOF)"})
	Register(&Rule{Name: "ERRDROP", Floor: 4, Run: runErrDrop,
		Doc: "no error returned by a callee inside the scanners is dropped, except the explicit `_ = r.UnreadByte()`"})
	Register(&Rule{Name: "SCANSHAPE", Floor: 3, Run: runScanShape,
		Doc: "the separator gate passed to scanExponent equals the one of dec.scan (base == 0); fraction digits of a base-2/8/16 mantissa contribute 1/3/4 bits each and base-10 digits one decimal exponent each"})
	Register(&Rule{Name: "FMTSHAPE", Floor: 3, Run: runFmtShape,
		Doc: "MarshalText asks for the shortest representation in a format Parse accepts; Append rounds a copy only for a non-negative precision, under x's rounding mode, and never asks for precision 0; infinity spellings and exponent markers written are among those read; Format handles every documented verb and flag"})
}

// ---------------------------------------------------------------- nil-ness facts

type nilFact int

const (
	nfUnknown nilFact = iota
	nfNil
	nfNonNil
)

// condFacts returns what the conditions known on the CFG edge (pred -> b) (or, with pred nil,
// at the entry of b) say about value v being nil.
func condFacts(m *model.Model, fn *ssa.Function, b, pred *ssa.BasicBlock, v ssa.Value) nilFact {
	fact := nfUnknown
	consider := func(ifb *ssa.BasicBlock, si int) {
		ifi, ok := ifb.Instrs[len(ifb.Instrs)-1].(*ssa.If)
		if !ok {
			return
		}
		bo, ok := ifi.Cond.(*ssa.BinOp)
		if !ok || (bo.Op != token.EQL && bo.Op != token.NEQ) {
			return
		}
		x, y := bo.X, bo.Y
		if y == v {
			x, y = y, x
		}
		if x != v {
			return
		}
		taken := si == 0
		equal := taken == (bo.Op == token.EQL)
		if c, ok := y.(*ssa.Const); ok && c.IsNil() {
			if equal {
				fact = nfNil
			} else {
				fact = nfNonNil
			}
			return
		}
		// comparison with a non-nil sentinel (io.EOF, errNoDigits): equal => non-nil
		if u, ok := y.(*ssa.UnOp); ok && u.Op == token.MUL {
			if _, isg := u.X.(*ssa.Global); isg && equal {
				fact = nfNonNil
			}
		}
	}
	at := b
	if pred != nil {
		at = pred
		// the branch in pred itself
		if len(pred.Instrs) > 0 {
			if _, ok := pred.Instrs[len(pred.Instrs)-1].(*ssa.If); ok {
				cnt, idx := 0, -1
				for si, s := range pred.Succs {
					if s == b {
						cnt++
						idx = si
					}
				}
				if cnt == 1 {
					consider(pred, idx)
				}
			}
		}
	}
	for _, ib := range fn.Blocks {
		if len(ib.Instrs) == 0 {
			continue
		}
		if _, ok := ib.Instrs[len(ib.Instrs)-1].(*ssa.If); !ok {
			continue
		}
		for si := range ib.Succs {
			if m.EdgeDominates(ib, si, at) {
				consider(ib, si)
			}
		}
	}
	return fact
}

type errnil struct {
	m        *model.Model
	verified map[*ssa.Function]bool // callees known to satisfy "error <=> nil result"
}

func (e *errnil) errFact(fn *ssa.Function, b, pred *ssa.BasicBlock, v ssa.Value) nilFact {
	switch x := v.(type) {
	case *ssa.Const:
		if x.IsNil() {
			return nfNil
		}
	case *ssa.Call:
		if cal := model.Unthunk(x.Call.StaticCallee()); cal != nil {
			n := cal.String()
			if n == "fmt.Errorf" || n == "errors.New" {
				return nfNonNil
			}
		}
	case *ssa.UnOp:
		if _, isg := x.X.(*ssa.Global); isg && x.Op == token.MUL {
			return nfNonNil // package-level error sentinel
		}
	case *ssa.MakeInterface:
		return nfNonNil
	}
	return condFacts(e.m, fn, b, pred, v)
}

func (e *errnil) resFact(fn *ssa.Function, b, pred *ssa.BasicBlock, v ssa.Value) nilFact {
	m := e.m
	switch x := v.(type) {
	case *ssa.Const:
		if x.IsNil() {
			return nfNil
		}
	case *ssa.Extract:
		if call, ok := x.Tuple.(*ssa.Call); ok {
			cal := model.Unthunk(call.Call.StaticCallee())
			if cal != nil && e.verified[cal] {
				// the error (or success flag) of the same call decides
				res := call.Call.Signature().Results()
				for i := 0; i < res.Len(); i++ {
					isErr := types.Identical(res.At(i).Type(), types.Universe.Lookup("error").Type())
					isFlag := types.Identical(res.At(i).Type(), types.Typ[types.Bool])
					if !isErr && !isFlag {
						continue
					}
					for _, u := range *call.Referrers() {
						if ex, ok := u.(*ssa.Extract); ok && ex.Index == i {
							if isErr {
								switch e.errFact(fn, b, pred, ex) {
								case nfNil:
									return nfNonNil
								case nfNonNil:
									return nfNil
								}
							}
						}
					}
				}
				return nfUnknown
			}
		}
	}
	r := m.RefOf(v)
	if !r.Nil && !r.Unknown && (r.Params != 0 || r.Fresh || r.Global) {
		return nfNonNil
	}
	return nfUnknown
}

func runErrNil(m *model.Model, s *ob.Set) {
	const R = "ERRNIL"
	e := &errnil{m: m, verified: map[*ssa.Function]bool{}}
	names := []string{"(*Decimal).scan", "(*Decimal).Parse", "(*Decimal).SetString", "ParseDecimal", "context.(*Context).ParseDecimal", "context.(*Context).NewString"}
	var fns []*ssa.Function
	for _, n := range names {
		fn := m.Lookup(n)
		fns = append(fns, fn)
		e.verified[fn] = true // assume-guarantee: each is checked below
	}
	errT := types.Universe.Lookup("error").Type()
	for _, fn := range fns {
		name := m.FuncName(fn)
		res := fn.Signature.Results()
		ri, ei, bi := -1, -1, -1
		for i := 0; i < res.Len(); i++ {
			switch {
			case m.IsDecPtr(res.At(i).Type()):
				ri = i
			case types.Identical(res.At(i).Type(), errT):
				ei = i
			case types.Identical(res.At(i).Type(), types.Typ[types.Bool]):
				bi = i
			}
		}
		if ri < 0 || (ei < 0 && bi < 0) {
			model.Fatal("ERRNIL: %s does not return (*Decimal, error|bool)", name)
		}
		live := m.Live(fn)
		n := 0
		for _, b := range fn.Blocks {
			if !live[b.Index] {
				continue
			}
			ret, ok := b.Instrs[len(b.Instrs)-1].(*ssa.Return)
			if !ok {
				continue
			}
			// one instance per predecessor when the returned values are φs of this block
			type inst struct {
				pred *ssa.BasicBlock
				vals []ssa.Value
			}
			var insts []inst
			hasPhi := false
			for _, v := range ret.Results {
				if ph, ok := v.(*ssa.Phi); ok && ph.Block() == b {
					hasPhi = true
				}
			}
			if hasPhi {
				for pi, p := range b.Preds {
					if !live[p.Index] {
						continue
					}
					vals := make([]ssa.Value, len(ret.Results))
					for i, v := range ret.Results {
						if ph, ok := v.(*ssa.Phi); ok && ph.Block() == b {
							vals[i] = ph.Edges[pi]
						} else {
							vals[i] = v
						}
					}
					insts = append(insts, inst{p, vals})
				}
			} else {
				insts = append(insts, inst{nil, ret.Results})
			}
			// a direct tail call `return f(...)` of a verified function passes its contract through
			if len(ret.Results) > 0 {
				if ex, ok := ret.Results[0].(*ssa.Extract); ok {
					if call, ok := ex.Tuple.(*ssa.Call); ok && e.verified[model.Unthunk(call.Call.StaticCallee())] {
						all := true
						for i, v := range ret.Results {
							ex2, ok := v.(*ssa.Extract)
							if !ok || ex2.Tuple != ex.Tuple || ex2.Index != i {
								all = false
							}
						}
						if all && name != "(*Decimal).Parse" {
							n++
							s.Ok(R, fmt.Sprintf("%s/return#%d", name, n), m.InstrPos(ret), "returns the results of "+m.FuncName(model.Unthunk(call.Call.StaticCallee()))+" unchanged")
							continue
						}
					}
				}
			}
			for _, in := range insts {
				n++
				c := fmt.Sprintf("%s/return#%d", name, n)
				rf := e.resFact(fn, b, in.pred, in.vals[ri])
				var ok2 bool
				var why string
				if ei >= 0 {
					ef := e.errFact(fn, b, in.pred, in.vals[ei])
					switch ef {
					case nfNil:
						ok2 = rf == nfNonNil
						why = "the error is nil but the *Decimal result is not known to be non-nil"
					default:
						ok2 = rf == nfNil
						why = "an error may be returned together with a non-nil *Decimal (documented: the result is nil if an error is reported)"
					}
					// Parse: success only after the reader hit io.EOF
					if ok2 && ef == nfNil && name == "(*Decimal).Parse" && !parseConsumed(m, fn, b, in.pred) {
						ok2 = false
						why = "Parse reports success on a path that has not seen io.EOF from the reader: trailing characters would be accepted"
					}
				} else {
					flag, isConst := model.ConstBool(in.vals[bi])
					switch {
					case !isConst:
						ok2, why = false, "success flag is not a constant on this return"
					case flag:
						ok2, why = rf == nfNonNil, "returns true with a result that may be nil"
					default:
						ok2, why = rf == nfNil, "returns false with a non-nil result"
					}
				}
				s.Check(ok2, R, c, m.InstrPos(ret), "error and result agree", why)
			}
		}
	}
}

// parseConsumed: on the way to this success return either no scanning happened (Inf shortcut)
// or the reader returned io.EOF.
func parseConsumed(m *model.Model, fn *ssa.Function, b, pred *ssa.BasicBlock) bool {
	at := b
	if pred != nil {
		at = pred
	}
	// is the scan call on the path at all?
	var scanCall *ssa.Call
	for _, bb := range fn.Blocks {
		for _, in := range bb.Instrs {
			if c, ok := in.(*ssa.Call); ok {
				if cal := model.Unthunk(c.Call.StaticCallee()); cal != nil && m.FuncName(cal) == "(*Decimal).scan" {
					scanCall = c
				}
			}
		}
	}
	if scanCall == nil || !m.Dominates(scanCall.Block(), at) {
		return true
	}
	// find err2 := extract #1 of ReadByte and a known fact err2 == io.EOF
	for _, bb := range fn.Blocks {
		for _, in := range bb.Instrs {
			ex, ok := in.(*ssa.Extract)
			if !ok || ex.Index != 1 {
				continue
			}
			call, ok := ex.Tuple.(*ssa.Call)
			if !ok {
				continue
			}
			nm := ""
			if cal := model.Unthunk(call.Call.StaticCallee()); cal != nil {
				nm = cal.Name()
			} else if call.Call.IsInvoke() {
				nm = call.Call.Method.Name()
			}
			if nm != "ReadByte" {
				continue
			}
			if eofFact(m, fn, b, pred, ex) {
				return true
			}
		}
	}
	// … or the reader's Len() is known to be 0 here (a *strings.Reader / *bytes.Reader asked how
	// many bytes it has left, after scan)
	for _, bb := range fn.Blocks {
		if len(bb.Instrs) == 0 {
			continue
		}
		ifi, ok := bb.Instrs[len(bb.Instrs)-1].(*ssa.If)
		if !ok {
			continue
		}
		bo, ok := ifi.Cond.(*ssa.BinOp)
		if !ok {
			continue
		}
		isLen := func(v ssa.Value) bool {
			c, ok := stripConv(v).(*ssa.Call)
			if !ok || !m.InstrDominates(scanCall, c) {
				return false
			}
			cal := model.Unthunk(c.Call.StaticCallee())
			return cal != nil && cal.Name() == "Len" && cal.Signature.Recv() != nil && cal.Pkg != nil && (cal.Pkg.Pkg.Path() == "strings" || cal.Pkg.Pkg.Path() == "bytes")
		}
		if e, ok := zeroOnEdge(bo, isLen); ok {
			if bb.Succs[e] == at || m.EdgeDominates(bb, e, at) {
				return true
			}
		}
	}
	return false
}

func eofFact(m *model.Model, fn *ssa.Function, b, pred *ssa.BasicBlock, v ssa.Value) bool {
	known := false
	consider := func(ifb *ssa.BasicBlock, si int) {
		ifi, ok := ifb.Instrs[len(ifb.Instrs)-1].(*ssa.If)
		if !ok {
			return
		}
		bo, ok := ifi.Cond.(*ssa.BinOp)
		if !ok || (bo.Op != token.EQL && bo.Op != token.NEQ) {
			return
		}
		x, y := bo.X, bo.Y
		if y == v {
			x, y = y, x
		}
		if x != v {
			return
		}
		u, ok := y.(*ssa.UnOp)
		if !ok {
			return
		}
		g, ok := u.X.(*ssa.Global)
		if !ok || g.Name() != "EOF" || g.Pkg.Pkg.Path() != "io" {
			return
		}
		if (si == 0) == (bo.Op == token.EQL) {
			known = true
		}
	}
	at := b
	if pred != nil {
		at = pred
		if _, ok := pred.Instrs[len(pred.Instrs)-1].(*ssa.If); ok {
			cnt, idx := 0, -1
			for si, s := range pred.Succs {
				if s == b {
					cnt++
					idx = si
				}
			}
			if cnt == 1 {
				consider(pred, idx)
			}
		}
	}
	for _, ib := range fn.Blocks {
		if len(ib.Instrs) == 0 {
			continue
		}
		if _, ok := ib.Instrs[len(ib.Instrs)-1].(*ssa.If); !ok {
			continue
		}
		for si := range ib.Succs {
			if m.EdgeDominates(ib, si, at) {
				consider(ib, si)
			}
		}
	}
	return known
}

// ---------------------------------------------------------------- ERRDROP

func runErrDrop(m *model.Model, s *ob.Set) {
	const R = "ERRDROP"
	errT := types.Universe.Lookup("error").Type()
	// explicit discards `_ = r.UnreadByte()` are accepted where a ReadByte of the same function
	// dominates them: putting back the byte that was just read cannot fail
	for _, n := range []string{"(*Decimal).scan", "(*Decimal).Parse", "dec.scan", "scanExponent", "scanSign", "(*Decimal).UnmarshalText", "(*Decimal).Scan", "(*Decimal).SetString", "byteReader.ReadByte", "byteReader.UnreadByte"} {
		fn := m.TryLookup(n)
		if fn == nil {
			continue
		}
		live := m.Live(fn)
		var reads []ssa.Instruction
		for _, b := range fn.Blocks {
			for _, in := range b.Instrs {
				if c, ok := in.(*ssa.Call); ok && c.Call.IsInvoke() && c.Call.Method.Name() == "ReadByte" {
					reads = append(reads, in)
				}
			}
		}
		dropped := map[string][]string{}
		total := 0
		for _, b := range fn.Blocks {
			if !live[b.Index] {
				continue
			}
			for _, in := range b.Instrs {
				call, ok := in.(*ssa.Call)
				if !ok {
					continue
				}
				res := call.Call.Signature().Results()
				ei := -1
				for i := 0; i < res.Len(); i++ {
					if types.Identical(res.At(i).Type(), errT) {
						ei = i
					}
				}
				if ei < 0 {
					continue
				}
				total++
				used := false
				if res.Len() == 1 {
					used = hasRealReferrer(call)
				} else if call.Referrers() != nil {
					for _, u := range *call.Referrers() {
						if ex, ok := u.(*ssa.Extract); ok && ex.Index == ei && hasRealReferrer(ex) {
							used = true
						}
					}
				}
				if !used {
					cn := "<dynamic>"
					if cal := model.Unthunk(call.Call.StaticCallee()); cal != nil {
						cn = cal.Name()
					} else if call.Call.IsInvoke() {
						cn = call.Call.Method.Name()
					}
					if cn == "UnreadByte" {
						behind := false
						for _, rd := range reads {
							if m.InstrDominates(rd, call) {
								behind = true
							}
						}
						if behind {
							continue
						}
					}
					dropped[cn] = append(dropped[cn], m.InstrPos(call))
				}
			}
		}
		var bad []string
		for cn, ps := range dropped {
			sort.Strings(ps)
			bad = append(bad, fmt.Sprintf("error of %s dropped at %s", cn, strings.Join(ps, ", ")))
		}
		sort.Strings(bad)
		if len(bad) == 0 {
			s.Ok(R, n, m.Pos(fn.Pos()), fmt.Sprintf("%d error-returning calls, every error consumed (explicit `_ = r.UnreadByte()` excepted)", total))
		} else {
			s.Bad(R, n, m.Pos(fn.Pos()), bad[0], bad[1:]...)
		}
	}
}

func hasRealReferrer(v ssa.Value) bool {
	if v.Referrers() == nil {
		return false
	}
	for _, u := range *v.Referrers() {
		if _, ok := u.(*ssa.DebugRef); !ok {
			return true
		}
	}
	return false
}

// ---------------------------------------------------------------- SCANSHAPE

func runScanShape(m *model.Model, s *ob.Set) {
	const R = "SCANSHAPE"
	runScanGrammar(m, s)
	runScanAutomaton(m, s)
	runScanExponents(m, s)
	runScanFullWord(m, s)
	runScanTokenFilter(m, s)
	scan := m.Lookup("(*Decimal).scan")
	dscan := m.Lookup("dec.scan")
	pos := m.Pos(scan.Pos())
	isBaseZero := func(v ssa.Value, base *ssa.Parameter) bool {
		bo, ok := v.(*ssa.BinOp)
		if !ok || bo.Op != token.EQL || bo.X != ssa.Value(base) {
			return false
		}
		k, ok := model.ConstInt(bo.Y)
		return ok && k == 0
	}
	// (1) scanExponent(r, true, base == 0) and z.mant.scan(r, base, true)
	var bval ssa.Value // the detected mantissa base b
	okGate, okBase2, okFrac := false, false, false
	for _, b := range scan.Blocks {
		for _, in := range b.Instrs {
			cal, c := model.Callee(in)
			if cal == nil {
				continue
			}
			switch m.FuncName(cal) {
			case "scanExponent":
				okGate = isBaseZero(c.Args[2], scan.Params[2])
				if v, ok := model.ConstBool(c.Args[1]); ok && v {
					okBase2 = true
				}
			case "dec.scan":
				if c.Args[2] == ssa.Value(scan.Params[2]) {
					if v, ok := model.ConstBool(c.Args[3]); ok && v {
						okFrac = true
					}
				}
				for _, u := range *in.(*ssa.Call).Referrers() {
					if ex, ok := u.(*ssa.Extract); ok && ex.Index == 1 {
						bval = ex
					}
				}
			}
		}
	}
	s.Check(okGate, R, "(*Decimal).scan/sepOk", pos, "scanExponent's separator gate is base == 0", "the '_' separator gate handed to scanExponent is not `base == 0`, the gate dec.scan applies to the mantissa")
	s.Check(okBase2 && okFrac, R, "(*Decimal).scan/flags", pos, "fractions and binary exponents enabled", "the mantissa scanner must be called with the caller's base and fracOk=true, the exponent scanner with base2ok=true")
	// dec.scan: '_' is accepted only under base == 0
	gate := false
	for _, b := range dscan.Blocks {
		if len(b.Instrs) == 0 {
			continue
		}
		ifi, ok := b.Instrs[len(b.Instrs)-1].(*ssa.If)
		if !ok || !isBaseZero(ifi.Cond, dscan.Params[2]) {
			continue
		}
		// reached over the true edge of ch == '_'
		for _, p := range b.Preds {
			if pi, ok := p.Instrs[len(p.Instrs)-1].(*ssa.If); ok && p.Succs[0] == b {
				if bo, ok := pi.Cond.(*ssa.BinOp); ok && bo.Op == token.EQL {
					if k, ok := model.ConstInt(bo.Y); ok && k == '_' {
						gate = true
					}
				}
			}
		}
	}
	s.Check(gate, R, "dec.scan/sepGate", m.Pos(dscan.Pos()), "'_' accepted only when base == 0", "dec.scan no longer gates '_' by base == 0 (the exponent scanner still does): the two scanners disagree")

	// (1b) the exponent field is parsed as a 64-bit integer: scan adds mantissa-length and
	// fraction-digit corrections to it in int64 BEFORE the [MinExp, MaxExp] test, so literals whose
	// exponent field alone lies outside int32 (0e2147483648, 0.001e2147483649, what fmtE writes for
	// x.exp == MinExp) are in the accepted language
	if se := m.TryLookup("scanExponent"); se != nil {
		found, bad := 0, ""
		for _, b := range se.Blocks {
			for _, in := range b.Instrs {
				cal, c := model.Callee(in)
				if cal == nil || cal.Pkg == nil || cal.Pkg.Pkg.Path() != "strconv" {
					continue
				}
				switch cal.Name() {
				case "ParseInt":
					found++
					if k, ok := model.ConstInt(c.Args[2]); !ok || k != 64 {
						bad = m.InstrPos(in) + ": strconv.ParseInt is called with a bit size other than 64"
					}
				case "Atoi", "ParseUint":
					found++
					bad = m.InstrPos(in) + ": the exponent is parsed with strconv." + cal.Name() + " (int-sized or unsigned), not as a signed 64-bit integer"
				}
			}
		}
		if found == 0 {
			s.Note(R, "scanExponent/exp-bits", m.Pos(se.Pos()), "no strconv integer parser found in scanExponent (hand-written accumulation is not decided here)")
		} else {
			s.Check(bad == "", R, "scanExponent/exp-bits", m.Pos(se.Pos()), "the exponent field is parsed as a signed 64-bit integer", bad+": exponent fields beyond int32 that still denote an in-range (or zero) value are rejected")
		}
	}
	// (1c) guard digits of the 2**n scale factor: a power of two with more digits than the
	// receiver's precision is inexact, and multiplying by a factor rounded to exactly the
	// receiver's precision rounds the result twice. Every temporary Decimal that scan/pow2 create
	// with a precision derived from the receiver's must get strictly more (prec + positive constant).
	for _, fname := range []string{"(*Decimal).scan", "(*Decimal).pow2"} {
		fn := m.TryLookup(fname)
		if fn == nil {
			continue
		}
		setPrec := m.Lookup("(*Decimal).SetPrec")
		n, bad := 0, ""
		var fromPrec func(v ssa.Value, d int) bool
		fromPrec = func(v ssa.Value, d int) bool {
			if d == 0 {
				return false
			}
			switch x := stripConv(v).(type) {
			case *ssa.Call:
				if c2 := model.Unthunk(x.Call.StaticCallee()); c2 != nil && m.FuncName(c2) == "(*Decimal).Prec" {
					return true
				}
			case *ssa.UnOp:
				if lf, ok := m.LoadOfDecField(x); ok && lf.Field == m.F.Prec {
					return true
				}
			case *ssa.Phi:
				for _, e := range x.Edges {
					if fromPrec(e, d-1) {
						return true
					}
				}
			}
			return false
		}
		for _, b := range fn.Blocks {
			for _, in := range b.Instrs {
				cal, c := model.Callee(in)
				if cal != setPrec || len(c.Args) < 2 {
					continue
				}
				if r := m.RefOf(c.Args[0]); !r.Fresh || r.Params != 0 {
					continue // not a temporary
				}
				arg := stripConv(c.Args[1])
				guarded := false
				derived := fromPrec(arg, 4)
				if bo, ok := arg.(*ssa.BinOp); ok && bo.Op == token.ADD {
					for _, pr := range [][2]ssa.Value{{bo.X, bo.Y}, {bo.Y, bo.X}} {
						if fromPrec(pr[0], 4) {
							derived = true
							if k, ok := model.ConstInt(pr[1]); ok && k > 0 {
								guarded = true
							}
						}
					}
				}
				if !derived {
					continue
				}
				n++
				if !guarded {
					bad = m.InstrPos(in) + ": a temporary gets exactly the receiver's precision"
				}
			}
		}
		c := fname + "/guard-digits"
		if n == 0 {
			s.Note(R, c, m.Pos(fn.Pos()), "no temporary with a precision derived from the receiver's")
		} else {
			s.Check(bad == "", R, c, m.Pos(fn.Pos()), fmt.Sprintf("%d temporar(ies) with precision = receiver's + a positive constant", n), bad+" (no guard digits): the inexact scale factor 2**n is rounded to the same number of digits as the final result, i.e. the result is rounded twice")
		}
	}

	// (1d) the exponent is consumed on every successful parse: each exit of (*Decimal).scan that
	// returns a result is dominated by the call of scanExponent (a zero mantissa is no reason to
	// leave "e+00" in the reader: Parse then reports trailing characters)
	{
		var se *ssa.Call
		for _, b := range scan.Blocks {
			for _, in := range b.Instrs {
				if c, ok := in.(*ssa.Call); ok {
					if cal := model.Unthunk(c.Call.StaticCallee()); cal != nil && m.FuncName(cal) == "scanExponent" {
						se = c
					}
				}
			}
		}
		if se == nil {
			s.Note(R, "(*Decimal).scan/exponent-consumed", pos, "scanExponent is not called from scan (not decided)")
		} else {
			live := m.Live(scan)
			bad := ""
			for _, b := range scan.Blocks {
				if !live[b.Index] {
					continue
				}
				r, ok := b.Instrs[len(b.Instrs)-1].(*ssa.Return)
				if !ok || !isSuccessReturn(m, r) {
					continue
				}
				if !m.InstrDominates(se, r) && !m.DominatesBarInfeasible(se.Block(), r.Block()) {
					bad = m.InstrPos(r) + ": a result is returned on a path that never called scanExponent"
				}
			}
			s.Check(bad == "", R, "(*Decimal).scan/exponent-consumed", pos, "every successful exit has consumed the exponent", bad+": the exponent stays in the input and Parse/SetString reject what the e and E formats print for ±0")
		}
	}
	// (1e) rounded once: no rounding of z is followed by another rounding of z inside scan (the
	// plain round(0) belongs to the path without a binary exponent; on the other path the final
	// Mul/Quo is the one rounding)
	if bad := roundedTwice(m, scan, 0); bad != "" {
		s.Bad(R, "(*Decimal).scan/rounded-once", pos, bad+": a literal with a binary exponent is rounded to the precision and then scaled and rounded again (the accuracy reported is that of the second rounding only)")
	} else {
		s.Ok(R, "(*Decimal).scan/rounded-once", pos, "no path rounds z twice")
	}

	// (2) RADIXBITS
	if bval == nil {
		model.Fatal("SCANSHAPE: result b of dec.scan not found in (*Decimal).scan")
	}
	// per mantissa base, the case body of the fraction-digit correction; what each case adds to
	// which accumulator is read off the φs of the block where the cases join, as a linear form:
	// the part of the incoming value that is the same on every case edge is the accumulator's
	// previous value, the rest is the case's contribution (coefficient × digit count)
	want := map[int64]int64{10: 1, 2: 1, 8: 3, 16: 4}
	type contrib struct {
		phi  *ssa.Phi
		atom ssa.Value
		coef int64
		n    int
	}
	caseBody := map[int64]*ssa.BasicBlock{}
	casePos := map[int64]string{}
	for _, b := range scan.Blocks {
		if len(b.Instrs) == 0 {
			continue
		}
		ifi, ok := b.Instrs[len(b.Instrs)-1].(*ssa.If)
		if !ok {
			continue
		}
		bo, ok := ifi.Cond.(*ssa.BinOp)
		if !ok || bo.Op != token.EQL || !isValueOrJoinOf(bo.X, bval, 4) {
			continue
		}
		k, ok := model.ConstInt(bo.Y)
		if !ok {
			continue
		}
		if _, isCase := want[k]; !isCase {
			continue
		}
		if _, dup := caseBody[k]; dup {
			continue // the first switch over the base is the fraction-digit correction
		}
		caseBody[k] = b.Succs[0]
		casePos[k] = m.InstrPos(ifi)
	}
	// the bits per digit taken from a helper of the base (exp2 += d * digitBits(b)) instead of a
	// case per base: the helper is evaluated at each base by constant propagation
	viaHelper := map[int64]bool{}
	{
		var helper *ssa.Function
		for _, b := range scan.Blocks {
			for _, in := range b.Instrs {
				mul, ok := in.(*ssa.BinOp)
				if !ok || mul.Op != token.MUL {
					continue
				}
				for _, o := range []ssa.Value{mul.X, mul.Y} {
					c, ok := stripConv(o).(*ssa.Call)
					if !ok || len(c.Call.Args) != 1 || !isValueOrJoinOf(stripConv(c.Call.Args[0]), bval, 4) {
						continue
					}
					if h := model.Unthunk(c.Call.StaticCallee()); h != nil && m.InDecimalPkg(h) && len(h.Blocks) > 0 {
						helper = h
					}
				}
			}
		}
		if helper != nil {
			for k, w := range want {
				if caseBody[k] != nil || k == 10 {
					continue
				}
				it := cdai.New(m)
				it.Budget = 5000
				var outs []cdai.Outcome
				func() {
					defer func() {
						if recover() != nil {
							outs = nil
						}
					}()
					outs = it.Run(helper, []cdai.Val{cdai.Int(k)}, cdai.NewState())
				}()
				cn := fmt.Sprintf("(*Decimal).scan/radix-%d", k)
				if len(outs) == 1 && outs[0].Kind == "return" {
					if v, ok := retInt(outs[0], 0); ok {
						viaHelper[k] = true
						s.Check(v == w, R, cn, pos, fmt.Sprintf("%d per fraction digit, through %s(%d)", w, helper.Name(), k), fmt.Sprintf("%s(%d) is %d; a digit in base %d stands for %d bit(s)", helper.Name(), k, v, k, w))
						continue
					}
				}
				viaHelper[k] = true
				s.Note(R, cn, pos, fmt.Sprintf("the bits per digit come from %s, which does not fold to a constant at %d (not decided)", helper.Name(), k))
			}
		}
	}
	for k := range want {
		if caseBody[k] == nil && !viaHelper[k] {
			s.Bad(R, fmt.Sprintf("(*Decimal).scan/radix-%d", k), pos, fmt.Sprintf("no case for mantissa base %d in the fraction-digit correction", k))
		}
	}
	if len(viaHelper) > 0 {
		if caseBody[10] != nil {
			s.Note(R, "(*Decimal).scan/radix-10", pos, "the binary bases go through a helper; the decimal case is not read off in this shape (not decided)")
		}
		return
	}
	if len(caseBody) != len(want) {
		return
	}
	// the join: first block with φs reached from a case body through plain jumps
	joinOf := func(b *ssa.BasicBlock) (*ssa.BasicBlock, *ssa.BasicBlock) {
		for hops := 0; hops < 4; hops++ {
			if len(b.Succs) != 1 {
				return nil, nil
			}
			t := b.Succs[0]
			if len(t.Instrs) > 0 {
				if _, ok := t.Instrs[0].(*ssa.Phi); ok {
					return t, b
				}
			}
			b = t
		}
		return nil, nil
	}
	bases := []int64{10, 2, 8, 16}
	var join *ssa.BasicBlock
	from := map[int64]*ssa.BasicBlock{}
	for _, k := range bases {
		j, f := joinOf(caseBody[k])
		if j == nil || (join != nil && j != join) {
			m.Blind("SCANSHAPE: the cases of the fraction-digit correction in (*Decimal).scan do not meet in one block")
			s.Note(R, "(*Decimal).scan/radix", pos, "fraction-digit correction written in a shape this rule does not read (not decided)")
			return
		}
		join, from[k] = j, f
	}
	res := map[int64][]contrib{}
	for _, in := range join.Instrs {
		ph, ok := in.(*ssa.Phi)
		if !ok {
			break
		}
		forms := map[int64]map[ssa.Value]int64{}
		for _, k := range bases {
			for i, p := range join.Preds {
				if p == from[k] {
					forms[k] = linForm(ph.Edges[i], 8)
				}
			}
		}
		for _, k := range bases {
			for a, c := range forms[k] {
				same := true
				for _, k2 := range bases {
					if forms[k2][a] != c {
						same = false
					}
				}
				if !same && c != 0 {
					res[k] = append(res[k], contrib{ph, a, c, 0})
				}
			}
		}
	}
	// exactly one contribution per case, all of the same atom (the digit count), coefficients
	// ±(1, 1, 3, 4) with one sign, base 10 into one accumulator and 2/8/16 into another
	var d ssa.Value
	sign := int64(0)
	for _, k := range bases {
		c := fmt.Sprintf("(*Decimal).scan/radix-%d", k)
		// atoms that other cases contribute with coefficient 0 here show up as differences too:
		// keep the contributions of this case only (non-zero on this edge)
		rs := res[k]
		if len(rs) != 1 {
			s.Bad(R, c, casePos[k], fmt.Sprintf("a base-%d fraction digit must contribute %d per digit to one exponent accumulator; found %d contributions", k, want[k], len(rs)))
			continue
		}
		r := rs[0]
		if d == nil {
			d = r.atom
			sign = 1
			if r.coef < 0 {
				sign = -1
			}
		}
		okc := r.atom == d && r.coef == sign*want[k]
		var okAcc bool
		if k == 10 {
			okAcc = true
			for _, k2 := range []int64{2, 8, 16} {
				if len(res[k2]) == 1 && res[k2][0].phi == r.phi {
					okAcc = false
				}
			}
		} else {
			okAcc = len(res[2]) == 1 && res[2][0].phi == r.phi
		}
		s.Check(okc && okAcc, R, c, casePos[k], fmt.Sprintf("%d per fraction digit, into the %s exponent", want[k], map[bool]string{true: "decimal", false: "binary"}[k == 10]),
			fmt.Sprintf("a base-%d fraction digit must contribute %d per digit to the %s exponent accumulator; found coefficient %d (same count variable: %v, right accumulator: %v)", k, want[k], map[bool]string{true: "decimal", false: "binary"}[k == 10], r.coef*sign, r.atom == d, okAcc))
	}
}

// linForm writes v as a sum of coefficient × atom; constants go to the nil atom. Atoms are the
// values it does not look through (φs, calls, loads, conversions of those).
func linForm(v ssa.Value, depth int) map[ssa.Value]int64 {
	out := map[ssa.Value]int64{}
	var add func(v ssa.Value, k int64, depth int)
	add = func(v ssa.Value, k int64, depth int) {
		if c, ok := model.ConstInt(v); ok {
			out[nil] += k * c
			return
		}
		if depth > 0 {
			switch x := v.(type) {
			case *ssa.BinOp:
				switch x.Op {
				case token.ADD:
					add(x.X, k, depth-1)
					add(x.Y, k, depth-1)
					return
				case token.SUB:
					add(x.X, k, depth-1)
					add(x.Y, -k, depth-1)
					return
				case token.MUL:
					if c, ok := model.ConstInt(x.Y); ok {
						add(x.X, k*c, depth-1)
						return
					}
					if c, ok := model.ConstInt(x.X); ok {
						add(x.Y, k*c, depth-1)
						return
					}
				case token.SHL:
					if c, ok := model.ConstInt(x.Y); ok && c >= 0 && c < 62 {
						add(x.X, k<<uint(c), depth-1)
						return
					}
				}
			case *ssa.UnOp:
				if x.Op == token.SUB {
					add(x.X, -k, depth-1)
					return
				}
			}
		}
		out[v] += k
	}
	add(v, 1, depth)
	for a, c := range out {
		if c == 0 {
			delete(out, a)
		}
	}
	return out
}

// ---------------------------------------------------------------- FMTSHAPE

func runFmtShape(m *model.Model, s *ob.Set) {
	const R = "FMTSHAPE"
	runFmtBShape(m, s)
	runFmtLayout(m, s)
	runFormatTable(m, s)
	runAppendTable(m, s)
	runEmitTables(m, s)
	runWriteCount(m, s)
	runFmtFSamples(m, s)
	app := m.Lookup("(*Decimal).Append")
	// SHORTEST: MarshalText -> Append(buf, fmt in {e,E,f,g,G}, prec < 0)
	{
		fn := m.Lookup("(*Decimal).MarshalText")
		ok := false
		for _, b := range fn.Blocks {
			for _, in := range b.Instrs {
				cal, c := model.Callee(in)
				if cal == app {
					f, ok1 := model.ConstInt(c.Args[2])
					p, ok2 := model.ConstInt(c.Args[3])
					ok = ok1 && ok2 && p < 0 && strings.ContainsRune("eEfgG", rune(f))
				}
			}
		}
		s.Check(ok, R, "(*Decimal).MarshalText/shortest", m.Pos(fn.Pos()), "Append(buf, 'g', -1)", "MarshalText (and with it JSON) must request the shortest exact representation (negative precision) in a format Parse reads")
	}
	// the rounding copy in Append
	var setCall, precCall, modeCall *ssa.Call
	for _, b := range app.Blocks {
		for _, in := range b.Instrs {
			call, ok := in.(*ssa.Call)
			if !ok {
				continue
			}
			cal := model.Unthunk(call.Call.StaticCallee())
			if cal == nil || m.FuncName(cal) != "(*Decimal).Set" {
				continue
			}
			if r := m.RefOf(call.Call.Args[0]); r.Fresh && r.Params == 0 && m.RefOf(call.Call.Args[1]).MayBeParam(0) {
				setCall = call
			}
		}
	}
	if setCall == nil {
		s.Bad(R, "(*Decimal).Append/rounding-copy", m.Pos(app.Pos()), "no rounding copy (fresh Decimal).Set(x) found in Append: an explicit precision would print unrounded digits")
	} else {
		// receiver chain new(Decimal).SetMode(x.mode).SetPrec(uint(rnd))
		v := setCall.Call.Args[0]
		for i := 0; i < 4; i++ {
			c, ok := v.(*ssa.Call)
			if !ok {
				break
			}
			cal := model.Unthunk(c.Call.StaticCallee())
			if cal == nil {
				break
			}
			switch m.FuncName(cal) {
			case "(*Decimal).SetPrec":
				precCall = c
			case "(*Decimal).SetMode":
				modeCall = c
			}
			v = c.Call.Args[0]
		}
		// also accept separate statements on the same fresh object
		if precCall == nil || modeCall == nil {
			obj := m.RefOf(setCall.Call.Args[0])
			for _, b := range app.Blocks {
				for _, in := range b.Instrs {
					c, ok := in.(*ssa.Call)
					if !ok || !m.InstrDominates(c, setCall) {
						continue
					}
					cal := model.Unthunk(c.Call.StaticCallee())
					if cal == nil || len(c.Call.Args) == 0 {
						continue
					}
					r := m.RefOf(c.Call.Args[0])
					if !(r.Fresh && len(r.Allocs) == 1 && len(obj.Allocs) == 1 && r.Allocs[0] == obj.Allocs[0]) {
						continue
					}
					switch m.FuncName(cal) {
					case "(*Decimal).SetPrec":
						if precCall == nil {
							precCall = c
						}
					case "(*Decimal).SetMode":
						if modeCall == nil {
							modeCall = c
						}
					}
				}
			}
		}
		// TMPMODE
		okMode := false
		if modeCall != nil {
			if lf, ok := m.LoadOfDecField(modeCall.Call.Args[1]); ok && lf.Field == m.F.Mode && m.RefOf(lf.X).MayBeParam(0) {
				okMode = true
			}
		}
		s.Check(okMode, R, "(*Decimal).Append/TMPMODE", m.InstrPos(setCall), "the copy rounds under x.mode", "the rounding copy in Append is not given x's rounding mode: digits would always be rounded ToNearestEven")
		// STALE: nothing read from the unrounded x may be used once x has been replaced by its
		// rounded copy (rounding can carry into a new leading digit: the exponent and the digit
		// count change). Values computed before the merge may reach code after it only through
		// the merge's φs, and on the edge that comes from the copying block only if they were
		// recomputed from the copy.
		tableSpoke := appendTableDecided(m)
		if why := fmtStale(m, app, setCall); why != "" && !tableSpoke {
			s.Bad(R, "(*Decimal).Append/stale-after-round", m.InstrPos(setCall), why)
		} else if why != "" {
			s.Ok(R, "(*Decimal).Append/stale-after-round", m.InstrPos(setCall), "decided path by path by Append/digits (a value of the unrounded operand reaches the code behind the copy only on paths that do not copy)")
		} else {
			s.Ok(R, "(*Decimal).Append/stale-after-round", m.InstrPos(setCall), "no value read from the unrounded operand is used after the rounding copy replaced it")
		}
		// SHORTEST: only for prec >= 0
		okGuard := false
		for _, b := range app.Blocks {
			if len(b.Instrs) == 0 {
				continue
			}
			ifi, ok := b.Instrs[len(b.Instrs)-1].(*ssa.If)
			if !ok {
				continue
			}
			bo, ok := ifi.Cond.(*ssa.BinOp)
			if !ok || bo.X != ssa.Value(app.Params[3]) {
				continue
			}
			k, ok := model.ConstInt(bo.Y)
			if !ok || k != 0 {
				continue
			}
			edge := -1
			switch bo.Op {
			case token.LSS:
				edge = 1
			case token.GEQ:
				edge = 0
			}
			if edge >= 0 && m.EdgeDominates(b, edge, setCall.Block()) {
				okGuard = true
			}
		}
		if !okGuard && tableSpoke {
			s.Ok(R, "(*Decimal).Append/shortest-no-rounding", m.InstrPos(setCall), "decided path by path by Append/digits (no path with a negative precision makes the copy)")
		} else {
			s.Check(okGuard, R, "(*Decimal).Append/shortest-no-rounding", m.InstrPos(setCall), "copy made only for prec >= 0", "with a negative precision (shortest representation) Append must not round")
		}
		// PREC0-ARG
		if precCall == nil {
			s.Bad(R, "(*Decimal).Append/PREC0-ARG", m.InstrPos(setCall), "the rounding copy is not given a precision")
		} else {
			ok, why := provablyNonZero(m, precCall.Call.Args[1], precCall, 6)
			s.Check(ok, R, "(*Decimal).Append/PREC0-ARG", m.InstrPos(precCall), "requested precision provably non-zero", "SetPrec("+short2(precCall.Call.Args[1])+") may be called with 0, which means `take the operand's precision`: no rounding happens when the requested digit position is at or above the leading digit ("+why+")")
		}
	}
	// LITERALS
	{
		parse := m.Lookup("(*Decimal).Parse")
		read := map[string]bool{}
		// the comparisons may sit in a helper of Parse (parseInf(s) (neg, ok bool)), and be written
		// as == or as != (an early return for everything else)
		seenFn := map[*ssa.Function]bool{}
		var collect func(fn *ssa.Function, d int)
		collect = func(fn *ssa.Function, d int) {
			if fn == nil || d == 0 || seenFn[fn] || !m.InDecimalPkg(fn) {
				return
			}
			seenFn[fn] = true
			for _, b := range fn.Blocks {
				for _, in := range b.Instrs {
					if bo, ok := in.(*ssa.BinOp); ok && (bo.Op == token.EQL || bo.Op == token.NEQ) {
						for _, o := range []ssa.Value{bo.X, bo.Y} {
							if c, ok := o.(*ssa.Const); ok && c.Value != nil && c.Value.Kind() == constant.String {
								read[constant.StringVal(c.Value)] = true
							}
						}
					}
					if cal, _ := model.Callee(in); cal != nil {
						collect(cal, d-1)
					}
				}
			}
		}
		collect(parse, 3)
		var bad []string
		nlit := 0
		for _, b := range app.Blocks {
			for _, in := range b.Instrs {
				cal, c := model.Callee(in)
				if c == nil || cal != nil || model.BuiltinName(c) != "append" || len(c.Args) < 2 {
					continue
				}
				if k, ok := c.Args[1].(*ssa.Const); ok && k.Value != nil && k.Value.Kind() == constant.String {
					sv := constant.StringVal(k.Value)
					if len(sv) >= 3 {
						nlit++
						if !read[sv] {
							bad = append(bad, fmt.Sprintf("%q", sv))
						}
					}
				}
			}
		}
		s.Check(len(bad) == 0 && nlit > 0, R, "(*Decimal).Append/infinity-spelling", m.Pos(app.Pos()), fmt.Sprintf("%d word literal(s) written, all read by Parse", nlit), "Append writes "+strings.Join(bad, ", ")+" which Parse does not recognise (or no infinity spelling found)")
		// exponent markers written by fmtB/fmtP/fmtE are among those scanExponent reads
		se := m.Lookup("scanExponent")
		marks := map[int64]bool{}
		// the scanner and the scalar helpers of this package it hands a byte to (the classification
		// of the exponent letter may live in one)
		seFns := []*ssa.Function{se}
		for _, b := range se.Blocks {
			for _, in := range b.Instrs {
				if cal, _ := model.Callee(in); cal != nil && m.InDecimalPkg(cal) && len(cal.Blocks) > 0 && cal.Signature.Recv() == nil && cal != se {
					seFns = append(seFns, cal)
				}
			}
		}
		for _, f := range seFns {
			for _, b := range f.Blocks {
				for _, in := range b.Instrs {
					// a package-level table indexed by the byte: its non-zero entries are the letters
					if ia, ok := in.(*ssa.IndexAddr); ok {
						if g, ok := ia.X.(*ssa.Global); ok {
							for k := int64('A'); k <= 'z'; k++ {
								if (k >= 'A' && k <= 'Z') || (k >= 'a' && k <= 'z') {
									if v, ok := m.ConstTableLookup(g, []int64{k}); ok && v != nil && v.Kind() == constant.Int && constant.Sign(v) != 0 {
										marks[k] = true
									}
								}
							}
						}
					}
					if bo, ok := in.(*ssa.BinOp); ok && (bo.Op == token.EQL || bo.Op == token.NEQ) {
						for _, side := range []ssa.Value{bo.X, bo.Y} {
							if k, ok := model.ConstInt(side); ok && (k >= 'A' && k <= 'Z' || k >= 'a' && k <= 'z') {
								marks[k] = true
							}
						}
					}
				}
			}
		}
		for _, fnn := range []string{"(*Decimal).fmtB", "(*Decimal).fmtP"} {
			fn := m.TryLookup(fnn)
			if fn == nil {
				continue
			}
			// the formatter and the byte-slice helpers of this package it calls (two levels)
			fns := []*ssa.Function{fn}
			seenFn := map[*ssa.Function]bool{fn: true}
			for lvl := 0; lvl < 2; lvl++ {
				for _, f := range append([]*ssa.Function(nil), fns...) {
					for _, b := range f.Blocks {
						for _, in := range b.Instrs {
							cal, _ := model.Callee(in)
							if cal == nil || seenFn[cal] || !m.InDecimalPkg(cal) || len(cal.Blocks) == 0 || cal.Signature.Recv() != nil {
								continue
							}
							takesBytes := false
							for i := 0; i < cal.Signature.Params().Len(); i++ {
								if sl, ok := cal.Signature.Params().At(i).Type().Underlying().(*types.Slice); ok {
									if bt, ok := sl.Elem().Underlying().(*types.Basic); ok && bt.Kind() == types.Uint8 {
										takesBytes = true
									}
								}
							}
							if takesBytes {
								seenFn[cal] = true
								fns = append(fns, cal)
							}
						}
					}
				}
			}
			var w []string
			okm := true
			for _, f := range fns {
				for _, b := range f.Blocks {
					for _, in := range b.Instrs {
						if st, ok := in.(*ssa.Store); ok {
							if k, ok := model.ConstInt(st.Val); ok && (k >= 'A' && k <= 'Z' || k >= 'a' && k <= 'z') {
								w = append(w, string(rune(k)))
								if !marks[k] {
									okm = false
								}
							}
						}
					}
				}
			}
			if len(w) == 0 {
				s.Note(R, fnn+"/exponent-marker", m.Pos(fn.Pos()), "no letter constant is appended here or in the byte-slice helpers it calls (the exponent is written some other way; not decided)")
				continue
			}
			s.Check(okm, R, fnn+"/exponent-marker", m.Pos(fn.Pos()), "writes "+strings.Join(w, ","), "exponent marker "+strings.Join(w, ",")+" is not one scanExponent accepts")
		}
	}
	// VERBS
	{
		fn := m.Lookup("(*Decimal).Format")
		verbs := map[int64]bool{}
		flags := map[int64]bool{}
		meths := map[string]bool{}
		flagComputed := false
		// Format and the helpers of this package it hands the fmt.State to (sign, padding)
		fmtFns := []*ssa.Function{fn}
		for _, b := range fn.Blocks {
			for _, in := range b.Instrs {
				if cal, c := model.Callee(in); cal != nil && m.InDecimalPkg(cal) && len(cal.Blocks) > 0 && cal != fn {
					for _, a := range c.Args {
						if a == ssa.Value(fn.Params[1]) {
							fmtFns = append(fmtFns, cal)
							break
						}
					}
				}
			}
		}
		for _, ff := range fmtFns {
			for _, b := range ff.Blocks {
				for _, in := range b.Instrs {
					switch x := in.(type) {
					case *ssa.BinOp:
						if ff == fn && x.Op == token.EQL && x.X == ssa.Value(fn.Params[2]) {
							if k, ok := model.ConstInt(x.Y); ok {
								verbs[k] = true
							}
						}
					case *ssa.Call:
						if x.Call.IsInvoke() {
							meths[x.Call.Method.Name()] = true
							if x.Call.Method.Name() == "Flag" {
								if k, ok := model.ConstInt(x.Call.Args[0]); ok {
									flags[k] = true
								} else {
									flagComputed = true // asked for a flag taken from a table or a loop
								}
							}
						}
					}
				}
			}
		}
		var missing []string
		for _, v := range "eEfFgGbpvs" {
			if !verbs[int64(v)] {
				missing = append(missing, "%"+string(v))
			}
		}
		if len(verbs) == 0 {
			// the verb is not compared with constants at all (a table lookup): which verbs are
			// supported is decided by the cells Format/verb[…], not here
			s.Note(R, "(*Decimal).Format/verbs", m.Pos(fn.Pos()), "the verb is not dispatched by comparisons with constants (see Format/verb[…])")
		} else {
			s.Check(len(missing) == 0, R, "(*Decimal).Format/verbs", m.Pos(fn.Pos()), "cases for e E f F g G b p v s", "Format has no case for "+strings.Join(missing, " "))
		}
		// s.Flag handed on as a method value: which flags are asked for is then not visible here
		flagValue := false
		for _, b := range fn.Blocks {
			for _, in := range b.Instrs {
				if mc, ok := in.(*ssa.MakeClosure); ok {
					if f, ok := mc.Fn.(*ssa.Function); ok && strings.HasPrefix(f.Name(), "Flag$") {
						flagValue = true
					}
				}
			}
		}
		var mf []string
		for _, f := range "+ 0-" {
			if !flags[int64(f)] && !flagValue && !flagComputed {
				mf = append(mf, fmt.Sprintf("'%c'", f))
			}
		}
		for _, mn := range []string{"Width", "Precision"} {
			if !meths[mn] {
				mf = append(mf, mn+"()")
			}
		}
		s.Check(len(mf) == 0, R, "(*Decimal).Format/flags", m.Pos(fn.Pos()), "consults + space 0 - Width Precision", "Format does not consult "+strings.Join(mf, ", "))
	}
}

func short2(v ssa.Value) string {
	if v.Name() != "" {
		return v.Name()
	}
	return v.String()
}

// provablyNonZero: the value is > 0 on every path reaching `at`.
func provablyNonZero(m *model.Model, v ssa.Value, at ssa.Instruction, depth int) (bool, string) {
	if depth == 0 {
		return false, "too deep"
	}
	if k, ok := model.ConstInt(v); ok {
		return k > 0, fmt.Sprintf("constant %d", k)
	}
	fn := at.Parent()
	// a dominating comparison v != 0 / v > 0 / v >= c (c>0)
	for _, b := range fn.Blocks {
		if len(b.Instrs) == 0 {
			continue
		}
		ifi, ok := b.Instrs[len(b.Instrs)-1].(*ssa.If)
		if !ok {
			continue
		}
		bo, ok := ifi.Cond.(*ssa.BinOp)
		if !ok || bo.X != v {
			continue
		}
		k, ok := model.ConstInt(bo.Y)
		if !ok {
			continue
		}
		edge := -1
		switch {
		case bo.Op == token.NEQ && k == 0, bo.Op == token.GTR && k >= 0, bo.Op == token.GEQ && k > 0:
			edge = 0
		case bo.Op == token.EQL && k == 0, bo.Op == token.LEQ && k >= 0, bo.Op == token.LSS && k > 0:
			edge = 1
		}
		if edge >= 0 && m.EdgeDominates(b, edge, at.Block()) {
			return true, "guarded"
		}
	}
	switch x := v.(type) {
	case *ssa.Convert:
		return provablyNonZero(m, x.X, at, depth-1)
	case *ssa.ChangeType:
		return provablyNonZero(m, x.X, at, depth-1)
	case *ssa.BinOp:
		if x.Op == token.ADD {
			// c + w with c > 0 and w >= 0 is not tracked (w may be negative): only both provably positive
			a, _ := provablyNonZero(m, x.X, at, depth-1)
			b, _ := provablyNonZero(m, x.Y, at, depth-1)
			if a && b {
				return true, "sum of positives"
			}
			if k, ok := model.ConstInt(x.X); ok && k > 0 {
				if nonNeg(m, x.Y, at, depth-1) {
					return true, "positive constant plus non-negative"
				}
			}
			if k, ok := model.ConstInt(x.Y); ok && k > 0 {
				if nonNeg(m, x.X, at, depth-1) {
					return true, "non-negative plus positive constant"
				}
			}
		}
	case *ssa.Phi:
		for i, e := range x.Edges {
			if ok, why := provablyNonZero(m, e, at, depth-1); !ok {
				return false, fmt.Sprintf("edge from block %d: %s", x.Block().Preds[i].Index, why)
			}
		}
		return true, "all phi edges"
	case *ssa.Call:
		if cal := model.Unthunk(x.Call.StaticCallee()); cal != nil && cal.Name() == "max" {
			return false, "max(…, 0) can be 0"
		}
	}
	return false, "no lower bound"
}

func nonNeg(m *model.Model, v ssa.Value, at ssa.Instruction, depth int) bool {
	if k, ok := model.ConstInt(v); ok {
		return k >= 0
	}
	if b, ok := v.Type().Underlying().(*types.Basic); ok && b.Info()&types.IsUnsigned != 0 {
		return true
	}
	fn := at.Parent()
	for _, b := range fn.Blocks {
		if len(b.Instrs) == 0 {
			continue
		}
		ifi, ok := b.Instrs[len(b.Instrs)-1].(*ssa.If)
		if !ok {
			continue
		}
		bo, ok := ifi.Cond.(*ssa.BinOp)
		if !ok || bo.X != v {
			continue
		}
		k, ok := model.ConstInt(bo.Y)
		if !ok {
			continue
		}
		edge := -1
		switch {
		case bo.Op == token.GEQ && k >= 0, bo.Op == token.GTR && k >= -1:
			edge = 0
		case bo.Op == token.LSS && k >= 0, bo.Op == token.LEQ && k >= -1:
			edge = 1
		}
		if edge >= 0 && m.EdgeDominates(b, edge, at.Block()) {
			return true
		}
	}
	if ph, ok := v.(*ssa.Phi); ok && depth > 0 {
		for _, e := range ph.Edges {
			if !nonNeg(m, e, at, depth-1) {
				return false
			}
		}
		return true
	}
	return false
}

// fmtStale: see the STALE clause of FMTSHAPE. setCall is the (fresh).Set(x) that produces the
// rounded copy; the merge is the φ that joins the copy with the parameter x.
func fmtStale(m *model.Model, fn *ssa.Function, setCall *ssa.Call) string {
	px := ssa.Value(fn.Params[0])
	var merge *ssa.Phi
	copyEdge := -1
	for _, b := range fn.Blocks {
		for _, in := range b.Instrs {
			ph, ok := in.(*ssa.Phi)
			if !ok || !m.IsDecPtr(ph.Type()) {
				continue
			}
			hasParam := false
			ce := -1
			for i, e := range ph.Edges {
				if e == px {
					hasParam = true
				}
				if e == ssa.Value(setCall) {
					ce = i
				}
			}
			if hasParam && ce >= 0 {
				merge, copyEdge = ph, ce
			}
		}
	}
	if merge == nil {
		return "" // the copy does not replace x (nothing to go stale)
	}
	mb := merge.Block()
	// taint: values derived from the parameter x's value fields before the merge
	taint := map[ssa.Value]bool{}
	isSource := func(in ssa.Instruction) bool {
		switch x := in.(type) {
		case *ssa.UnOp:
			if lf, ok := m.LoadOfDecField(x); ok && lf.X == px && (lf.Field == m.F.Exp || lf.Field == m.F.Mant || lf.Field == m.F.Prec) {
				return true
			}
		case *ssa.Call:
			if cal := model.Unthunk(x.Call.StaticCallee()); cal != nil && m.IsDecMethod(cal) && len(x.Call.Args) > 0 && x.Call.Args[0] == px {
				// any method that reads the exponent, the mantissa or the precision of its receiver
				for _, f := range m.LoadSet(cal, 0) {
					if f == m.F.Exp || f == m.F.Mant || f == m.F.Prec {
						return true
					}
				}
			}
		}
		return false
	}
	for ch := true; ch; {
		ch = false
		for _, b := range fn.Blocks {
			if m.Dominates(mb, b) {
				continue // at or after the merge: handled below
			}
			for _, in := range b.Instrs {
				v, ok := in.(ssa.Value)
				if !ok || taint[v] {
					continue
				}
				t := isSource(in)
				if !t {
					switch x := in.(type) {
					case *ssa.BinOp, *ssa.Convert, *ssa.ChangeType, *ssa.Phi:
						var ops []*ssa.Value
						for _, o := range x.Operands(ops) {
							if *o != nil && taint[*o] {
								t = true
							}
						}
					case *ssa.Call:
						if b := model.BuiltinName(&x.Call); b == "max" || b == "min" {
							for _, a := range x.Call.Args {
								if taint[a] {
									t = true
								}
							}
						}
					}
				}
				if t {
					taint[v], ch = true, true
				}
			}
		}
	}
	// uses at or after the merge
	for _, b := range fn.Blocks {
		if !m.Dominates(mb, b) {
			continue
		}
		for _, in := range b.Instrs {
			if ph, ok := in.(*ssa.Phi); ok && b == mb {
				if copyEdge < len(ph.Edges) && taint[ph.Edges[copyEdge]] {
					return fmt.Sprintf("%s: a value computed from the unrounded operand (its exponent, digit count or mantissa) flows into the code after the rounding copy on the very path that made the copy", m.InstrPos(ph))
				}
				continue
			}
			var ops []*ssa.Value
			for _, o := range in.Operands(ops) {
				if *o != nil && taint[*o] {
					return fmt.Sprintf("%s: uses a value read from the unrounded operand (exponent / digit count / mantissa) after x was replaced by its rounded copy: when rounding carries into a new leading digit the exponent and digit count of the copy differ", m.InstrPos(in))
				}
			}
		}
	}
	return ""
}

// roundedTwice: some path of fn applies two operations that may round to parameter k. Returns
// the position of the second one ("" if none).
func roundedTwice(m *model.Model, fn *ssa.Function, k int) string {
	reach := reachesRound(m)
	live := m.Live(fn)
	n := len(fn.Blocks)
	st := make([]int, n) // 0 unreached, 1 not yet rounded, 2 may have been rounded
	st[0] = 1
	bad := ""
	rounds := func(in ssa.Instruction) bool {
		cal, c := model.Callee(in)
		if cal == nil || reach[cal] == nil {
			return false
		}
		for ai, a := range c.Args {
			if m.IsDecPtr(a.Type()) && reach[cal][ai] && m.RefOf(a).MayBeParam(k) {
				return true
			}
		}
		return false
	}
	step := func(b *ssa.BasicBlock, v int, rec bool) int {
		for _, in := range b.Instrs {
			if rounds(in) {
				if v == 2 && rec && bad == "" {
					bad = m.InstrPos(in) + ": the object is rounded here after it may already have been rounded earlier in " + m.FuncName(fn)
				}
				v = 2
			}
		}
		return v
	}
	work := []int{0}
	for len(work) > 0 {
		bi := work[len(work)-1]
		work = work[:len(work)-1]
		if !live[bi] {
			continue
		}
		out := step(fn.Blocks[bi], st[bi], false)
		for _, ed := range model.LiveSuccs(fn.Blocks[bi]) {
			if out > st[ed.To.Index] {
				st[ed.To.Index] = out
				work = append(work, ed.To.Index)
			}
		}
	}
	for bi, b := range fn.Blocks {
		if st[bi] != 0 && live[bi] {
			step(b, st[bi], true)
		}
	}
	return bad
}

// isValueOrJoinOf: v is w, or a join (φ) all of whose incoming values are w, such joins, or
// constants (the zero value a result variable held before it was assigned).
func isValueOrJoinOf(v, w ssa.Value, depth int) bool {
	if v == w {
		return true
	}
	ph, ok := v.(*ssa.Phi)
	if !ok || depth == 0 {
		return false
	}
	some := false
	for _, e := range ph.Edges {
		if _, isC := e.(*ssa.Const); isC {
			continue
		}
		if e == ssa.Value(ph) {
			continue
		}
		if !isValueOrJoinOf(e, w, depth-1) {
			return false
		}
		some = true
	}
	return some
}
