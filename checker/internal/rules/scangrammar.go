package rules

// SCANSHAPE (one-grammar, byte-reader) — the entry points that turn text into a Decimal.

import (
	"fmt"
	"go/token"
	"go/types"
	"sort"

	"golang.org/x/tools/go/ssa"

	"decverif/internal/model"
	"decverif/internal/ob"
)

// runScanGrammar:
//
// (one-grammar) every exported function that takes text (a string, a byte slice that is not a gob
// encoding, or a fmt.ScanState) and defines the value of a Decimal does so through
// (*Decimal).scan — directly, or through Parse/SetString/UnmarshalText/ParseDecimal, which end
// there — and through SetInf for the spellings of infinity. A second conversion path (strconv, a
// SetUint64 fast path) has its own idea of prefixes, separators and legacy octal, and the same
// literal then has two values.
//
// (byte-reader) the adapter that feeds a fmt.ScanState to scan narrows a rune to a byte; it must
// refuse runes that are not single bytes (size != 1, or a range test on the rune): byte(ch) of a
// wider rune is some other ASCII character, possibly a digit.
func runScanGrammar(m *model.Model, s *ob.Set) {
	const R = "SCANSHAPE"
	grammar := map[string]bool{}
	scan := m.TryLookup("(*Decimal).scan")
	if scan == nil {
		return
	}
	// the functions that end in scan: those that call scan or another such function on every
	// path to a success return are not computed here; it is enough to know who MAY define a value
	// from text: scan, SetInf, and the entry points themselves
	isTextParam := func(t types.Type) bool {
		if b, ok := t.Underlying().(*types.Basic); ok && b.Kind() == types.String {
			return true
		}
		if isByteSlice(t) {
			return true
		}
		if n, ok := t.(*types.Named); ok && n.Obj().Name() == "ScanState" && n.Obj().Pkg() != nil && n.Obj().Pkg().Path() == "fmt" {
			return true
		}
		return false
	}
	definesValue := func(fn *ssa.Function) bool {
		if fn == nil || !m.InDecimalPkg(fn) || len(fn.Params) == 0 || !m.IsDecPtr(fn.Params[0].Type()) {
			return false
		}
		_, ok := m.StoreSets(fn, 0)[m.F.Form]
		return ok
	}
	var entries []*ssa.Function
	for _, fn := range m.Funcs {
		if !m.InDecimalPkg(fn) || fn.Parent() != nil || !m.IsExported(fn) || len(fn.Blocks) == 0 {
			continue
		}
		if fn.Name() == "GobDecode" || fn.Name() == "Append" {
			continue // binary encoding; Append takes a byte buffer to write to
		}
		text := false
		for i, p := range fn.Params {
			if i == 0 && fn.Signature.Recv() != nil {
				continue
			}
			if isTextParam(p.Type()) {
				text = true
			}
		}
		if !text {
			continue
		}
		// defines a Decimal: its receiver's form is written, or it returns a *Decimal
		ret := false
		for i := 0; i < fn.Signature.Results().Len(); i++ {
			if m.IsDecPtr(fn.Signature.Results().At(i).Type()) {
				ret = true
			}
		}
		if !definesValue(fn) && !ret {
			continue
		}
		entries = append(entries, fn)
		grammar[m.FuncName(fn)] = true
	}
	grammar["(*Decimal).scan"] = true
	sort.Slice(entries, func(i, j int) bool { return m.FuncName(entries[i]) < m.FuncName(entries[j]) })
	if len(entries) < 3 {
		m.Blind("SCANSHAPE: only %d text entry points found", len(entries))
	}
	for _, fn := range entries {
		live := m.Live(fn)
		var bad []string
		n := 0
		for _, b := range fn.Blocks {
			if !live[b.Index] {
				continue
			}
			for _, in := range b.Instrs {
				ci, ok := in.(ssa.CallInstruction)
				if !ok {
					continue
				}
				cal := model.Unthunk(ci.Common().StaticCallee())
				if cal == nil {
					continue
				}
				// conversions of text to numbers by the standard library
				if cal.Pkg != nil && cal.Pkg.Pkg.Path() == "strconv" {
					switch cal.Name() {
					case "ParseUint", "ParseInt", "ParseFloat", "Atoi":
						bad = append(bad, fmt.Sprintf("%s: the text is converted by strconv.%s: the same literal can then have two values (strconv's base 0 reads a leading 0 as octal, Parse does not)", m.InstrPos(in), cal.Name()))
					}
					continue
				}
				if !definesValue(cal) {
					continue
				}
				n++
				name := m.FuncName(cal)
				if grammar[name] || name == "(*Decimal).SetInf" || name == "(*Decimal).SetPrec" || name == "(*Decimal).SetMode" {
					continue
				}
				// an unexported helper of the entry points that itself defines values through the
				// grammar only (scanAll: scan, then a check that nothing follows)
				if !m.IsExported(cal) && cleanGrammarHelper(m, cal, grammar, definesValue, 3) {
					continue
				}
				bad = append(bad, fmt.Sprintf("%s: the value is defined by %s, not by the grammar of (*Decimal).scan: the same literal can then have two values", m.InstrPos(in), name))
			}
		}
		// who calls scan directly, with which base, after what
		isScanState := false
		for i, p := range fn.Params {
			if i == 0 && fn.Signature.Recv() != nil {
				continue
			}
			if n, ok := p.Type().(*types.Named); ok && n.Obj().Name() == "ScanState" {
				isScanState = true
			}
		}
		hasBaseParam := false
		for _, p := range fn.Params {
			if b, ok := p.Type().Underlying().(*types.Basic); ok && b.Kind() == types.Int && p.Name() == "base" {
				hasBaseParam = true
			}
		}
		for _, b := range fn.Blocks {
			if !live[b.Index] {
				continue
			}
			for _, in := range b.Instrs {
				call, ok := in.(*ssa.Call)
				if !ok || model.Unthunk(call.Call.StaticCallee()) != scan {
					continue
				}
				// (whole-text) a function that is given the complete text must not stop at the
				// longest valid prefix: only Parse, which checks that the reader is exhausted
				// afterwards, and the fmt.Scanner adapter (a token reader by contract) call scan
				if !isScanState && fn.Name() != "Parse" && !readsOnAfter(call) {
					bad = append(bad, fmt.Sprintf("%s: scan is called directly on the whole text: it accepts the longest valid prefix and leaves the rest unread (only Parse checks that nothing follows)", m.InstrPos(in)))
				}
				// (base) no base of its own: 0 (prefix-selected) unless the caller supplies one
				if !hasBaseParam && len(call.Call.Args) >= 3 {
					if k, ok := model.ConstInt(call.Call.Args[2]); !ok || k != 0 {
						bad = append(bad, fmt.Sprintf("%s: scan is given a base that is not the constant 0 although %s has no base parameter: the verb or format does not select the base of the mantissa (the 'b' format of this package is decimal)", m.InstrPos(in), fn.Name()))
					}
				}
				// (skip-space) the fmt.Scanner adapter skips leading white space itself: fmt does
				// so only in the Scanf family
				if isScanState {
					skipped := false
					for _, b2 := range fn.Blocks {
						for _, in2 := range b2.Instrs {
							c2, ok := in2.(*ssa.Call)
							if !ok || !c2.Call.IsInvoke() || c2.Call.Method.Name() != "SkipSpace" {
								continue
							}
							if m.InstrDominates(c2, call) {
								skipped = true
							}
						}
					}
					if !skipped {
						bad = append(bad, fmt.Sprintf("%s: scan is reached without SkipSpace having been called on the ScanState: Sscan/Fscan/Sscanln hand the operand over with its leading blanks", m.InstrPos(in)))
					}
				}
			}
		}
		c := m.FuncName(fn) + "/one-grammar"
		if len(bad) == 0 {
			s.Ok(R, c, m.Pos(fn.Pos()), fmt.Sprintf("%d value-defining call(s), all to scan/Parse/SetInf; scan is called directly only by Parse and by the fmt.Scanner adapter (after SkipSpace), with base 0 unless the caller supplies one", n))
		} else {
			s.Bad(R, c, m.Pos(fn.Pos()), bad[0], bad[1:]...)
		}
	}

	// (byte-reader)
	for _, fn := range m.Funcs {
		if !m.InDecimalPkg(fn) || fn.Name() != "ReadByte" || len(fn.Blocks) == 0 || fn.Synthetic != "" {
			continue
		}
		var rr *ssa.Call
		for _, b := range fn.Blocks {
			for _, in := range b.Instrs {
				if c, ok := in.(*ssa.Call); ok {
					name := ""
					if c.Call.IsInvoke() {
						name = c.Call.Method.Name()
					} else if cal := model.Unthunk(c.Call.StaticCallee()); cal != nil {
						name = cal.Name()
					}
					if name == "ReadRune" {
						rr = c
					}
				}
			}
		}
		c := m.FuncName(fn) + "/byte-reader"
		if rr == nil {
			s.Note(R, c, m.Pos(fn.Pos()), "ReadByte is not built on ReadRune (nothing to narrow)")
			continue
		}
		var chv, sizev ssa.Value
		if rr.Referrers() != nil {
			for _, u := range *rr.Referrers() {
				if ex, ok := u.(*ssa.Extract); ok {
					switch ex.Index {
					case 0:
						chv = ex
					case 1:
						sizev = ex
					}
				}
			}
		}
		narrowed := false
		if chv != nil && chv.Referrers() != nil {
			for _, u := range *chv.Referrers() {
				if cv, ok := u.(*ssa.Convert); ok {
					if bt, ok := cv.Type().Underlying().(*types.Basic); ok && bt.Kind() == types.Uint8 {
						narrowed = true
					}
				}
			}
		}
		if !narrowed {
			s.Note(R, c, m.Pos(fn.Pos()), "the rune is not narrowed to a byte here")
			continue
		}
		// a test of the size against 1, or of the rune against a bound <= 0x100, one edge of which
		// leads to a block that makes an error
		guard := ""
		for _, b := range fn.Blocks {
			if len(b.Instrs) == 0 {
				continue
			}
			ifi, ok := b.Instrs[len(b.Instrs)-1].(*ssa.If)
			if !ok {
				continue
			}
			bo, ok := ifi.Cond.(*ssa.BinOp)
			if !ok {
				continue
			}
			x, y := bo.X, bo.Y
			if _, isC := x.(*ssa.Const); isC {
				x, y = y, x
			}
			k, isK := model.ConstInt(y)
			if !isK {
				continue
			}
			badEdge := -1
			switch {
			case sizev != nil && x == sizev && k == 1 && bo.Op == token.NEQ:
				badEdge = 0
			case sizev != nil && x == sizev && k == 1 && bo.Op == token.EQL:
				badEdge = 1
			case sizev != nil && x == sizev && k == 1 && bo.Op == token.GTR:
				badEdge = 0
			case chv != nil && x == chv && k >= 0x80 && k <= 0x100 && (bo.Op == token.GEQ || bo.Op == token.GTR) && bo.X == x:
				badEdge = 0
			case chv != nil && x == chv && k >= 0x80 && k <= 0x100 && (bo.Op == token.LSS || bo.Op == token.LEQ) && bo.X == x:
				badEdge = 1
			}
			if badEdge < 0 {
				continue
			}
			// an error is made somewhere behind the bad edge
			for _, eb := range fn.Blocks {
				if !m.EdgeDominates(b, badEdge, eb) && eb != b.Succs[badEdge] {
					continue
				}
				for _, in := range eb.Instrs {
					if call, ok := in.(*ssa.Call); ok {
						if cal := model.Unthunk(call.Call.StaticCallee()); cal != nil && (cal.Name() == "Errorf" || cal.Name() == "New") {
							guard = m.InstrPos(ifi)
						}
					}
				}
			}
		}
		s.Check(guard != "", R, c, m.Pos(fn.Pos()), "a rune that is not a single byte is refused (test at "+guard+")",
			"ReadByte narrows the rune ReadRune returned to a byte without refusing runes wider than one byte (no test of size against 1 or of the rune against a bound <= 0x100 that leads to an error): U+0130..U+0139 are read as the digits 0..9 and Scan accepts input math/big rejects")
	}
}

// cleanGrammarHelper: every call in fn that may define a Decimal's value goes to the grammar (scan,
// the text entry points), to SetInf/SetPrec/SetMode, or to another such helper; nothing is
// converted by strconv.
func cleanGrammarHelper(m *model.Model, fn *ssa.Function, grammar map[string]bool, definesValue func(*ssa.Function) bool, depth int) bool {
	if depth == 0 || len(fn.Blocks) == 0 {
		return false
	}
	n := 0
	for _, b := range fn.Blocks {
		for _, in := range b.Instrs {
			ci, ok := in.(ssa.CallInstruction)
			if !ok {
				continue
			}
			cal := model.Unthunk(ci.Common().StaticCallee())
			if cal == nil {
				continue
			}
			if cal.Pkg != nil && cal.Pkg.Pkg.Path() == "strconv" {
				switch cal.Name() {
				case "ParseUint", "ParseInt", "ParseFloat", "Atoi":
					return false
				}
				continue
			}
			if !definesValue(cal) {
				continue
			}
			name := m.FuncName(cal)
			if grammar[name] {
				n++
				continue
			}
			if name == "(*Decimal).SetInf" || name == "(*Decimal).SetPrec" || name == "(*Decimal).SetMode" {
				continue
			}
			if !m.IsExported(cal) && cal != fn && cleanGrammarHelper(m, cal, grammar, definesValue, depth-1) {
				n++
				continue
			}
			return false
		}
	}
	return n > 0
}

// readsOnAfter: behind the call scan(r, …) the function asks r for another byte (ReadByte on the
// very reader): it looks at what scan left unread, as Parse does to reject trailing text.
func readsOnAfter(call *ssa.Call) bool {
	if len(call.Call.Args) < 2 {
		return false
	}
	r := call.Call.Args[1]
	fn := call.Parent()
	for _, b := range fn.Blocks {
		if b != call.Block() && !blockReaches(call.Block(), b) {
			continue
		}
		for _, in := range b.Instrs {
			c, ok := in.(*ssa.Call)
			if !ok {
				continue
			}
			// dv_r.ReadByte() on the concrete reader that was handed to scan as an interface
			if cal := c.Call.StaticCallee(); cal != nil && cal.Name() == "ReadByte" && len(c.Call.Args) == 1 {
				if m2, ok := r.(*ssa.MakeInterface); ok && m2.X == c.Call.Args[0] {
					return true
				}
				if c.Call.Args[0] == r {
					return true
				}
			}
			if !c.Call.IsInvoke() || c.Call.Method.Name() != "ReadByte" {
				continue
			}
			if c.Call.Value == r {
				return true
			}
			// the reader converted to the interface twice from one concrete value
			if m1, ok := c.Call.Value.(*ssa.MakeInterface); ok {
				if m2, ok := r.(*ssa.MakeInterface); ok && m1.X == m2.X {
					return true
				}
			}
		}
	}
	return false
}
