package rules

// E7 — ASM: lints over dec_arith_amd64.s and the linkage around it. No
// instruction semantics are modelled; the rules check linkage, constants,
// frame offsets, store targets and congruence of sibling code sequences.

import (
	"fmt"
	"go/ast"
	"go/build/constraint"
	"go/constant"
	"go/token"
	"go/types"
	"os"
	"path/filepath"
	"regexp"
	"sort"
	"strconv"
	"strings"

	"golang.org/x/tools/go/ssa"

	"decverif/internal/model"
	"decverif/internal/ob"
)

func init() {
	Register(&Rule{Name: "ASM", Floor: 50, Configs: []string{"amd64"}, Run: runAsm,
		Doc: "every body-less kernel declaration has a TEXT symbol and vice versa; frame offsets match the Go signatures; the constants in the assembly equal the Go constants; kernels store only through their destination pointer (loaded once from z+0(FP)) or into result slots; the 4x unrolled bodies equal the tail loop instantiated four times; the inlined copies of div10W equal div10W"})
	Register(&Rule{Name: "ASM-PURE", Floor: 6, Configs: []string{"purego", "386"}, Run: runAsmPure,
		Doc: "in the pure-Go configurations every kernel wrapper forwards its own parameters in order to the _g twin of the same name and returns its results in order"})
	Register(&Rule{Name: "BUILDTAGS", Floor: 2, Run: runBuildTags,
		Doc: "the assembly declarations and the pure-Go wrappers are selected by complementary build constraints, the .s file by the same constraint as the body-less declarations, and no other non-test file of the package is build-conditional or branches on the architecture"})
}

type asmInstr struct {
	label string // non-empty for a label pseudo-instruction
	op    string
	args  []string
	line  int
}

type asmText struct {
	name   string // as written, e.g. "·add10VV" or "decCpy"
	line   int
	instrs []asmInstr
}

type asmFile struct {
	path    string
	defines map[string]string
	texts   []*asmText
	header  []string // lines before the first TEXT (build constraints live here)
}

var reText = regexp.MustCompile(`^TEXT\s+(\S+)\(SB\)`)
var reLabel = regexp.MustCompile(`^([A-Za-z_][A-Za-z0-9_]*):\s*(.*)$`)
var reDefine = regexp.MustCompile(`^#define\s+(\w+)\s+(\S+)`)

func readRepoFile(m *model.Model, path string) string {
	if b, ok := m.Cfg.Overlay[path]; ok {
		return string(b)
	}
	b, err := os.ReadFile(path)
	if err != nil {
		model.Fatal("cannot read %s: %v", path, err)
	}
	return string(b)
}

func parseAsm(m *model.Model, path string) *asmFile {
	f := &asmFile{path: path, defines: map[string]string{}}
	var cur *asmText
	for i, ln := range strings.Split(readRepoFile(m, path), "\n") {
		raw := ln
		if j := strings.Index(ln, "//"); j >= 0 {
			ln = ln[:j]
		}
		ln = strings.TrimSpace(ln)
		if cur == nil {
			f.header = append(f.header, raw)
		}
		if ln == "" {
			continue
		}
		if d := reDefine.FindStringSubmatch(ln); d != nil {
			f.defines[d[1]] = d[2]
			continue
		}
		if strings.HasPrefix(ln, "#") {
			continue
		}
		if t := reText.FindStringSubmatch(ln); t != nil {
			cur = &asmText{name: t[1], line: i + 1}
			f.texts = append(f.texts, cur)
			continue
		}
		if cur == nil {
			continue
		}
		if l := reLabel.FindStringSubmatch(ln); l != nil {
			cur.instrs = append(cur.instrs, asmInstr{label: l[1], line: i + 1})
			ln = strings.TrimSpace(l[2])
			if ln == "" {
				continue
			}
		}
		parts := strings.Fields(ln)
		op := parts[0]
		rest := strings.TrimSpace(strings.TrimPrefix(ln, op))
		var args []string
		if rest != "" {
			for _, a := range strings.Split(rest, ",") {
				args = append(args, strings.TrimSpace(a))
			}
		}
		cur.instrs = append(cur.instrs, asmInstr{op: op, args: args, line: i + 1})
	}
	return f
}

func (f *asmFile) text(name string) *asmText {
	for _, t := range f.texts {
		if t.name == name {
			return t
		}
	}
	return nil
}

func decAsmFile(m *model.Model) *asmFile {
	for _, p := range m.AsmFiles {
		if filepath.Base(p) == "dec_arith_amd64.s" {
			return parseAsm(m, p)
		}
	}
	model.Fatal("dec_arith_amd64.s is not among the assembly files of configuration %s", m.Cfg.Name)
	return nil
}

var reFP = regexp.MustCompile(`^([A-Za-z_][A-Za-z0-9_]*)\+(-?\d+)\(FP\)$`)
var reMem = regexp.MustCompile(`^(-?\d+)?\((\w+)\)(?:\((\w+)\*(\d)\))?$`)

// frameLayout returns name -> offset for the FP references of fn under the amd64 stack ABI.
func frameLayout(fn *ssa.Function) (map[string]int64, int64) {
	sizes := types.SizesFor("gc", "amd64")
	lay := map[string]int64{}
	var off int64
	add := func(v *types.Var) {
		t := v.Type()
		al := sizes.Alignof(t)
		off = (off + al - 1) / al * al
		n := v.Name()
		if _, ok := t.Underlying().(*types.Slice); ok {
			lay[n] = off
			lay[n+"_base"] = off
			lay[n+"_len"] = off + 8
			lay[n+"_cap"] = off + 16
		} else {
			lay[n] = off
		}
		off += sizes.Sizeof(t)
	}
	sig := fn.Signature
	for i := 0; i < sig.Params().Len(); i++ {
		add(sig.Params().At(i))
	}
	off = (off + 7) / 8 * 8
	for i := 0; i < sig.Results().Len(); i++ {
		add(sig.Results().At(i))
	}
	return lay, off
}

func runAsm(m *model.Model, s *ob.Set) {
	const R = "ASM"
	f := decAsmFile(m)
	rel := func(t *asmText) string { return fmt.Sprintf("dec_arith_amd64.s:%d", t.line) }
	ipos := func(i asmInstr) string { return fmt.Sprintf("dec_arith_amd64.s:%d", i.line) }

	// ---- A1: symbols <-> declarations
	externs := map[string]*ssa.Function{}
	for _, fn := range m.Externs {
		if m.InDecimalPkg(fn) {
			externs[fn.Name()] = fn
		}
	}
	allTexts := map[string]bool{}
	for _, p := range m.AsmFiles {
		for _, t := range parseAsm(m, p).texts {
			allTexts[t.name] = true
		}
	}
	var en []string
	for n := range externs {
		en = append(en, n)
	}
	sort.Strings(en)
	for _, n := range en {
		s.Check(allTexts["·"+n], R, "decl/"+n, m.Pos(externs[n].Pos()), "TEXT ·"+n+" exists", "body-less declaration "+n+" has no TEXT symbol in the assembly files of this configuration")
	}
	for _, t := range f.texts {
		if !strings.HasPrefix(t.name, "·") {
			continue
		}
		_, ok := externs[strings.TrimPrefix(t.name, "·")]
		s.Check(ok, R, "text/"+t.name, rel(t), "declared in Go", "TEXT "+t.name+" has no body-less Go declaration")
	}

	// ---- A2: frame offsets
	for _, t := range f.texts {
		fn, ok := externs[strings.TrimPrefix(t.name, "·")]
		if !ok || !strings.HasPrefix(t.name, "·") {
			continue
		}
		lay, _ := frameLayout(fn)
		var bad []string
		n := 0
		for _, in := range t.instrs {
			for _, a := range in.args {
				mm := reFP.FindStringSubmatch(a)
				if mm == nil {
					continue
				}
				n++
				off, _ := strconv.ParseInt(mm[2], 10, 64)
				want, known := lay[mm[1]]
				if !known {
					bad = append(bad, fmt.Sprintf("%s: %s names no parameter or result of %s", ipos(in), a, fn.Name()))
				} else if want != off {
					bad = append(bad, fmt.Sprintf("%s: %s, but %s lives at offset %d", ipos(in), a, mm[1], want))
				}
			}
		}
		if len(bad) == 0 && n > 0 {
			s.Ok(R, "frame/"+t.name, rel(t), fmt.Sprintf("%d FP references match the Go signature", n))
		} else if n == 0 {
			s.Bad(R, "frame/"+t.name, rel(t), "no FP reference found")
		} else {
			s.Bad(R, "frame/"+t.name, rel(t), bad[0], bad[1:]...)
		}
		// every result slot is written
		sig := fn.Signature
		for i := 0; i < sig.Results().Len(); i++ {
			rn := sig.Results().At(i).Name()
			wr := false
			for _, in := range t.instrs {
				if len(in.args) > 0 {
					if mm := reFP.FindStringSubmatch(in.args[len(in.args)-1]); mm != nil && mm[1] == rn {
						wr = true
					}
				}
			}
			s.Check(wr, R, "result/"+t.name+"/"+rn, rel(t), "result slot written", "result "+rn+" of "+t.name+" is never stored")
		}
	}

	// ---- A3: constants
	for _, d := range []string{"_DB", "_DMax", "_DW"} {
		v, ok := f.defines[d]
		want := m.PkgConst(d).ExactString()
		s.Check(ok && v == want, R, "define/"+d, "dec_arith_amd64.s", v, fmt.Sprintf("#define %s %s differs from the Go constant %s", d, v, want))
	}
	{
		mp := localConstOf(m, m.Lookup("div10W_g"), "mP")
		n, bad := 0, []string{}
		for _, t := range f.texts {
			for _, in := range t.instrs {
				for _, a := range in.args {
					if strings.HasPrefix(a, "$0x") && len(a) > 12 {
						n++
						v, err := strconv.ParseUint(a[3:], 16, 64)
						if err != nil || mp == nil || !constant.Compare(constant.MakeUint64(v), token.EQL, mp) {
							bad = append(bad, ipos(in)+": "+a)
						}
					}
				}
			}
		}
		s.Check(len(bad) == 0 && n >= 4, R, "immediate/mP", "dec_arith_amd64.s", fmt.Sprintf("%d occurrences equal mP of div10W_g", n), "reciprocal immediate differs from the Go constant mP (or fewer than 4 occurrences): "+strings.Join(bad, ", "))
	}

	// ---- A4: store-target discipline. The destination pointer is whichever register the routine
	// loads from z+0(FP) (the copy helpers, entered by JMP, inherit R10 from their callers): every
	// memory store goes through it, and it is written by nothing but that one load.
	noWrite := map[string]bool{"CMPQ": true, "TESTQ": true, "JMP": true, "CALL": true, "BTQ": true, "MULQ": true, "DIVQ": true, "CMPW": true, "CMPL": true}
	helpers := map[string]string{}
	for _, t := range f.texts {
		if !strings.Contains(t.name, "·") {
			helpers[t.name] = "entered by JMP: stores through the register its callers load from z+0(FP)"
		}
	}
	for _, t := range f.texts {
		var bad []string
		dstReg := ""
		if _, isHelper := helpers[t.name]; isHelper {
			dstReg = helperDst(t)
		}
		loads := 0
		for _, in := range t.instrs {
			if in.label == "" && in.op == "MOVQ" && len(in.args) == 2 && in.args[0] == "z+0(FP)" && asmRegs[in.args[1]] {
				loads++
				if dstReg != "" && dstReg != in.args[1] {
					bad = append(bad, fmt.Sprintf("%s: the destination pointer is loaded into %s and into %s", ipos(in), dstReg, in.args[1]))
				}
				dstReg = in.args[1]
			}
		}
		stores := 0
		for _, in := range t.instrs {
			if in.label != "" || len(in.args) == 0 || noWrite[in.op] {
				continue
			}
			dst := in.args[len(in.args)-1]
			if dstReg != "" && dst == dstReg {
				if !(in.op == "MOVQ" && len(in.args) == 2 && in.args[0] == "z+0(FP)") {
					bad = append(bad, fmt.Sprintf("%s: destination pointer %s is modified by %s %s", ipos(in), dstReg, in.op, strings.Join(in.args, ", ")))
				}
				continue
			}
			if reFP.MatchString(dst) {
				continue // result slot (names checked by frame/)
			}
			if strings.HasSuffix(dst, "(SB)") {
				bad = append(bad, fmt.Sprintf("%s: store to a global %s", ipos(in), dst))
				continue
			}
			if mm := reMem.FindStringSubmatch(dst); mm != nil {
				stores++
				if mm[2] != dstReg {
					bad = append(bad, fmt.Sprintf("%s: %s stores through %s, not through the destination pointer (%s, loaded from z+0(FP))", ipos(in), in.op, mm[2], dstReg))
				}
			}
		}
		c := "stores/" + t.name
		if why, isHelper := helpers[t.name]; isHelper {
			s.Check(len(bad) == 0 && loads == 0, R, c, rel(t), why, strings.Join(bad, "; ")+" (helper must not reload the destination pointer)")
			continue
		}
		if stores == 0 && len(bad) == 0 {
			s.Ok(R, c, rel(t), "scalar kernel: writes result slots only")
			continue
		}
		if loads != 1 {
			bad = append(bad, fmt.Sprintf("the destination pointer is loaded from z+0(FP) %d times (want exactly once)", loads))
		}
		// a vector kernel that tail-calls a copy helper must hand it the destination in R10
		for _, in := range t.instrs {
			if in.label == "" && in.op == "JMP" && len(in.args) == 1 && strings.HasSuffix(in.args[0], "(SB)") {
				if h := f.text(strings.TrimSuffix(in.args[0], "(SB)")); h != nil && helperDst(h) != dstReg {
					bad = append(bad, fmt.Sprintf("%s: tail call to %s, which stores through %s, but this routine keeps the destination in %s", ipos(in), in.args[0], helperDst(h), dstReg))
				}
			}
		}
		if len(bad) == 0 {
			s.Ok(R, c, rel(t), fmt.Sprintf("%d memory stores, all through %s = z", stores, dstReg))
		} else {
			s.Bad(R, c, rel(t), bad[0], bad[1:]...)
		}
	}

	// ---- A5: lane congruence of the unrolled bodies. The unrolled loop and the tail loop are
	// found structurally (backward jumps), not by label name.
	for _, name := range []string{"·add10VV", "·sub10VV", "·add10VW", "·sub10VW", "decCpy", "decCpyInv"} {
		t := f.text(name)
		c := "lanes/" + name
		if t == nil {
			s.Bad(R, c, "dec_arith_amd64.s", "TEXT "+name+" not found")
			continue
		}
		k, why := laneCongruent(t)
		if why != "" && k > 0 {
			// not congruent instruction by instruction: compare what the two loops compute
			if ub, lb := laneLoops(t); ub != nil && lb != nil {
				diff, decided := symLoopEquiv(ub, lb, k, f.defines)
				if decided && diff == "" {
					s.Ok(R, c, rel(t), fmt.Sprintf("unrolled body == tail loop x%d by symbolic evaluation (same values stored at the same addresses, same loop-carried registers); the instruction sequences differ: %s", k, why))
					continue
				}
				if decided {
					why += "; by symbolic evaluation: " + diff
				}
			}
		}
		s.Check(why == "", R, c, rel(t), fmt.Sprintf("unrolled body == tail loop x%d, index step %d", k, k), why)
	}

	// ---- A5b: the block-copy helpers may be entered with overlapping source and destination
	// (in-place shifts by whole words): inside every loop iteration, and in every straight-line
	// block, all loads precede all stores
	for _, hn := range []string{"decCpy", "decCpyInv"} {
		t := f.text(hn)
		if t == nil {
			s.Bad(R, "copy-order/"+hn, "dec_arith_amd64.s", "TEXT "+hn+" not found")
			continue
		}
		why := ""
		storeSeen := false
		for _, in := range t.instrs {
			if in.label != "" {
				storeSeen = false // a new block / loop body starts
				continue
			}
			switch {
			case isLaneStore(in):
				storeSeen = true
			case isLaneLoad(in):
				if storeSeen && why == "" {
					why = fmt.Sprintf("%s: a load follows a store inside one copy block of %s: with overlapping source and destination (in-place shift by whole words) the store may already have overwritten the word being loaded", ipos(in), hn)
				}
			case strings.HasPrefix(in.op, "J"):
				storeSeen = false
			}
		}
		s.Check(why == "", R, "copy-order/"+hn, rel(t), "loads precede stores in every copy block", why)
	}
	// ---- A5c: def-before-use of registers and flags, per TEXT
	contracts := asmContracts(f)
	for _, t := range f.texts {
		bad, checked, unknown := asmDefUse(t, contracts)
		if len(unknown) > 0 {
			model.Fatal("ASM defuse: opcode(s) without a read/write signature: %s", strings.Join(unknown, ", "))
		}
		c := "defuse/" + t.name
		if len(bad) == 0 {
			s.Ok(R, c, rel(t), fmt.Sprintf("%d register/flag reads, each preceded by a write on every path from the entry", checked))
		} else {
			s.Bad(R, c, rel(t), bad[0], bad[1:]...)
		}
	}

	// ---- A5e: provenance of consumed carries
	for _, t := range f.texts {
		bad, checked := asmCarryRule(t, externs[strings.TrimPrefix(t.name, "·")])
		if checked == 0 {
			continue
		}
		c := "carry/" + t.name
		if len(bad) == 0 {
			s.Ok(R, c, rel(t), fmt.Sprintf("%d carry consumer(s)/word sums: no carry materialised twice, every word+word sum has its hardware carry read", checked))
		} else {
			s.Bad(R, c, rel(t), bad[0], bad[1:]...)
		}
	}

	// ---- A5e': index and count registers in step at every label
	for _, t := range f.texts {
		bad, np := asmCounterRule(t)
		if np == 0 {
			continue
		}
		c := "counter/" + t.name
		if len(bad) == 0 {
			s.Ok(R, c, rel(t), fmt.Sprintf("%d index/count pair(s): every label is entered with the same offset between them from all sides", np))
		} else {
			s.Bad(R, c, rel(t), bad[0], bad[1:]...)
		}
	}

	// ---- A5e'': a word-by-word division writes quotient words that come from the division
	// (every assembly file of the configuration, the binary kernels taken over from math/big too)
	for _, ap := range m.AsmFiles {
		af := parseAsm(m, ap)
		for _, t := range af.texts {
			hasDiv := false
			for _, in := range t.instrs {
				if in.op == "DIVQ" {
					hasDiv = true
				}
			}
			if !hasDiv {
				continue
			}
			// the destination pointer: loaded from z+0(FP)
			zreg := ""
			for _, in := range t.instrs {
				if in.op == "MOVQ" && len(in.args) == 2 && in.args[0] == "z+0(FP)" {
					zreg = in.args[1]
				}
			}
			if zreg == "" {
				continue
			}
			bad, nst := "", 0
			testsRem := false
			for _, in := range t.instrs {
				if (in.op == "TESTQ" && len(in.args) == 2 && in.args[0] == "DX" && in.args[1] == "DX") || (in.op == "CMPQ" && len(in.args) == 2 && (in.args[0] == "DX" || in.args[1] == "DX")) {
					testsRem = true
				}
			}
			for _, in := range t.instrs {
				if in.op != "MOVQ" || len(in.args) != 2 {
					continue
				}
				mm := reMem.FindStringSubmatch(in.args[1])
				if mm == nil || mm[2] != zreg {
					continue
				}
				nst++
				if strings.HasPrefix(in.args[0], "$") && !testsRem {
					bad = fmt.Sprintf("%s:%d: a quotient word is stored as the constant %s, in a routine that never looks at the running remainder (DX): a dividend word of 0 gives a quotient word of 0 only when the remainder that comes in from above is 0 too", filepath.Base(ap), in.line, in.args[0])
				}
			}
			if nst == 0 {
				continue
			}
			s.Check(bad == "", R, "divskip/"+t.name, fmt.Sprintf("%s:%d", filepath.Base(ap), t.line), fmt.Sprintf("%d store(s) of quotient words, none a constant written without regard to the remainder", nst), bad)
		}
	}

	// ---- A5f: the base reduction is on every path of the scalar routines that contain it
	for _, t := range f.texts {
		bad, ok := asmDivCore(t)
		if !ok {
			continue
		}
		s.Check(bad == "", R, "divcore/"+t.name, rel(t), "every result is written behind the multiplication by the reciprocal of the word base", bad+": between 10^19 and 2^64 a product whose high binary word is zero still has a non-zero high decimal word")
	}

	// ---- A5d: dead register loads (informational)
	for _, t := range f.texts {
		bad, moves := asmDeadMoves(t, contracts)
		c := "deadmove/" + t.name
		if len(bad) == 0 {
			s.Ok(R, c, rel(t), fmt.Sprintf("%d register loads, each read on some path before being overwritten", moves))
		} else {
			// a dead load does not by itself change what the kernel computes (a leftover is
			// harmless), so this is recorded, not failed; defuse/ and lanes/ carry the verdicts
			s.Note(R, c, rel(t), strings.Join(bad, "; "))
		}
	}

	// ---- A6: inlined copies of div10W. The sequence is located by its reciprocal immediate and
	// compared modulo a consistent renaming of registers (AX and DX, the implicit operands of MULQ,
	// map to themselves); a register copy made just before the inlined sequence (MOVQ DX, R13)
	// makes the two registers interchangeable until one of them is written.
	{
		ref := f.text("·div10W")
		if ref == nil {
			s.Bad(R, "inline/div10W", "dec_arith_amd64.s", "TEXT ·div10W not found")
		} else {
			rseq, _ := divRegion(ref, 0)
			for _, n := range []string{"·mul10WW", "·mulAdd10VWW", "·addMul10VVW"} {
				t := f.text(n)
				c := "inline/" + n
				if t == nil {
					s.Bad(R, c, "dec_arith_amd64.s", "TEXT "+n+" not found")
					continue
				}
				seq, alias := divRegion(t, len(rseq))
				why := ""
				if len(rseq) < 15 {
					why = "reference sequence in ·div10W not found (SARQ $63 … up to the first store of a result)"
				} else if len(seq) != len(rseq) {
					why = fmt.Sprintf("inlined div10W sequence has %d instructions, ·div10W has %d", len(seq), len(rseq))
				} else {
					why = alphaEqual(rseq, seq, alias)
				}
				if why != "" {
					// not alignable instruction by instruction (reordered, constant hoisted out of
					// the loop ...): compare what is computed. The sequence is the innermost loop
					// body that contains a MULQ, or the whole routine if it has no loop; registers
					// loaded with a constant before it and not written in it keep that constant.
					body, entry := inlineBody(t, f.defines)
					diff, decided := symInlineEquiv(ref, body, entry, f.defines)
					if decided && diff == "" {
						s.Ok(R, c, rel(t), "computes ·div10W's two results from a register pair (n1, n0), by symbolic evaluation; the instruction sequences differ: "+why)
						continue
					}
					if decided {
						why += "; by symbolic evaluation: " + diff
					}
				}
				s.Check(why == "", R, c, rel(t), fmt.Sprintf("%d instructions equal ·div10W's up to register renaming", len(seq)), why)
			}
		}
	}
}

func localConstOf(m *model.Model, fn *ssa.Function, name string) constant.Value {
	for id, o := range m.Dec.TypesInfo.Defs {
		c, ok := o.(*types.Const)
		if !ok || id.Name != name || id.Pos() < fn.Syntax().Pos() || id.Pos() > fn.Syntax().End() {
			continue
		}
		return c.Val()
	}
	return nil
}

func asmSeg(t *asmText, start string, stops []string) []asmInstr {
	var out []asmInstr
	on := false
	for _, in := range t.instrs {
		if in.label == start {
			on = true
			continue
		}
		if !on {
			continue
		}
		if in.label != "" {
			stop := false
			for _, st := range stops {
				if in.label == st {
					stop = true
				}
			}
			if stop {
				break
			}
			continue
		}
		out = append(out, in)
	}
	return out
}

var reLaneMem = regexp.MustCompile(`^(-?\d+)?\((\w+)\)\((\w+)\*8\)$`)
var reIdxStep = regexp.MustCompile(`^\d+\(S[ID]\)$`)

func laneStrip(body []asmInstr) []asmInstr {
	ctrl := map[string]bool{"JGE": true, "JG": true, "JL": true, "JLE": true, "JMP": true, "JCC": true, "JNE": true, "JEQ": true, "TESTQ": true}
	var out []asmInstr
	for _, in := range body {
		if ctrl[in.op] {
			continue
		}
		if (in.op == "ADDQ" || in.op == "SUBQ" || in.op == "LEAQ") && len(in.args) == 2 && (in.args[1] == "SI" || in.args[1] == "DI") &&
			(strings.HasPrefix(in.args[0], "$") || reIdxStep.MatchString(in.args[0])) {
			continue // index / count update
		}
		out = append(out, in)
	}
	return out
}

func normMem(a string) string {
	if mm := reLaneMem.FindStringSubmatch(a); mm != nil {
		off := 0
		if mm[1] != "" {
			off, _ = strconv.Atoi(mm[1])
		}
		return fmt.Sprintf("%d(%s)(%s*8)", off, mm[2], mm[3])
	}
	return a
}

func instrStr(op string, args []string) string { return op + " " + strings.Join(args, ", ") }

func isLaneLoad(in asmInstr) bool {
	return in.op == "MOVQ" && len(in.args) == 2 && reLaneMem.MatchString(in.args[0]) && !reLaneMem.MatchString(in.args[1])
}
func isLaneStore(in asmInstr) bool {
	return in.op == "MOVQ" && len(in.args) == 2 && reLaneMem.MatchString(in.args[1])
}

// asmLoops returns the bodies of the loops of t: instruction ranges that start at a label and end
// at a jump back to that label.
func asmLoops(t *asmText) [][]asmInstr {
	at := map[string]int{}
	for i, in := range t.instrs {
		if in.label != "" {
			at[in.label] = i
		}
	}
	var out [][]asmInstr
	for i, in := range t.instrs {
		if in.label != "" || !strings.HasPrefix(in.op, "J") || len(in.args) != 1 {
			continue
		}
		if st, ok := at[in.args[0]]; ok && st < i {
			var body []asmInstr
			for _, b := range t.instrs[st+1 : i] {
				if b.label == "" {
					body = append(body, b)
				}
			}
			out = append(out, body)
		}
	}
	return out
}

func countLaneStores(b []asmInstr) int {
	n := 0
	for _, in := range b {
		if isLaneStore(in) {
			n++
		}
	}
	return n
}

// laneCongruent: the unrolled body equals the tail-loop body instantiated for lanes 0..K-1
// (offset += 8k; lane register = destination of the lane's load), and the unrolled loop
// advances its index by K. ALU instructions are compared as one ordered list, loads and stores
// as ordered lists of their own. The two loops are the loops of t that store to lanes: the one
// with the fewest lane stores is the tail loop, the one with the most the unrolled body.
// laneLoops returns the unrolled loop body and the tail loop body of t (nil, nil if there is no
// such pair).
func laneLoops(t *asmText) (ub, lb []asmInstr) {
	for _, b := range asmLoops(t) {
		n := countLaneStores(b)
		if n == 0 {
			continue
		}
		if lb == nil || n < countLaneStores(lb) {
			lb = b
		}
		if ub == nil || n > countLaneStores(ub) {
			ub = b
		}
	}
	if ub == nil || lb == nil || countLaneStores(ub) == countLaneStores(lb) {
		return nil, nil
	}
	return ub, lb
}

func laneCongruent(t *asmText) (int, string) {
	var ubRaw, lbRaw []asmInstr
	for _, b := range asmLoops(t) {
		n := countLaneStores(b)
		if n == 0 {
			continue
		}
		if lbRaw == nil || n < countLaneStores(lbRaw) {
			lbRaw = b
		}
		if ubRaw == nil || n > countLaneStores(ubRaw) {
			ubRaw = b
		}
	}
	if ubRaw == nil || lbRaw == nil || countLaneStores(ubRaw) == countLaneStores(lbRaw) {
		return 0, fmt.Sprintf("%s: no pair of an unrolled loop and a tail loop found (loops that store through an indexed address)", t.name)
	}
	if countLaneStores(ubRaw)%countLaneStores(lbRaw) != 0 {
		return 0, fmt.Sprintf("%s: the unrolled loop has %d lane stores, the tail loop %d: not a whole number of lanes", t.name, countLaneStores(ubRaw), countLaneStores(lbRaw))
	}
	K := countLaneStores(ubRaw) / countLaneStores(lbRaw)
	// index step of the unrolled loop
	for _, in := range ubRaw {
		if (in.op == "ADDQ" || in.op == "SUBQ") && len(in.args) == 2 && (in.args[1] == "SI" || in.args[1] == "DI") && strings.HasPrefix(in.args[0], "$") {
			if v, err := strconv.Atoi(in.args[0][1:]); err != nil || v != K {
				return K, fmt.Sprintf("%s:%d: the unrolled loop handles %d words per iteration but steps %s by %s", t.name, in.line, K, in.args[1], in.args[0])
			}
		}
	}
	ub, lb := laneStrip(ubRaw), laneStrip(lbRaw)
	tailReg := ""
	for _, in := range lb {
		if isLaneLoad(in) {
			tailReg = in.args[1]
			break
		}
	}
	laneReg := map[int]string{}
	for _, in := range ub {
		if isLaneLoad(in) {
			mm := reLaneMem.FindStringSubmatch(in.args[0])
			off := 0
			if mm[1] != "" {
				off, _ = strconv.Atoi(mm[1])
			}
			laneReg[off/8] = in.args[1]
		}
	}
	var expAlu, expLd, expSt []string
	for k := 0; k < K; k++ {
		reg := tailReg
		if r, ok := laneReg[k]; ok {
			reg = r
		}
		for _, in := range lb {
			args := make([]string, len(in.args))
			for i, a := range in.args {
				if mm := reLaneMem.FindStringSubmatch(a); mm != nil {
					off := 0
					if mm[1] != "" {
						off, _ = strconv.Atoi(mm[1])
					}
					args[i] = fmt.Sprintf("%d(%s)(%s*8)", off+8*k, mm[2], mm[3])
				} else if a == tailReg && tailReg != "" {
					args[i] = reg
				} else {
					args[i] = a
				}
			}
			str := instrStr(in.op, args)
			switch {
			case isLaneLoad(in):
				expLd = append(expLd, str)
			case isLaneStore(in):
				expSt = append(expSt, str)
			default:
				expAlu = append(expAlu, str)
			}
		}
	}
	var actAlu, actLd, actSt []string
	var lines []int
	for _, in := range ub {
		args := make([]string, len(in.args))
		for i, a := range in.args {
			args[i] = normMem(a)
		}
		str := instrStr(in.op, args)
		switch {
		case isLaneLoad(in):
			actLd = append(actLd, str)
		case isLaneStore(in):
			actSt = append(actSt, str)
		default:
			actAlu = append(actAlu, str)
			lines = append(lines, in.line)
		}
	}
	cmp := func(kind string, act, exp []string) string {
		if len(act) != len(exp) {
			return fmt.Sprintf("%s: unrolled body has %d %s instructions, %d tail iterations have %d", t.name, len(act), kind, K, len(exp))
		}
		for i := range act {
			if act[i] != exp[i] {
				return fmt.Sprintf("%s: %s instruction %d of the unrolled body is %q, the tail loop (lane %d) has %q", t.name, kind, i+1, act[i], i*K/len(act), exp[i])
			}
		}
		return ""
	}
	if w := cmp("arithmetic", actAlu, expAlu); w != "" {
		return K, w
	}
	if w := cmp("load", actLd, expLd); w != "" {
		return K, w
	}
	return K, cmp("store", actSt, expSt)
}

// divRegion returns the straight-line instruction sequence of the division by the word base:
// from the SARQ $63 that precedes the load of the reciprocal immediate up to (not including) the
// first instruction that stores to memory or a result slot, a label, a jump or RET — or exactly n
// instructions when n > 0. It also returns the register copies (MOVQ Ra, Rb) made in the four
// instructions before the sequence.
func divRegion(t *asmText, n int) ([]asmInstr, map[string]string) {
	var ins []asmInstr
	for _, in := range t.instrs {
		ins = append(ins, in)
	}
	imm := -1
	for i, in := range ins {
		if in.label == "" && in.op == "MOVQ" && len(in.args) == 2 && strings.HasPrefix(in.args[0], "$0x") && len(in.args[0]) > 12 {
			imm = i
			break
		}
	}
	if imm < 0 {
		return nil, nil
	}
	start := -1
	for i := imm; i >= 0 && i >= imm-6; i-- {
		if ins[i].label == "" && ins[i].op == "SARQ" && len(ins[i].args) == 2 && ins[i].args[0] == "$63" {
			start = i
			break
		}
	}
	if start < 0 {
		return nil, nil
	}
	alias := map[string]string{}
	for i := start - 1; i >= 0 && i >= start-4; i-- {
		in := ins[i]
		if in.label != "" {
			break
		}
		if in.op == "MOVQ" && len(in.args) == 2 && asmRegs[in.args[0]] && asmRegs[in.args[1]] {
			alias[in.args[1]] = in.args[0]
		}
	}
	var out []asmInstr
	for i := start; i < len(ins); i++ {
		in := ins[i]
		if n > 0 && len(out) == n {
			break
		}
		if in.label != "" || in.op == "RET" || strings.HasPrefix(in.op, "J") {
			break
		}
		if n == 0 && in.op == "MOVQ" && len(in.args) == 2 && !asmRegs[in.args[1]] {
			break
		}
		out = append(out, in)
	}
	return out, alias
}

// alphaEqual compares two instruction sequences modulo a bijective renaming of registers.
// alias: registers of b that hold the same value as another register of b on entry.
func alphaEqual(a, b []asmInstr, alias map[string]string) string {
	fwd := map[string]string{"AX": "AX", "DX": "DX"}
	rev := map[string]string{"AX": "AX", "DX": "DX"}
	al := map[string]string{}
	for k, v := range alias {
		al[k] = v
	}
	same := func(x, y string) bool { // y (in b) may stand for x's image
		if x == y {
			return true
		}
		return al[x] == y || al[y] == x
	}
	for i := range a {
		ia, ib := a[i], b[i]
		if ia.op != ib.op || len(ia.args) != len(ib.args) {
			return fmt.Sprintf("instruction %d differs: %q in ·div10W vs %q", i+1, instrStr(ia.op, ia.args), instrStr(ib.op, ib.args))
		}
		for k := range ia.args {
			x, y := ia.args[k], ib.args[k]
			if !asmRegs[x] || !asmRegs[y] {
				if x != y {
					return fmt.Sprintf("instruction %d differs: %q in ·div10W vs %q", i+1, instrStr(ia.op, ia.args), instrStr(ib.op, ib.args))
				}
				continue
			}
			if m, ok := fwd[x]; ok {
				if !same(m, y) {
					return fmt.Sprintf("instruction %d: register %s of ·div10W corresponds to %s, but %q uses %s", i+1, x, m, instrStr(ib.op, ib.args), y)
				}
				continue
			}
			if r, ok := rev[y]; ok && r != x {
				// y already stands for another register: acceptable only through an alias
				okAlias := false
				for k2, v2 := range al {
					if (k2 == y || v2 == y) && rev[k2] == "" {
						fwd[x], rev[k2] = k2, x
						okAlias = true
						break
					}
				}
				if !okAlias {
					return fmt.Sprintf("instruction %d: %s stands for both %s and %s of ·div10W", i+1, y, r, x)
				}
				continue
			}
			fwd[x], rev[y] = y, x
		}
		// writes end aliases
		for _, w := range asmEffect(ib).writes {
			for k2, v2 := range al {
				if k2 == w || v2 == w {
					delete(al, k2)
				}
			}
		}
	}
	return ""
}

func runAsmPure(m *model.Model, s *ob.Set) {
	const R = "ASM-PURE"
	names := []string{"mul10WW", "div10WW", "add10VV", "sub10VV", "add10VW", "sub10VW", "shl10VU", "shr10VU", "mulAdd10VWW", "addMul10VVW", "div10VWW", "div10W"}
	for _, n := range names {
		fn := m.TryLookup(n)
		c := "wrapper/" + n
		if fn == nil {
			s.Bad(R, c, "-", "kernel "+n+" is not defined in configuration "+m.Cfg.Name)
			continue
		}
		if len(fn.Blocks) == 0 {
			s.Bad(R, c, m.Pos(fn.Pos()), "kernel "+n+" has no Go body in configuration "+m.Cfg.Name)
			continue
		}
		why := ""
		var call *ssa.Call
		ncalls := 0
		for _, b := range fn.Blocks {
			for _, in := range b.Instrs {
				if cl, ok := in.(*ssa.Call); ok {
					ncalls++
					call = cl
				}
			}
		}
		// a wrapper that no longer forwards to a twin at all (the kernel's body written out in its
		// place) has nothing to agree with: the rules on the portable kernels look at it directly
		forwards := false
		for _, b := range fn.Blocks {
			for _, in := range b.Instrs {
				if cl, ok := in.(*ssa.Call); ok {
					if c2 := model.Unthunk(cl.Call.StaticCallee()); c2 != nil && c2.Name() == n+"_g" {
						forwards = true
					}
				}
			}
		}
		// (one call that hands on the parameters as they are is a forwarding — to the wrong routine
		// if it is not the twin — and is judged below)
		plainForward := false
		if ncalls == 1 && call != nil && len(call.Call.Args) == len(fn.Params) {
			plainForward = true
			for i, a := range call.Call.Args {
				if a != ssa.Value(fn.Params[i]) {
					plainForward = false
				}
			}
		}
		if !forwards && !plainForward {
			s.Note(R, c, m.Pos(fn.Pos()), "the routine does not forward to a _g twin (its body is written out here): no forwarding to check")
			continue
		}
		switch {
		case ncalls != 1 || model.Unthunk(call.Call.StaticCallee()) == nil:
			why = "the wrapper must consist of exactly one static call"
		case model.Unthunk(call.Call.StaticCallee()).Name() != n+"_g":
			why = "the wrapper calls " + model.Unthunk(call.Call.StaticCallee()).Name() + ", not " + n + "_g"
		case !types.Identical(model.Unthunk(call.Call.StaticCallee()).Signature, fn.Signature):
			why = "signature of " + n + "_g differs from the wrapper's"
		default:
			for i, a := range call.Call.Args {
				if i >= len(fn.Params) || a != ssa.Value(fn.Params[i]) {
					why = fmt.Sprintf("argument %d of %s_g is not the wrapper's parameter %d (arguments permuted?)", i, n, i)
					break
				}
			}
			// results in order
			for _, b := range fn.Blocks {
				if ret, ok := b.Instrs[len(b.Instrs)-1].(*ssa.Return); ok && why == "" {
					for i, r := range ret.Results {
						if len(ret.Results) == 1 {
							if r != ssa.Value(call) {
								why = "the wrapper does not return the result of the call"
							}
						} else if ex, ok := r.(*ssa.Extract); !ok || ex.Tuple != ssa.Value(call) || ex.Index != i {
							why = fmt.Sprintf("result %d is not result %d of %s_g (results permuted?)", i, i, n)
						}
					}
				}
			}
		}
		s.Check(why == "", R, c, m.Pos(fn.Pos()), "forwards to "+n+"_g", why)
	}
}

func fileConstraint(m *model.Model, path string) (constraint.Expr, string) {
	lines := strings.Split(readRepoFile(m, path), "\n")
	var exprs []constraint.Expr
	for _, ln := range lines {
		t := strings.TrimSpace(ln)
		if t == "" || (strings.HasPrefix(t, "//") && !constraint.IsGoBuild(t) && !constraint.IsPlusBuild(t)) {
			continue
		}
		if constraint.IsGoBuild(t) || constraint.IsPlusBuild(t) {
			e, err := constraint.Parse(t)
			if err == nil {
				exprs = append(exprs, e)
			}
			continue
		}
		break // first non-comment line
	}
	if len(exprs) == 0 {
		return nil, ""
	}
	e := exprs[0]
	for _, x := range exprs[1:] {
		e = &constraint.AndExpr{X: e, Y: x}
	}
	return e, e.String()
}

func runBuildTags(m *model.Model, s *ob.Set) {
	const R = "BUILDTAGS"
	dir := m.Cfg.RepoDir
	ents, err := os.ReadDir(dir)
	if err != nil {
		model.Fatal("cannot list %s: %v", dir, err)
	}
	cons := map[string]constraint.Expr{}
	tags := map[string]bool{}
	var collect func(e constraint.Expr)
	collect = func(e constraint.Expr) {
		switch x := e.(type) {
		case *constraint.TagExpr:
			tags[x.Tag] = true
		case *constraint.NotExpr:
			collect(x.X)
		case *constraint.AndExpr:
			collect(x.X)
			collect(x.Y)
		case *constraint.OrExpr:
			collect(x.X)
			collect(x.Y)
		}
	}
	for _, e := range ents {
		n := e.Name()
		if e.IsDir() || strings.HasSuffix(n, "_test.go") || !(strings.HasSuffix(n, ".go") || strings.HasSuffix(n, ".s")) {
			continue
		}
		c, _ := fileConstraint(m, filepath.Join(dir, n))
		if c != nil {
			cons[n] = c
			collect(c)
		}
	}
	var tl []string
	for t := range tags {
		tl = append(tl, t)
	}
	sort.Strings(tl)
	eval := func(e constraint.Expr, asg map[string]bool) bool {
		return e.Eval(func(tag string) bool { return asg[tag] })
	}
	// all assignments over the occurring tags (bounded: at most 2^12)
	if len(tl) > 12 {
		model.Fatal("BUILDTAGS: %d distinct tags", len(tl))
	}
	complementary := func(a, b string) string {
		ca, cb := cons[a], cons[b]
		if ca == nil || cb == nil {
			return fmt.Sprintf("%s or %s carries no build constraint", a, b)
		}
		for mask := 0; mask < 1<<uint(len(tl)); mask++ {
			asg := map[string]bool{}
			for i, t := range tl {
				asg[t] = mask&(1<<uint(i)) != 0
			}
			if eval(ca, asg) == eval(cb, asg) {
				return fmt.Sprintf("under %v both or neither of %s and %s are compiled", asg, a, b)
			}
		}
		return ""
	}
	same := func(a, b string, ignoreArch bool) string {
		ca, cb := cons[a], cons[b]
		if ca == nil || cb == nil {
			return fmt.Sprintf("%s or %s carries no build constraint", a, b)
		}
		for mask := 0; mask < 1<<uint(len(tl)); mask++ {
			asg := map[string]bool{}
			for i, t := range tl {
				asg[t] = mask&(1<<uint(i)) != 0
			}
			if ignoreArch {
				asg["amd64"] = true // the file name suffix _amd64 already restricts the .s file
			}
			if eval(ca, asg) != eval(cb, asg) {
				return fmt.Sprintf("under %v exactly one of %s and %s is compiled", asg, a, b)
			}
		}
		return ""
	}
	w := complementary("dec_arith_decl.go", "dec_arith_decl_pure.go")
	s.Check(w == "", R, "dec_arith_decl.go|dec_arith_decl_pure.go", "dec_arith_decl.go", "exact complements over tags "+strings.Join(tl, ","), w)
	w = same("dec_arith_decl.go", "dec_arith_amd64.s", true)
	s.Check(w == "", R, "dec_arith_decl.go=dec_arith_amd64.s", "dec_arith_amd64.s", "assembly compiled exactly when the body-less declarations are (on amd64)", w)
	w = complementary("arith_decl.go", "arith_decl_pure.go")
	s.Check(w == "", R, "arith_decl.go|arith_decl_pure.go", "arith_decl.go", "exact complements", w)
	// no other non-test .go file is build-conditional
	allowed := map[string]bool{"arith_decl.go": true, "arith_decl_pure.go": true, "arith_amd64.go": true, "arith_decl_s390x.go": true, "dec_arith_decl.go": true, "dec_arith_decl_pure.go": true}
	var extra []string
	for n := range cons {
		if strings.HasSuffix(n, ".go") && !allowed[n] {
			extra = append(extra, n)
		}
	}
	sort.Strings(extra)
	s.Check(len(extra) == 0, R, "conditional-files", "-", "only the kernel declaration files are build-conditional", "additional build-conditional source files: "+strings.Join(extra, ", ")+" (the three configurations would differ in more than their kernels)")
	// no run-time architecture dispatch
	var imp []string
	for _, fl := range m.Dec.Syntax {
		if strings.HasSuffix(m.Fset.Position(fl.Pos()).Filename, "_test.go") {
			continue
		}
		for _, is := range fl.Imports {
			p := strings.Trim(is.Path.Value, `"`)
			if p == "runtime" || strings.HasSuffix(p, "/cpu") {
				imp = append(imp, filepath.Base(m.Fset.Position(fl.Pos()).Filename)+" imports "+p)
			}
		}
	}
	s.Check(len(imp) == 0, R, "no-runtime-dispatch", "-", "package decimal imports neither runtime nor a cpu-feature package", strings.Join(imp, "; "))
	_ = ast.NewIdent
}

// helperDst: the base register of the memory stores of a JMP-entered helper ("" if none or not unique).
func helperDst(t *asmText) string {
	dst := ""
	for _, in := range t.instrs {
		if in.label != "" || len(in.args) != 2 || in.op != "MOVQ" {
			continue
		}
		if mm := reMem.FindStringSubmatch(in.args[1]); mm != nil {
			if dst != "" && dst != mm[2] {
				return ""
			}
			dst = mm[2]
		}
	}
	return dst
}

// inlineBody: the instruction sequence of t in which an inlined division is looked for (the loop
// body containing MULQ, else all of t), and the constants its registers hold on entry: registers
// loaded with an immediate in the straight-line prefix of t and never written inside the body.
func inlineBody(t *asmText, defines map[string]string) ([]asmInstr, *symState) {
	var body []asmInstr
	for _, b := range asmLoops(t) {
		has := false
		for _, in := range b {
			if in.op == "MULQ" {
				has = true
			}
		}
		if has && (body == nil || len(b) < len(body)) {
			body = b
		}
	}
	entry := newSymState(defines)
	if body == nil {
		for _, in := range t.instrs {
			if in.label == "" {
				body = append(body, in)
			}
		}
		return body, entry
	}
	written := map[string]bool{}
	for _, in := range body {
		for _, w := range asmEffect(in).writes {
			written[w] = true
		}
	}
	for _, in := range t.instrs {
		if in.label != "" || strings.HasPrefix(in.op, "J") {
			break
		}
		if in.op == "MOVQ" && len(in.args) == 2 && strings.HasPrefix(in.args[0], "$") && asmRegs[in.args[1]] && !written[in.args[1]] {
			if v, ok := entry.imm(in.args[0]); ok {
				entry.reg[in.args[1]] = v
			}
		}
	}
	return body, entry
}
