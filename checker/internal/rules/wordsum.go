package rules

// WORDSUM — plain `+` on a word of a vector, in the portable kernels.
//
// Two decimal words can sum to 2·10^19 − 2, which does not fit 64 bits (and 2·10^9 − 2 does fit 32
// bits only just: the rule does not rely on it). In the Go kernels a word loaded from a vector may
// therefore be added with the plain operator only to something that is known small by where it
// comes from: a constant, or a carry/borrow of 0 or 1 (the second result of add10WWW/sub10WWW or of
// bits.Add/bits.Sub, or a variable that only ever holds such values). Anything wider — the running
// carry of a multiplication, a word parameter — has to go through a carry-aware primitive
// (bits.Add, add10WWW_g, mulAddWWW_g).

import (
	"fmt"
	"go/constant"
	"go/token"
	"strings"

	"golang.org/x/tools/go/ssa"

	"decverif/internal/model"
	"decverif/internal/ob"
)

func init() {
	Register(&Rule{Name: "WORDSUM", Floor: 1, Run: runWordSum,
		Doc: "in the portable kernels a word loaded from a vector is added with plain + only to a constant or to a 0/1 carry (second result of an add/sub-with-carry primitive); a wider addend needs a carry-aware primitive, since two decimal words can sum past the machine word"})
}

func smallCarry(m *model.Model, v ssa.Value, depth int, seen map[ssa.Value]bool) bool {
	v = stripConv(v)
	if seen[v] {
		return true // co-inductive: a φ cycle of small values is small
	}
	if depth == 0 {
		return false
	}
	seen[v] = true
	switch x := v.(type) {
	case *ssa.Const:
		k, ok := model.ConstInt(x)
		return ok && k >= 0 && k <= 1
	case *ssa.Phi:
		for _, e := range x.Edges {
			if !smallCarry(m, e, depth-1, seen) {
				return false
			}
		}
		return true
	case *ssa.Extract:
		call, ok := x.Tuple.(*ssa.Call)
		if !ok {
			return false
		}
		if cal := model.Unthunk(call.Call.StaticCallee()); cal != nil {
			n := cal.Name()
			if cal.Pkg != nil && cal.Pkg.Pkg.Path() == "math/bits" && (strings.HasPrefix(n, "Add") || strings.HasPrefix(n, "Sub")) {
				return x.Index == 1
			}
			if m.InDecimalPkg(cal) && (strings.HasPrefix(n, "add10WWW") || strings.HasPrefix(n, "sub10WWW")) {
				return x.Index == 1
			}
		}
		return false
	case *ssa.BinOp:
		// masks and comparisons materialised as 0/1
		if x.Op == token.AND {
			if k, ok := model.ConstInt(x.Y); ok && k == 1 {
				return true
			}
		}
	}
	return false
}

// runCarryThreshold: "word + carry still fits" is "the sum is below the base". A comparison of such
// a sum (a word of a vector plus something) with a constant next to the base must say exactly
// that or its negation: < base, >= base, <= base-1, > base-1. `sum < base-1` sends the sum
// base-1 — a valid word — down the carry path: the word is cleared and the carry moves on.
func runCarryThreshold(m *model.Model, s *ob.Set) {
	const R = "WORDSUM"
	base := m.PkgConst("_DB")
	for _, fn := range m.Funcs {
		if !m.InDecimalPkg(fn) || len(fn.Blocks) == 0 || !inKernelLayer(m, fn) || fn.Synthetic != "" {
			continue
		}
		live := m.Live(fn)
		n, bad := 0, ""
		for _, b := range fn.Blocks {
			if !live[b.Index] {
				continue
			}
			for _, in := range b.Instrs {
				bo, ok := in.(*ssa.BinOp)
				if !ok {
					continue
				}
				op := bo.Op
				x, y := bo.X, bo.Y
				if _, isC := x.(*ssa.Const); isC {
					mo, okm := mirrorOpTok[op]
					if !okm {
						continue
					}
					x, y, op = y, x, mo
				}
				kc, ok := y.(*ssa.Const)
				if !ok || kc.Value == nil || kc.Value.Kind() != constant.Int {
					continue
				}
				dv, exact := constant.Int64Val(constant.BinaryOp(kc.Value, token.SUB, base))
				if !exact || dv < -1 || dv > 1 {
					continue
				}
				sum, ok := stripConv(x).(*ssa.BinOp)
				if !ok || sum.Op != token.ADD {
					continue
				}
				isWordLoad := func(v ssa.Value) bool {
					u, ok := stripConv(v).(*ssa.UnOp)
					if !ok || u.Op != token.MUL {
						return false
					}
					ia, ok := u.X.(*ssa.IndexAddr)
					return ok && m.IsWordSlice(ia.X.Type())
				}
				if !isWordLoad(sum.X) && !isWordLoad(sum.Y) {
					continue
				}
				n++
				good := false
				switch {
				case (op == token.LSS || op == token.GEQ) && dv == 0:
					good = true
				case (op == token.LEQ || op == token.GTR) && dv == -1:
					good = true
				case op == token.EQL || op == token.NEQ:
					good = true
				}
				if !good {
					bad = fmt.Sprintf("%s: a sum of a vector word and a carry is compared %s %s; it fits a decimal word exactly when it is below the base %s, and this test puts the boundary one off", m.InstrPos(bo), op, kc.Value.ExactString(), base.ExactString())
				}
			}
		}
		if n > 0 {
			s.Check(bad == "", R, fn.Name()+"/carry-threshold", m.Pos(fn.Pos()), fmt.Sprintf("%d comparison(s) of a word sum with the base, all at the base", n), bad)
		}
	}
}

func runWordSum(m *model.Model, s *ob.Set) {
	const R = "WORDSUM"
	runCarryThreshold(m, s)
	for _, fn := range m.Funcs {
		if !m.InDecimalPkg(fn) || len(fn.Blocks) == 0 || !inKernelLayer(m, fn) {
			continue
		}
		// vector kernels only: a word-slice parameter
		vec := false
		for _, p := range fn.Params {
			if m.IsWordSlice(p.Type()) {
				vec = true
			}
		}
		if !vec {
			continue
		}
		// decimal kernels only: the binary kernels of arith.go work modulo 2^W on purpose
		// (carry formulas on wrapped sums); a decimal kernel is one that mentions the word base,
		// itself or through the primitives it calls
		if !usesWordBase(m, fn, 2) {
			continue
		}
		live := m.Live(fn)
		n := 0
		var bad []string
		for _, b := range fn.Blocks {
			if !live[b.Index] {
				continue
			}
			for _, in := range b.Instrs {
				bo, ok := in.(*ssa.BinOp)
				if !ok || bo.Op != token.ADD || !m.IsWord(bo.Type()) {
					continue
				}
				isElem := func(v ssa.Value) bool {
					u, ok := stripConv(v).(*ssa.UnOp)
					if !ok || u.Op != token.MUL {
						return false
					}
					ia, ok := u.X.(*ssa.IndexAddr)
					return ok && m.IsWordSlice(ia.X.Type())
				}
				var other ssa.Value
				switch {
				case isElem(bo.X):
					other = bo.Y
				case isElem(bo.Y):
					other = bo.X
				default:
					continue
				}
				n++
				if _, isC := other.(*ssa.Const); isC {
					continue
				}
				if !smallCarry(m, other, 6, map[ssa.Value]bool{}) {
					bad = append(bad, fmt.Sprintf("%s: a word of a vector is added with plain + to %s, which is not a constant or a 0/1 carry: the sum of two decimal words can pass the machine word", m.InstrPos(in), exprKey(m, other, 3)))
				}
			}
		}
		if n == 0 {
			continue
		}
		if len(bad) == 0 {
			s.Ok(R, fn.Name(), m.Pos(fn.Pos()), fmt.Sprintf("%d plain sum(s) with a vector word, each with a constant or a 0/1 carry", n))
		} else {
			s.Bad(R, fn.Name(), m.Pos(fn.Pos()), bad[0], bad[1:]...)
		}
	}
}

func usesWordBase(m *model.Model, fn *ssa.Function, depth int) bool {
	base := m.PkgConst("_DB")
	if base == nil {
		return false
	}
	for _, b := range fn.Blocks {
		for _, in := range b.Instrs {
			var ops []*ssa.Value
			for _, o := range in.Operands(ops) {
				if c, ok := (*o).(*ssa.Const); ok && c.Value != nil && c.Value.Kind() == constant.Int && constant.Compare(c.Value, token.EQL, base) {
					return true
				}
			}
			if depth > 0 {
				if ci, ok := in.(ssa.CallInstruction); ok {
					if cal := model.Unthunk(ci.Common().StaticCallee()); cal != nil && m.InDecimalPkg(cal) && len(cal.Blocks) > 0 && cal != fn && usesWordBase(m, cal, depth-1) {
						return true
					}
				}
			}
		}
	}
	return false
}
