package rules

// STALE — the exponent and the mantissa of a Decimal mean something only while its form is
// finite: operations that produce ±0 or ±Inf leave whatever exponent and mantissa the object held
// before. A read of x.exp or x.mant whose result can influence anything but a verbatim copy must
// therefore sit behind a test of x.form.

import (
	"fmt"
	"go/constant"
	"go/token"
	"go/types"
	"sort"
	"strings"
	"sync"

	"golang.org/x/tools/go/ssa"

	"decverif/internal/model"
	"decverif/internal/ob"
)

func init() {
	Register(&Rule{Name: "STALE", Floor: 5, Run: runStale,
		Doc: "an exported operation reads the exponent or the mantissa of an operand only on paths where the operand's form is known to be finite (or merely copies the field into the same field of another Decimal): for a zero or an infinity these fields hold leftovers of earlier values, and a result that depends on them depends on the operand's history"})
}

var staleTabled = map[string]string{
	"(*Decimal).BitsExp": "documented raw access: hands out x.mant[:0] and the exponent field as they are for a non-finite x",
}

// call sites whose receiver is finite for a reason this rule cannot see
var staleCallerTabled = map[string]string{
	"(*Decimal).Cmp": "Cmp dispatches on ord(): T-CMP decides that the magnitude comparison is reached for two finite operands of equal sign only",
}

// staleAtCallers decides an unexported reader at its call sites: each passes a receiver whose form
// is known finite there, or uses the result for nothing but the capacity of a buffer.
func staleAtCallers(m *model.Model, fn *ssa.Function) (ok bool, why string, nsites int) {
	return staleAtCallersOf(m, fn, 0, 3)
}

// staleAtCallersOf: parameter k of fn is finite at every call site; a caller that merely passes
// one of its own parameters on (usubOrdered(x, y) -> x.ucmp(y)) is decided at its callers in turn.
func staleAtCallersOf(m *model.Model, fn *ssa.Function, k int, depth int) (ok bool, why string, nsites int) {
	var reasons []string
	for _, c := range m.Funcs {
		var fin map[int]map[ssa.Instruction]bool
		for _, b := range c.Blocks {
			for _, ins := range b.Instrs {
				call, isCall := ins.(*ssa.Call)
				if !isCall || model.Unthunk(call.Call.StaticCallee()) != fn || len(call.Call.Args) <= k {
					continue
				}
				nsites++
				if staleOnlyCapacity(call, 4) {
					reasons = append(reasons, "capacity hint only")
					continue
				}
				if t, ok := staleCallerTabled[m.FuncName(c)]; ok {
					reasons = append(reasons, t)
					continue
				}
				decided := false
				ref := m.RefOf(call.Call.Args[k])
				passed := -1
				for j := range c.Params {
					if !ref.OnlyParam(j) {
						continue
					}
					if fin == nil {
						fin = map[int]map[ssa.Instruction]bool{}
					}
					if fin[j] == nil {
						fin[j] = staleFiniteBefore(m, c, j)
					}
					if fin[j][ins] {
						decided = true
					}
					passed = j
				}
				if !decided && passed >= 0 && depth > 0 && !m.IsExported(c) {
					if ok2, why2, n2 := staleAtCallersOf(m, c, passed, depth-1); ok2 && n2 > 0 {
						reasons = append(reasons, "through "+m.FuncName(c)+": "+why2)
						continue
					}
				}
				if !decided {
					return false, m.InstrPos(ins) + ": called from " + m.FuncName(c) + " with a receiver not known to be finite", nsites
				}
				reasons = append(reasons, "receiver finite at the call in "+m.FuncName(c))
			}
		}
	}
	if nsites == 0 {
		return false, "no call site found", 0
	}
	sort.Strings(reasons)
	var u []string
	for i, r := range reasons {
		if i == 0 || r != reasons[i-1] {
			u = append(u, r)
		}
	}
	return true, strings.Join(u, "; "), nsites
}

// staleOnlyCapacity: the value is used, through integer arithmetic, for nothing but the length or
// capacity of a make.
func staleOnlyCapacity(v ssa.Value, depth int) bool {
	refs := v.Referrers()
	if refs == nil || len(*refs) == 0 {
		return false
	}
	for _, u := range *refs {
		switch x := u.(type) {
		case *ssa.DebugRef:
		case *ssa.MakeSlice:
		case *ssa.BinOp:
			if depth == 0 || !staleOnlyCapacity(x, depth-1) {
				return false
			}
		case *ssa.Convert:
			if depth == 0 || !staleOnlyCapacity(x, depth-1) {
				return false
			}
		case *ssa.Call:
			if n := model.BuiltinName(&x.Call); (n != "max" && n != "min") || depth == 0 || !staleOnlyCapacity(x, depth-1) {
				return false
			}
		default:
			return false
		}
	}
	return true
}

func runStale(m *model.Model, s *ob.Set) {
	const R = "STALE"
	for _, fn := range m.Funcs {
		// the readers: methods whose receiver is the operand x (formatting, conversion,
		// comparison, predicates); the receiver z of a setter is a result, and its old mantissa is
		// legitimately read as a buffer to reuse
		if !m.InDecimalPkg(fn) || fn.Parent() != nil || !m.IsDecMethod(fn) || len(fn.Params) == 0 || len(fn.Blocks) == 0 {
			continue
		}
		if len(m.StoreSets(fn, 0)) != 0 {
			continue // writes its receiver: a setter, not a reader
		}
		type site struct {
			pos string
			k   int
			f   int
		}
		var bad []site
		n := 0
		// the objects read: the receiver, and every local variable that may hold it (Append's
		// `x = new(Decimal)...Set(x)` makes the later x a φ of the receiver and the rounded copy)
		var bases []ssa.Value
		seenBase := map[ssa.Value]bool{}
		for _, b := range fn.Blocks {
			for _, ins := range b.Instrs {
				v, ok := ins.(ssa.Value)
				if !ok {
					continue
				}
				if lf, ok := m.LoadOfDecField(v); ok && (lf.Field == m.F.Exp || lf.Field == m.F.Mant) && m.RefOf(lf.X).MayBeParam(0) && !seenBase[lf.X] {
					seenBase[lf.X] = true
					bases = append(bases, lf.X)
				}
			}
		}
		for _, base := range bases {
			base := base
			only := m.RefOf(base).OnlyParam(0)
			fin := staleFiniteBeforeOf(m, fn,
				func(v ssa.Value) bool { return v == base || (only && m.RefOf(v).OnlyParam(0)) },
				func(v ssa.Value) bool { return v == base || m.RefOf(v).MayBeParam(0) })
			for _, b := range fn.Blocks {
				for _, ins := range b.Instrs {
					known, reached := fin[ins]
					if !reached {
						continue
					}
					v, ok := ins.(ssa.Value)
					if !ok {
						continue
					}
					lf, ok := m.LoadOfDecField(v)
					if !ok || (lf.Field != m.F.Exp && lf.Field != m.F.Mant) || lf.X != base {
						continue
					}
					n++
					if known || staleHarmless(m, v, lf.Field) {
						continue
					}
					bad = append(bad, site{m.InstrPos(ins), 0, lf.Field})
				}
			}
		}
		if n == 0 {
			continue
		}
		name := m.FuncName(fn)
		if why, ok := staleTabled[name]; ok {
			s.Note(R, name, m.Pos(fn.Pos()), fmt.Sprintf("%d read(s), %d unguarded, tabled: %s", n, len(bad), why))
			continue
		}
		if len(bad) == 0 {
			s.Ok(R, name, m.Pos(fn.Pos()), fmt.Sprintf("%d read(s) of an exponent/mantissa, each behind a finiteness test or a plain copy", n))
			continue
		}
		if !m.IsExported(fn) {
			if ok, why, ns := staleAtCallers(m, fn); ok {
				s.Ok(R, name, m.Pos(fn.Pos()), fmt.Sprintf("%d read(s), %d not guarded inside the function; decided at its %d call site(s): %s", n, len(bad), ns, why))
				continue
			} else if ns > 0 {
				s.Bad(R, name, m.Pos(fn.Pos()), why, fmt.Sprintf("%s.%s is read at %s without a finiteness test", fn.Params[0].Name(), m.FieldN[bad[0].f], bad[0].pos))
				continue
			}
		}
		sort.Slice(bad, func(i, j int) bool { return bad[i].pos < bad[j].pos })
		var lines []string
		for _, b := range bad {
			lines = append(lines, fmt.Sprintf("%s: %s.%s is read on a path where %s may be a zero or an infinity", b.pos, fn.Params[b.k].Name(), m.FieldN[b.f], fn.Params[b.k].Name()))
		}
		s.Bad(R, name, m.Pos(fn.Pos()), lines[0], lines[1:]...)
	}
}

// staleFiniteBefore: for every reachable instruction of fn, whether the form of parameter k is
// known to be finite just before it (a forward must-analysis over tests of and stores to the form).
func staleFiniteBefore(m *model.Model, fn *ssa.Function, k int) map[ssa.Instruction]bool {
	return staleFiniteBeforeOf(m, fn, func(v ssa.Value) bool { return m.RefOf(v).OnlyParam(k) }, func(v ssa.Value) bool { return m.RefOf(v).MayBeParam(k) })
}

// isBase: the pointer is the object in question for sure; mayBase: it may be.
func staleFiniteBeforeOf(m *model.Model, fn *ssa.Function, isBase, mayBase func(ssa.Value) bool) map[ssa.Instruction]bool {
	finite, _ := constant.Int64Val(m.PkgConst("finite"))
	zero, _ := constant.Int64Val(m.PkgConst("zero"))
	inf, _ := constant.Int64Val(m.PkgConst("inf"))
	live := m.Live(fn)
	isFormOf := func(v ssa.Value) bool {
		lf, ok := m.LoadOfDecField(stripConv(v))
		return ok && lf.Field == m.F.Form && isBase(lf.X)
	}
	type st struct {
		reached bool
		fin     bool
		notZero bool
		notInf  bool
	}
	nb := len(fn.Blocks)
	in := make([]st, nb)
	in[0] = st{reached: true}
	join := func(a, b st) st {
		if !a.reached {
			return b
		}
		return st{true, a.fin && b.fin, a.notZero && b.notZero, a.notInf && b.notInf}
	}
	formStore := func(ins ssa.Instruction) (st, bool) {
		if sto, ok := ins.(*ssa.Store); ok {
			if fa, ok := m.DecField(sto.Addr); ok && fa.Field == m.F.Form && mayBase(fa.X) {
				c, isc := model.ConstInt(sto.Val)
				return st{reached: true, fin: isc && c == finite, notZero: isc && c != zero, notInf: isc && c != inf}, true
			}
		}
		return st{}, false
	}
	work := []int{0}
	for len(work) > 0 {
		bi := work[len(work)-1]
		work = work[:len(work)-1]
		b := fn.Blocks[bi]
		if !live[bi] {
			continue
		}
		out := in[bi]
		for _, ins := range b.Instrs {
			if o, ok := formStore(ins); ok {
				out = o
			}
		}
		for _, ed := range model.LiveSuccs(b) {
			o := out
			if ifi, ok := b.Instrs[len(b.Instrs)-1].(*ssa.If); ok {
				if bo, ok := ifi.Cond.(*ssa.BinOp); ok && isFormOf(bo.X) {
					if c, ok := model.ConstInt(bo.Y); ok {
						eq := bo.Op == token.EQL && ed.Si == 0 || bo.Op == token.NEQ && ed.Si == 1
						ne := bo.Op == token.EQL && ed.Si == 1 || bo.Op == token.NEQ && ed.Si == 0
						// ordered tests on the enumeration zero < finite < inf
						if bo.Op == token.LEQ || bo.Op == token.LSS || bo.Op == token.GTR || bo.Op == token.GEQ {
							holds := func(f int64) bool {
								switch bo.Op {
								case token.LEQ:
									return f <= c
								case token.LSS:
									return f < c
								case token.GTR:
									return f > c
								}
								return f >= c
							}
							for _, f := range []int64{zero, finite, inf} {
								h := holds(f)
								if ed.Si == 1 {
									h = !h
								}
								if !h {
									switch f {
									case zero:
										o.notZero = true
									case inf:
										o.notInf = true
									case finite:
										// finite excluded: nothing to record, reads stay unguarded
									}
								}
							}
						}
						switch {
						case eq && c == finite:
							o.fin, o.notZero, o.notInf = true, true, true
						case eq && c == zero:
							// known to be a zero: in particular not an infinity (`case zero, finite:`
							// followed by a test for zero leaves finite)
							o.fin, o.notZero, o.notInf = false, false, true
						case eq && c == inf:
							o.fin, o.notZero, o.notInf = false, true, false
						case eq:
							// known non-finite: reads are stale for sure; leave as is
						case ne && c == zero:
							o.notZero = true
						case ne && c == inf:
							o.notInf = true
						}
					}
				}
			}
			// a predicate helper of the package that is true only for finite operands
			// (bothFinite(x, y)): on its true edge the operands it vouches for are finite
			if ifi, ok := b.Instrs[len(b.Instrs)-1].(*ssa.If); ok && ed.Si == 0 {
				if call, ok := ifi.Cond.(*ssa.Call); ok {
					if h := model.Unthunk(call.Call.StaticCallee()); h != nil && m.InDecimalPkg(h) {
						for j := range predImpliesFinite(m, h) {
							if j < len(call.Call.Args) && isBase(call.Call.Args[j]) {
								o.fin, o.notZero, o.notInf = true, true, true
							}
						}
					}
				}
			}
			if o.notZero && o.notInf {
				o.fin = true
			}
			nv := join(in[ed.To.Index], o)
			if nv != in[ed.To.Index] {
				in[ed.To.Index] = nv
				work = append(work, ed.To.Index)
			}
		}
	}
	res := map[ssa.Instruction]bool{}
	for bi, b := range fn.Blocks {
		if !live[bi] || !in[bi].reached {
			continue
		}
		cur := in[bi]
		for _, ins := range b.Instrs {
			res[ins] = cur.fin
			if o, ok := formStore(ins); ok {
				cur = o
			}
		}
	}
	return res
}

// staleHarmless: every use of the loaded field value is a verbatim store into the same field of a
// Decimal (Copy/Set-style attribute copy), a length/nil test of the mantissa, or a debug reference.
func staleHarmless(m *model.Model, v ssa.Value, field int) bool {
	refs := v.Referrers()
	if refs == nil {
		return true
	}
	for _, u := range *refs {
		switch x := u.(type) {
		case *ssa.DebugRef:
		case *ssa.Store:
			fa, ok := m.DecField(x.Addr)
			if !ok || fa.Field != field || x.Val != v {
				return false
			}
		default:
			return false
		}
	}
	return true
}

// predImpliesFinite: h returns a bool and writes nothing; the set of its *Decimal parameters that
// are finite whenever it returns true. A return contributes the parameters whose form was found
// equal to finite on every way to it, plus the one the returned comparison itself tests
// (return y.form == finite); a return of the constant false contributes everything.
func predImpliesFinite(m *model.Model, h *ssa.Function) map[int]bool {
	key := "predImpliesFinite"
	type memoT = map[*ssa.Function]map[int]bool
	mv, _ := m.Memo.LoadOrStore(key, memoT{})
	memo := mv.(memoT)
	staleMu.Lock()
	if r, ok := memo[h]; ok {
		staleMu.Unlock()
		return r
	}
	staleMu.Unlock()
	res := map[int]bool{}
	done := func() map[int]bool {
		staleMu.Lock()
		memo[h] = res
		staleMu.Unlock()
		return res
	}
	if len(h.Blocks) == 0 || h.Signature.Results().Len() != 1 {
		return done()
	}
	if b, ok := h.Signature.Results().At(0).Type().Underlying().(*types.Basic); !ok || b.Kind() != types.Bool {
		return done()
	}
	finite, _ := constant.Int64Val(m.PkgConst("finite"))
	// no stores, no calls other than pure field reads
	for _, b := range h.Blocks {
		for _, in := range b.Instrs {
			switch in.(type) {
			case *ssa.Store, ssa.CallInstruction:
				return done()
			}
		}
	}
	paramOf := func(v ssa.Value) int {
		for j, p := range h.Params {
			if v == ssa.Value(p) {
				return j
			}
		}
		return -1
	}
	// tests `p.form == finite` in h: (block, edge on which it holds, param)
	type tst struct {
		b  *ssa.BasicBlock
		si int
		j  int
	}
	var tests []tst
	cmpParam := func(v ssa.Value) (int, token.Token, bool) {
		bo, ok := v.(*ssa.BinOp)
		if !ok || (bo.Op != token.EQL && bo.Op != token.NEQ) {
			return 0, 0, false
		}
		lf, ok := m.LoadOfDecField(stripConv(bo.X))
		if !ok || lf.Field != m.F.Form {
			return 0, 0, false
		}
		c, ok := model.ConstInt(bo.Y)
		j := paramOf(lf.X)
		if !ok || c != finite || j < 0 {
			return 0, 0, false
		}
		return j, bo.Op, true
	}
	for _, b := range h.Blocks {
		if len(b.Instrs) == 0 {
			continue
		}
		if ifi, ok := b.Instrs[len(b.Instrs)-1].(*ssa.If); ok {
			if j, op, ok := cmpParam(ifi.Cond); ok {
				si := 0
				if op == token.NEQ {
					si = 1
				}
				tests = append(tests, tst{b, si, j})
			}
		}
	}
	all := map[int]bool{}
	for j, p := range h.Params {
		if m.IsDecPtr(p.Type()) {
			all[j] = true
		}
	}
	var sets []map[int]bool
	var valueSet func(v ssa.Value, at *ssa.BasicBlock, d int) map[int]bool
	valueSet = func(v ssa.Value, at *ssa.BasicBlock, d int) map[int]bool {
		out := map[int]bool{}
		if c, ok := v.(*ssa.Const); ok && c.Value != nil && c.Value.Kind() == constant.Bool && !constant.BoolVal(c.Value) {
			for j := range all {
				out[j] = true
			}
			return out
		}
		for _, t := range tests {
			if (t.b.Succs[t.si] == at && len(at.Preds) == 1) || m.EdgeDominates(t.b, t.si, at) {
				out[t.j] = true
			}
		}
		if j, op, ok := cmpParam(v); ok && op == token.EQL {
			out[j] = true
		}
		if ph, ok := v.(*ssa.Phi); ok && d > 0 {
			var acc map[int]bool
			for ei, e := range ph.Edges {
				es := valueSet(e, ph.Block().Preds[ei], d-1)
				// the edge itself may be the true edge of a test
				pb := ph.Block().Preds[ei]
				for _, t := range tests {
					if t.b == pb && pb.Succs[t.si] == ph.Block() && pb.Succs[1-t.si] != ph.Block() {
						es[t.j] = true
					}
				}
				if acc == nil {
					acc = es
				} else {
					for j := range acc {
						if !es[j] {
							delete(acc, j)
						}
					}
				}
			}
			for j := range acc {
				out[j] = true
			}
		}
		return out
	}
	for _, b := range h.Blocks {
		if len(b.Instrs) == 0 {
			continue
		}
		r, ok := b.Instrs[len(b.Instrs)-1].(*ssa.Return)
		if !ok || len(r.Results) != 1 {
			continue
		}
		sets = append(sets, valueSet(r.Results[0], b, 3))
	}
	if len(sets) == 0 {
		return done()
	}
	for j := range all {
		okAll := true
		for _, st := range sets {
			if !st[j] {
				okAll = false
			}
		}
		if okAll {
			res[j] = true
		}
	}
	return done()
}

var staleMu sync.Mutex
