package rules

// Shared helpers for the E4 table rules (T-ARITH, T-ROUND, T-UNARY, T-CMP, T-CONV, T-PREC).

import (
	"fmt"
	"go/constant"
	"go/token"
	"strings"

	"decverif/internal/cdai"
	"decverif/internal/model"
)

// operand classes
const (
	cPZ = iota // +0
	cNZ        // -0
	cPF        // +finite
	cNF        // -finite
	cPI        // +Inf
	cNI        // -Inf
)

var classNames = []string{"+0", "-0", "+F", "-F", "+Inf", "-Inf"}

type enums struct {
	zero, finite, inf       int64
	below, exact, above     int64
	nearEven, nearAway, toZ int64
	away, negInf, posInf    int64
	maxPrec, maxExp, minExp int64
	defaultPrec             int64
	modeNames               map[int64]string
}

func getEnums(m *model.Model) enums {
	g := func(n string) int64 {
		v, ok := constant.Int64Val(m.PkgConst(n))
		if !ok {
			model.Fatal("constant %s does not fit int64", n)
		}
		return v
	}
	e := enums{zero: g("zero"), finite: g("finite"), inf: g("inf"), below: g("Below"), exact: g("Exact"), above: g("Above"),
		nearEven: g("ToNearestEven"), nearAway: g("ToNearestAway"), toZ: g("ToZero"), away: g("AwayFromZero"), negInf: g("ToNegativeInf"), posInf: g("ToPositiveInf"),
		maxPrec: g("MaxPrec"), maxExp: g("MaxExp"), minExp: g("MinExp"), defaultPrec: g("DefaultDecimalPrec")}
	e.modeNames = map[int64]string{e.nearEven: "ToNearestEven", e.nearAway: "ToNearestAway", e.toZ: "ToZero", e.away: "AwayFromZero", e.negInf: "ToNegativeInf", e.posInf: "ToPositiveInf"}
	return e
}

func (e enums) modes() []int64 {
	return []int64{e.nearEven, e.nearAway, e.toZ, e.away, e.negInf, e.posInf}
}

func (e enums) formOf(class int) int64 {
	switch class / 2 {
	case 0:
		return e.zero
	case 1:
		return e.finite
	}
	return e.inf
}

func negOf(class int) bool { return class%2 == 1 }

// decSpec describes the initial abstract contents of a Decimal (nil = ⊤).
type decSpec struct {
	form, prec, mode, acc, exp *int64
	neg                        *bool
}

func i64(v int64) *int64 { return &v }
func bptr(b bool) *bool  { return &b }

func mkDec(m *model.Model, st *cdai.State, d decSpec) cdai.Obj {
	o := st.NewObj()
	st.Set(o, m.F.Mant, cdai.Sym{Name: fmt.Sprintf("mant#%d", o.ID)})
	set := func(f int, p *int64) {
		if p != nil {
			st.Set(o, f, cdai.Int(*p))
		}
	}
	set(m.F.Form, d.form)
	set(m.F.Prec, d.prec)
	set(m.F.Mode, d.mode)
	set(m.F.Acc, d.acc)
	set(m.F.Exp, d.exp)
	if d.neg != nil {
		st.Set(o, m.F.Neg, cdai.Bool(*d.neg))
	}
	return o
}

func classSpec(e enums, class int, prec, mode int64) decSpec {
	return decSpec{form: i64(e.formOf(class)), neg: bptr(negOf(class)), prec: i64(prec), mode: i64(mode), acc: i64(e.below)}
}

// field accessors on a final state
func fInt(m *model.Model, st *cdai.State, o cdai.Obj, f int) (int64, bool) {
	return cdai.ConstInt(st.Get(o, f))
}
func fBool(m *model.Model, st *cdai.State, o cdai.Obj, f int) (bool, bool) {
	return cdai.ConstBool(st.Get(o, f))
}

func isErrNaNPanic(o cdai.Outcome) bool {
	if o.Kind != "panic" || len(o.Vals) != 1 {
		return false
	}
	i, ok := o.Vals[0].(cdai.Iface)
	return ok && strings.HasSuffix(i.Dyn, "decimal.ErrNaN")
}

func outcomeStr(m *model.Model, o cdai.Outcome, z cdai.Obj) string {
	var tr []string
	for _, e := range o.St.Trace {
		tr = append(tr, e.String())
	}
	s := o.Kind
	if o.Kind == "panic" && len(o.Vals) == 1 {
		s += " " + cdai.Str(o.Vals[0])
	}
	if z.ID != 0 {
		s += fmt.Sprintf(" z{form=%s neg=%s acc=%s prec=%s mode=%s exp=%s}", cdai.Str(o.St.Get(z, m.F.Form)), cdai.Str(o.St.Get(z, m.F.Neg)), cdai.Str(o.St.Get(z, m.F.Acc)), cdai.Str(o.St.Get(z, m.F.Prec)), cdai.Str(o.St.Get(z, m.F.Mode)), cdai.Str(o.St.Get(z, m.F.Exp)))
	}
	if len(o.Vals) > 0 && o.Kind == "return" {
		s += " ret=" + cdai.Str(cdai.Tuple(o.Vals))
	}
	return s + " via [" + strings.Join(tr, "; ") + "]"
}

// findEvents returns the trace events whose callee is one of names.
func findEvents(st *cdai.State, names ...string) []cdai.Event {
	var out []cdai.Event
	for _, e := range st.Trace {
		for _, n := range names {
			if e.Fn == n {
				out = append(out, e)
			}
		}
	}
	return out
}

func evRecvBool(m *model.Model, e cdai.Event, f int) (bool, bool) {
	if !e.Has {
		return false, false
	}
	return cdai.ConstBool(e.Recv[f])
}

func evRecvInt(m *model.Model, e cdai.Event, f int) (int64, bool) {
	if !e.Has {
		return 0, false
	}
	return cdai.ConstInt(e.Recv[f])
}

func sameObj(a cdai.Val, o cdai.Obj) bool {
	x, ok := a.(cdai.Obj)
	return ok && x.ID == o.ID
}

// stdInterp returns an interpreter configured for the dispatch tables: every
// *Decimal method is inlined except the numeric cores; the unsigned operations
// and the rounding funnel are traced.
func stdInterp(m *model.Model) *cdai.Interp {
	it := cdai.New(m)
	e := getEnums(m)
	for _, n := range []string{"(*Decimal).validate", "(*Decimal).sqrtInverse", "(*Decimal).round", "(*Decimal).ucmp", "(*Decimal).pow2", "(*Decimal).intMant", "(*Decimal).Text", "(*Decimal).String", "(*Decimal).Append"} {
		it.Opaque[n] = true
	}
	for _, n := range []string{"(*Decimal).uadd", "(*Decimal).usub", "(*Decimal).umul", "(*Decimal).uquo", "(*Decimal).round", "(*Decimal).setExpAndRound", "(*Decimal).ucmp", "(*Decimal).setBits64", "(*Decimal).sqrtInverse", "(*Decimal).Quo", "(*Decimal).Mul"} {
		it.Traced[n] = true
	}
	// round on a non-finite value only resets the accuracy (obligation T-ROUND/nonfinite checks
	// exactly that); modelling it keeps special-value terminals precise.
	it.Models["(*Decimal).round"] = func(it *cdai.Interp, st *cdai.State, name string, args []cdai.Val) ([]cdai.Val, bool) {
		o, ok := args[0].(cdai.Obj)
		if !ok {
			return nil, false
		}
		f, ok := cdai.ConstInt(st.Get(o, m.F.Form))
		if !ok || f == e.finite {
			return nil, false
		}
		st.Set(o, m.F.Acc, cdai.Int(e.exact))
		return []cdai.Val{cdai.TopV}, true
	}
	// same(a,b)/alias(a,b) on the unmodified mantissa of one finite Decimal: a finite Decimal has a
	// non-empty mantissa (representation invariant, rules NORM/ENUM), so both are true. Anything
	// else stays unknown (the interpreter forks).
	sameMant := func(it *cdai.Interp, st *cdai.State, name string, args []cdai.Val) ([]cdai.Val, bool) {
		a, ok1 := args[0].(cdai.Sym)
		b, ok2 := args[1].(cdai.Sym)
		if !ok1 || !ok2 || a.Name != b.Name || !strings.HasPrefix(a.Name, "mant#") {
			return nil, false
		}
		var id int
		fmt.Sscanf(a.Name, "mant#%d", &id)
		if f, ok := cdai.ConstInt(st.Get(cdai.Obj{ID: id}, m.F.Form)); ok && f == e.finite {
			return []cdai.Val{cdai.Bool(true)}, true
		}
		return nil, false
	}
	it.Models["same"] = sameMant
	it.Models["alias"] = sameMant
	// pow2(n) sets its receiver to 2**n: a finite positive value (n is bounded by the exponent
	// range of a float, so 2**n cannot leave the decimal exponent range). Stated assumption
	// (DESIGN Appendix B6); without it every Quo/Mul by a power of two would fork into 0/0.
	it.Models["(*Decimal).pow2"] = func(it *cdai.Interp, st *cdai.State, name string, args []cdai.Val) ([]cdai.Val, bool) {
		o, ok := args[0].(cdai.Obj)
		if !ok {
			return nil, false
		}
		st.Set(o, m.F.Form, cdai.Int(e.finite))
		st.Set(o, m.F.Neg, cdai.Bool(false))
		st.Set(o, m.F.Acc, cdai.TopV)
		st.Set(o, m.F.Exp, cdai.TopV)
		st.Set(o, m.F.Mant, cdai.TopV)
		return []cdai.Val{o}, true
	}
	it.Inline["makeAcc"] = true
	it.Inline["umax32"] = true
	it.Inline["NewDecimal"] = true
	return it
}

func constantUint(u uint64) constant.Value { return constant.MakeUint64(u) }

func constantEq(a, b constant.Value) bool {
	return a.Kind() == b.Kind() && constant.Compare(a, token.EQL, b)
}
