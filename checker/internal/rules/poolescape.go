package rules

// POOL (escape) — a buffer taken from a sync.Pool and given back in the same function must not
// also be handed to the caller: the next Get returns the same memory and the caller's result is
// overwritten behind its back (and two goroutines end up sharing one buffer).

import (
	"fmt"

	"golang.org/x/tools/go/ssa"

	"decverif/internal/model"
	"decverif/internal/ob"
)

func isSyncPoolMethod(c *ssa.CallCommon, name string) bool {
	cal := model.Unthunk(c.StaticCallee())
	if cal == nil || cal.Name() != name || cal.Pkg == nil || cal.Pkg.Pkg.Path() != "sync" {
		return false
	}
	return cal.Signature.Recv() != nil
}

func runPoolEscape(m *model.Model, s *ob.Set) {
	const R = "POOL"
	n := 0
	for _, fn := range m.Funcs {
		if len(fn.Blocks) == 0 || fn.Synthetic != "" {
			continue
		}
		var gets []*ssa.Call
		var puts []ssa.CallInstruction
		for _, b := range fn.Blocks {
			for _, in := range b.Instrs {
				ci, ok := in.(ssa.CallInstruction)
				if !ok {
					continue
				}
				if isSyncPoolMethod(ci.Common(), "Get") {
					if c, ok := in.(*ssa.Call); ok {
						gets = append(gets, c)
					}
				}
				if isSyncPoolMethod(ci.Common(), "Put") {
					puts = append(puts, ci)
				}
			}
		}
		if len(gets) == 0 {
			continue
		}
		for gi, g := range gets {
			n++
			// everything derived from the pooled object: through type assertions, loads,
			// re-slicings, conversions and φs
			derived := map[ssa.Value]bool{g: true}
			work := []ssa.Value{g}
			for len(work) > 0 {
				v := work[len(work)-1]
				work = work[:len(work)-1]
				refs := v.Referrers()
				if refs == nil {
					continue
				}
				for _, u := range *refs {
					var nv ssa.Value
					switch x := u.(type) {
					case *ssa.TypeAssert:
						nv = x
					case *ssa.Extract:
						nv = x
					case *ssa.UnOp:
						nv = x
					case *ssa.Slice:
						nv = x
					case *ssa.ChangeType:
						nv = x
					case *ssa.Convert:
						nv = x
					case *ssa.Phi:
						nv = x
					case *ssa.MakeInterface:
						nv = x
					case *ssa.FieldAddr:
						nv = x
					case *ssa.IndexAddr:
						nv = x
					case *ssa.Store:
						// kept in a local (a named result spilled because of a defer): what is
						// loaded from that local later is the pooled memory too
						if al, ok := x.Addr.(*ssa.Alloc); ok && x.Val == v {
							nv = al
						}
					}
					if nv != nil && !derived[nv] {
						derived[nv] = true
						work = append(work, nv)
					}
				}
			}
			given := false
			for _, p := range puts {
				for _, a := range p.Common().Args {
					if derived[a] {
						given = true
					}
				}
			}
			var ret *ssa.Return
			for _, b := range fn.Blocks {
				if r, ok := b.Instrs[len(b.Instrs)-1].(*ssa.Return); ok {
					for _, rv := range r.Results {
						if derived[rv] {
							ret = r
						}
					}
				}
			}
			c := fmt.Sprintf("%s/pool-get#%d", m.FuncName(fn), gi+1)
			switch {
			case given && ret != nil:
				s.Bad(R, c, m.InstrPos(g), fmt.Sprintf("%s: memory taken from a sync.Pool is put back in this function and also returned to the caller: the next Get hands out the same memory and the result the caller holds is overwritten", m.InstrPos(ret)))
			default:
				s.Ok(R, c, m.InstrPos(g), "a pooled object is either put back or handed on, not both")
			}
		}
	}
	if n == 0 {
		s.Note(R, "package/pool-get", "-", "no sync.Pool.Get call found")
	}
}
