package rules

// E1 — FX-STICKY and E3-PREC0: a forward dataflow over each function's pruned
// CFG that tracks, per *Decimal parameter, how the precision (resp. rounding
// mode) relates to its value on entry. Callee effects come from summaries
// computed to a fixpoint over the whole package.

import (
	"fmt"
	"go/token"
	"go/types"
	"sort"
	"strings"

	"golang.org/x/tools/go/ssa"

	"decverif/internal/model"
	"decverif/internal/ob"
)

func init() {
	Register(&Rule{Name: "FX-STICKY", Floor: 60, Run: runFxSticky,
		Doc: "an operation changes its result parameter's precision only when that precision is 0 (or temporarily, restoring it on every exit) and never its rounding mode, except the operations documented to copy attributes; with entry precision 0 every success exit has assigned it"})
	Register(&Rule{Name: "PREC0", Floor: 15, Run: runPrec0,
		Doc: "no exported operation reaches round on a Decimal whose precision has been neither assigned nor tested against 0 (round indexes mant[n-1] with n = ceil(prec/digits-per-word))"})
}

type attrState uint8

const (
	sE  attrState = 1 << iota // the entry value, never examined
	sE1                       // entry value + 1
	sG                        // examined: assigned under the prec==0 guard, or known non-zero, or the operand's own
	sG1                       // G + 1
	sX                        // anything else
)

func (s attrState) String() string {
	var p []string
	for i, n := range []string{"entry", "entry+1", "guarded", "guarded+1", "other"} {
		if s&(1<<uint(i)) != 0 {
			p = append(p, n)
		}
	}
	return "{" + strings.Join(p, ",") + "}"
}

const (
	effNone = iota
	effPreserve
	effG0
	effPlain
	effBump // an unexported helper that steps the attribute by one (and may leave it alone): the caller restores
)

type attrEff struct {
	kind     int
	copyFrom int // for effPlain: every plain write copies the same field of this parameter (-1: no)
	needs    bool
	wrote    bool
	mayKeep  bool // effBump: some exit leaves the value as it was
	retSaved int  // index of the result that carries the value the attribute had on entry (-1: none)
}

type stEvent struct {
	pos       string
	what      string
	own       bool // direct store, or through a callee that is entitled to the write
	copyFrom  int
	inherited string
}

type stResult struct {
	exit, exitSuccess attrState
	events            []stEvent
	prec0             []stEvent
	wrote             bool
	retSaved          int // see attrEff
}

type stickyEngine struct {
	m     *model.Model
	field int
	eff   map[*ssa.Function]map[int]*attrEff
	res   map[*ssa.Function]map[int]*stResult
}

// entitled: operations documented to set the attribute of that parameter.
func stickyEntitled(m *model.Model, fn *ssa.Function, k int, field int) (string, bool) {
	if m.InContextPkg(fn) {
		return "package context applies the context's precision and mode to the result (C19)", true
	}
	name := m.FuncName(fn)
	switch name {
	case "(*Decimal).Copy", "(*Decimal).SetMantExp", "(*Decimal).GobDecode":
		if k == 0 {
			return "documented to copy/restore precision and mode", true
		}
	case "(*Decimal).MantExp":
		if k == 1 {
			return "documented: mant gets the precision and mode of x", true
		}
	case "(*Decimal).SetMode":
		if k == 0 && field == m.F.Mode {
			return "sets the mode by contract", true
		}
	case "(*Decimal).SetPrec":
		if k == 0 && field == m.F.Prec {
			return "sets the precision by contract", true
		}
	}
	return "", false
}

func newStickyEngine(m *model.Model, field int) *stickyEngine {
	e := &stickyEngine{m: m, field: field, eff: map[*ssa.Function]map[int]*attrEff{}, res: map[*ssa.Function]map[int]*stResult{}}
	for _, fn := range m.Funcs {
		e.eff[fn] = map[int]*attrEff{}
		e.res[fn] = map[int]*stResult{}
		for k, p := range fn.Params {
			if m.IsDecPtr(p.Type()) {
				e.eff[fn][k] = &attrEff{kind: effNone, copyFrom: -1, retSaved: -1}
			}
		}
	}
	if field == m.F.Prec {
		e.eff[m.Lookup("(*Decimal).round")][0].needs = true
	}
	for iter := 0; ; iter++ {
		if iter > 30 {
			model.Fatal("FX-STICKY summaries did not converge")
		}
		changed := false
		for _, fn := range m.Funcs {
			for k := range e.eff[fn] {
				r := e.analyse(fn, k)
				e.res[fn][k] = r
				ne := e.summarise(fn, k, r)
				if *ne != *e.eff[fn][k] {
					*e.eff[fn][k] = *ne
					changed = true
				}
			}
		}
		if !changed {
			break
		}
	}
	return e
}

func (e *stickyEngine) summarise(fn *ssa.Function, k int, r *stResult) *attrEff {
	ne := &attrEff{kind: effNone, copyFrom: -1, wrote: r.wrote, retSaved: r.retSaved}
	ne.needs = len(r.prec0) > 0
	if e.field == e.m.F.Prec && e.m.FuncName(fn) == "(*Decimal).round" && k == 0 {
		ne.needs = true
	}
	switch {
	case r.exit&sX == 0 && r.exit&(sE1|sG1) != 0 && !e.m.IsExported(fn) && fn.Parent() == nil:
		// an internal helper that takes one more digit (or one more step of the attribute)
		// without rounding: the caller is the one that restores
		ne.kind = effBump
		ne.mayKeep = r.exit&(sE|sG) != 0
	case r.exit&(sX|sE1|sG1) != 0:
		ne.kind = effPlain
		cf := -2
		for _, ev := range r.events {
			if cf == -2 {
				cf = ev.copyFrom
			} else if cf != ev.copyFrom {
				cf = -1
			}
		}
		if cf >= 0 {
			ne.copyFrom = cf
		}
	case r.exit&sG != 0:
		ne.kind = effG0
	case r.wrote:
		ne.kind = effPreserve
	}
	return ne
}

// analyse runs the dataflow for parameter k of fn, once treating references that may or may
// not be the parameter (φ of the receiver and a fresh object) as the parameter and once as not.
func (e *stickyEngine) analyse(fn *ssa.Function, k int) *stResult {
	m := e.m
	mixed := false
	live := m.Live(fn)
	for _, b := range fn.Blocks {
		if !live[b.Index] {
			continue
		}
		for _, in := range b.Instrs {
			if st, ok := in.(*ssa.Store); ok {
				if fa, ok := m.DecField(st.Addr); ok && fa.Field == e.field {
					r := m.RefOf(fa.X)
					if r.MayBeParam(k) && !r.OnlyParam(k) {
						mixed = true
					}
				}
			}
		}
	}
	res := e.run(fn, k, true)
	if mixed {
		r2 := e.run(fn, k, false)
		res.exit |= r2.exit
		res.exitSuccess |= r2.exitSuccess
		res.events = append(res.events, r2.events...)
		res.prec0 = append(res.prec0, r2.prec0...)
		res.wrote = res.wrote || r2.wrote
	}
	return res
}

func (e *stickyEngine) run(fn *ssa.Function, k int, strongMixed bool) *stResult {
	m := e.m
	res := &stResult{retSaved: -2}
	n := len(fn.Blocks)
	in := make([]attrState, n)
	in[0] = sE
	loadState := map[ssa.Instruction]attrState{}
	savedAt := map[ssa.Value]attrState{} // call -> state of the attribute when a callee that returns the saved value was entered
	evSeen := map[string]bool{}
	live := m.Live(fn)

	isField := func(addr ssa.Value) (model.Ref, bool) {
		fa, ok := m.DecField(addr)
		if !ok || fa.Field != e.field {
			return model.Ref{}, false
		}
		return m.RefOf(fa.X), true
	}
	relevant := func(r model.Ref) (use, strong bool) {
		if !r.MayBeParam(k) {
			return false, false
		}
		if r.OnlyParam(k) {
			return true, true
		}
		// mixed reference
		only := r.Params == 1<<uint(k) && !r.Global && !r.Unknown // param k or a fresh object
		if only {
			return strongMixed, strongMixed
		}
		return true, false
	}
	plus := func(s attrState, d int) attrState {
		var o attrState
		if d > 0 {
			if s&sE != 0 {
				o |= sE1
			}
			if s&sG != 0 {
				o |= sG1
			}
			if s&(sE1|sG1|sX) != 0 {
				o |= sX
			}
		} else {
			if s&sE1 != 0 {
				o |= sE
			}
			if s&sG1 != 0 {
				o |= sG
			}
			if s&(sE|sG|sX) != 0 {
				o |= sX
			}
		}
		return o
	}
	guard := func(s attrState) attrState {
		var o attrState
		if s&(sE|sG) != 0 {
			o |= sG
		}
		if s&(sE1|sG1|sX) != 0 {
			o |= sX
		}
		return o
	}
	addEvent := func(list *[]stEvent, ev stEvent, record bool) {
		if !record {
			return
		}
		key := ev.pos + ev.what
		if evSeen[key] {
			return
		}
		evSeen[key] = true
		*list = append(*list, ev)
	}

	step := func(b *ssa.BasicBlock, st attrState, record bool) attrState {
		for _, ins := range b.Instrs {
			switch ins := ins.(type) {
			case *ssa.UnOp:
				if ins.Op == token.MUL {
					if r, ok := isField(ins.X); ok && r.MayBeParam(k) {
						loadState[ins] |= st
					}
				}
			case *ssa.Store:
				// whole-object store *z = Decimal{}
				if m.IsDecPtr(ins.Addr.Type()) {
					if use, strong := relevant(m.RefOf(ins.Addr)); use {
						res.wrote = true
						addEvent(&res.events, stEvent{pos: m.InstrPos(ins), what: "whole Decimal overwritten", own: true, copyFrom: -1}, record)
						if strong {
							st = sX
						} else {
							st |= sX
						}
					}
					continue
				}
				r, ok := isField(ins.Addr)
				if !ok {
					continue
				}
				use, strong := relevant(r)
				if !use {
					continue
				}
				res.wrote = true
				var nw attrState
				switch {
				case e.field == m.F.Prec && m.IsGuard0Store(ins):
					nw = guard(st)
				default:
					nw = sX
					handled := false
					if l, ok := ins.Val.(*ssa.UnOp); ok && l.Op == token.MUL {
						if lr, ok := isField(l.X); ok {
							if lr.MayBeParam(k) {
								nw = loadState[l] // restore of a value saved earlier
								handled = true
							} else if j, ok := lr.IsSingleParam(); ok {
								addEvent(&res.events, stEvent{pos: m.InstrPos(ins), what: fmt.Sprintf("assigned the %s of parameter %s", m.FieldN[e.field], fn.Params[j].Name()), own: true, copyFrom: j}, record)
								handled = true
							}
						}
					}
					if !handled {
						// restore of the value a helper saved and returned: prec := z.extraDigit()
						var call ssa.Value
						idx := 0
						switch x := ins.Val.(type) {
						case *ssa.Extract:
							call, idx = x.Tuple, x.Index
						case *ssa.Call:
							call = x
						}
						if c, ok := call.(*ssa.Call); ok {
							if cal := model.Unthunk(c.Call.StaticCallee()); cal != nil && e.eff[cal] != nil {
								for ai, a := range c.Call.Args {
									if ce := e.eff[cal][ai]; ce != nil && ce.retSaved == idx && m.IsDecPtr(a.Type()) && m.RefOf(a).MayBeParam(k) {
										if sv, ok := savedAt[c]; ok {
											nw = sv
											handled = true
										}
									}
								}
							}
						}
					}
					if bo, ok := ins.Val.(*ssa.BinOp); ok && !handled && (bo.Op == token.ADD || bo.Op == token.SUB) {
						if l, ok := bo.X.(*ssa.UnOp); ok && l.Op == token.MUL {
							if lr, ok := isField(l.X); ok && lr.MayBeParam(k) {
								if c, ok := model.ConstInt(bo.Y); ok && c == 1 {
									d := 1
									if bo.Op == token.SUB {
										d = -1
									}
									nw = plus(loadState[l], d)
									handled = true
								}
							}
						}
					}
					if !handled {
						addEvent(&res.events, stEvent{pos: m.InstrPos(ins), what: "assigned a value unrelated to its previous one", own: true, copyFrom: -1}, record)
					}
				}
				if strong {
					st = nw
				} else {
					st |= nw
				}
			case ssa.CallInstruction:
				cal, c := model.Callee(ins)
				if cal == nil || len(cal.Blocks) == 0 || e.eff[cal] == nil {
					continue
				}
				for ai, a := range c.Args {
					if !m.IsDecPtr(a.Type()) {
						continue
					}
					use, strong := relevant(m.RefOf(a))
					if !use {
						continue
					}
					ce := e.eff[cal][ai]
					if ce == nil {
						continue
					}
					if ce.needs && st&sE != 0 {
						addEvent(&res.prec0, stEvent{pos: m.InstrPos(ins), what: "call of " + m.FuncName(cal) + " may round while the precision is still unexamined (possibly 0)", copyFrom: -1}, record)
						st = (st &^ sE) | sG
					}
					if ce.wrote {
						res.wrote = true
					}
					if ce.retSaved >= 0 {
						if cv, ok := ins.(*ssa.Call); ok {
							savedAt[cv] |= st
						}
					}
					switch ce.kind {
					case effBump:
						o := plus(st, 1)
						if ce.mayKeep {
							o |= st
						}
						if strong {
							st = o
						} else {
							st |= o
						}
					case effG0:
						var o attrState
						if st&(sE|sG) != 0 {
							o |= sG
						}
						o |= st & (sE1 | sG1 | sX)
						if strong {
							st = o
						} else {
							st |= o
						}
					case effPlain:
						if ce.copyFrom >= 0 && ce.copyFrom < len(c.Args) {
							// copying from the very same object is a no-op
							sr := m.RefOf(c.Args[ce.copyFrom])
							tr := m.RefOf(a)
							if sr.Params == tr.Params && !sr.Unknown && !tr.Unknown && !sr.Global && !tr.Global &&
								((sr.Params != 0 && sr.Params&(sr.Params-1) == 0 && !sr.Fresh && !tr.Fresh) || (sr.Params == 0 && len(sr.Allocs) == 1 && len(tr.Allocs) == 1 && sr.Allocs[0] == tr.Allocs[0])) {
								continue
							}
						}
						_, ent := stickyEntitled(m, cal, ai, e.field)
						cf := -1
						if ce.copyFrom >= 0 && ce.copyFrom < len(c.Args) {
							if j, ok := m.RefOf(c.Args[ce.copyFrom]).IsSingleParam(); ok {
								cf = j
							}
						}
						ev := stEvent{pos: m.InstrPos(ins), what: "overwritten by " + m.FuncName(cal), own: ent, copyFrom: cf}
						if !ent {
							ev.inherited = m.FuncName(cal)
						}
						addEvent(&res.events, ev, record)
						if strong {
							st = sX
						} else {
							st |= sX
						}
					}
				}
			case *ssa.Return:
				if record {
					// which result, if any, is the value the attribute had on entry
					found := -1
					for ri, rv := range ins.Results {
						if l, ok := stripConv(rv).(*ssa.UnOp); ok && l.Op == token.MUL {
							if lr, ok := isField(l.X); ok && lr.OnlyParam(k) && loadState[l] == sE {
								found = ri
							}
						}
					}
					if res.retSaved == -2 {
						res.retSaved = found
					} else if res.retSaved != found {
						res.retSaved = -1
					}
					res.exit |= st
					success := true
					if len(ins.Results) > 0 && m.IsDecPtr(ins.Results[0].Type()) {
						rr := m.RefOf(ins.Results[0])
						if rr.Params == 0 && !rr.Fresh && !rr.Unknown && !rr.Global {
							success = false // returns the nil *Decimal: an error exit
						}
					}
					for _, rv := range ins.Results {
						if types.Identical(rv.Type(), types.Universe.Lookup("error").Type()) && errKnownNonNil(m, rv, ins.Block()) {
							success = false // returns an error that was found non-nil on the way
						}
					}
					if success {
						res.exitSuccess |= st
					}
				}
			}
		}
		return st
	}
	edge := func(b *ssa.BasicBlock, si int, st attrState) attrState {
		ifi, ok := b.Instrs[len(b.Instrs)-1].(*ssa.If)
		if !ok {
			return st
		}
		bo, ok := ifi.Cond.(*ssa.BinOp)
		if !ok {
			return st
		}
		if e.field == m.F.Prec && (bo.Op == token.LSS || bo.Op == token.GEQ || bo.Op == token.GTR || bo.Op == token.LEQ) {
			// an ordering test of the receiver's precision against a non-constant Y: on the edge
			// where prec >= Y (or prec > Y) the receiver's precision is zero only if Y is zero too,
			// i.e. there is no precision to inherit: counts as examined
			isZPrec := func(v ssa.Value) bool {
				lf, ok := m.LoadOfDecField(stripConv(v))
				return ok && lf.Field == m.F.Prec && m.RefOf(lf.X).OnlyParam(k)
			}
			_, xc := bo.X.(*ssa.Const)
			_, yc := bo.Y.(*ssa.Const)
			geEdge := -1
			switch {
			case isZPrec(bo.X) && !yc:
				switch bo.Op {
				case token.LSS:
					geEdge = 1
				case token.GEQ, token.GTR:
					geEdge = 0
				}
			case isZPrec(bo.Y) && !xc:
				switch bo.Op {
				case token.GTR:
					geEdge = 1
				case token.LEQ, token.LSS:
					geEdge = 0
				}
			}
			if si == geEdge && st&sE != 0 {
				return (st &^ sE) | sG
			}
			return st
		}
		if bo.Op != token.EQL && bo.Op != token.NEQ {
			return st
		}
		eqEdge := 0
		if bo.Op == token.NEQ {
			eqEdge = 1
		}
		examined := func(s attrState) attrState {
			if s&sE != 0 {
				s = (s &^ sE) | sG
			}
			return s
		}
		// pointer identity with another Decimal: on the equal edge the attributes are the operand's
		if m.IsDecPtr(bo.X.Type()) && m.IsDecPtr(bo.Y.Type()) {
			if e.field != m.F.Prec {
				return st
			}
			rx, ry := m.RefOf(bo.X), m.RefOf(bo.Y)
			if (rx.OnlyParam(k) && !ry.Nil) || (ry.OnlyParam(k) && !rx.Nil) {
				if si == eqEdge {
					return examined(st)
				}
			}
			return st
		}
		if e.field != m.F.Prec {
			return st
		}
		// prec ==/!= 0
		x, y := bo.X, bo.Y
		if c, ok := model.ConstInt(x); ok && c == 0 {
			x, y = y, x
		}
		if c, ok := model.ConstInt(y); !ok || c != 0 {
			return st
		}
		if lf, ok := m.LoadOfDecField(x); ok && lf.Field == m.F.Prec && m.RefOf(lf.X).OnlyParam(k) {
			if si != eqEdge {
				return examined(st) // known non-zero
			}
		}
		// prec := z.prec; if prec == 0 { prec = c } (value flows through a phi later): the
		// non-zero edge also counts as examined
		if ph, ok := x.(*ssa.Phi); ok {
			for _, ed := range ph.Edges {
				if lf, ok := m.LoadOfDecField(ed); ok && lf.Field == m.F.Prec && m.RefOf(lf.X).OnlyParam(k) && si != eqEdge {
					return examined(st)
				}
			}
		}
		return st
	}

	set := make([]bool, n)
	set[0] = true
	work := []int{0}
	for len(work) > 0 {
		bi := work[len(work)-1]
		work = work[:len(work)-1]
		b := fn.Blocks[bi]
		if !live[bi] {
			continue
		}
		out := step(b, in[bi], false)
		for _, ed := range model.LiveSuccs(b) {
			o := edge(b, ed.Si, out)
			ti := ed.To.Index
			if !set[ti] {
				set[ti] = true
				in[ti] = o
				work = append(work, ti)
			} else if in[ti]|o != in[ti] {
				in[ti] |= o
				work = append(work, ti)
			}
		}
	}
	// loadState grows monotonically; one more sweep to let restores see the final load states
	for pass := 0; pass < 3; pass++ {
		for bi, b := range fn.Blocks {
			if set[bi] && live[bi] {
				out := step(b, in[bi], false)
				for _, ed := range model.LiveSuccs(b) {
					in[ed.To.Index] |= edge(b, ed.Si, out)
				}
			}
		}
	}
	for bi, b := range fn.Blocks {
		if set[bi] && live[bi] {
			step(b, in[bi], true)
		}
	}
	if res.retSaved == -2 {
		res.retSaved = -1
	}
	return res
}

func runFxSticky(m *model.Model, s *ob.Set) {
	const R = "FX-STICKY"
	// (d): operations that must leave a precision behind when they found 0
	needAssigned := map[string]bool{}
	for _, n := range []string{"Add", "Sub", "Mul", "Quo", "FMA", "Sqrt", "Set", "Neg", "Abs", "SetInt", "SetInt64", "SetUint64", "SetRat", "SetFloat", "SetFloat64", "setBits64", "SetBitsExp", "scan"} {
		needAssigned["(*Decimal)."+n] = true
	}
	for _, field := range []int{m.F.Prec, m.F.Mode} {
		e := newStickyEngine(m, field)
		fname := m.FieldN[field]
		for _, fn := range m.Funcs {
			name := m.FuncName(fn)
			var ks []int
			for k := range e.eff[fn] {
				ks = append(ks, k)
			}
			sort.Ints(ks)
			for _, k := range ks {
				eff, r := e.eff[fn][k], e.res[fn][k]
				if !eff.wrote && !(m.IsExported(fn) && k == 0) {
					continue
				}
				c := fmt.Sprintf("%s/%s.%s", name, fn.Params[k].Name(), fname)
				why, ent := stickyEntitled(m, fn, k, field)
				switch {
				case eff.kind == effBump:
					s.Note(R, c, m.Pos(fn.Pos()), fmt.Sprintf("internal helper that steps the %s by one without rounding; its callers are checked for restoring it (exit states %s)", fname, r.exit))
				case eff.kind != effPlain:
					kinds := []string{"never written", "restored on every exit", "written only when it was 0", "", ""}
					d := kinds[eff.kind]
					if !eff.wrote {
						d = "never written"
					}
					s.Ok(R, c, m.Pos(fn.Pos()), d)
				case ent:
					s.Note(R, c, m.Pos(fn.Pos()), "entitled: "+why)
				default:
					var own, inh []string
					for _, ev := range r.events {
						if ev.own {
							own = append(own, ev.pos+": "+ev.what)
						} else {
							inh = append(inh, ev.pos+": "+ev.what)
						}
					}
					if len(own) == 0 && len(inh) == 0 {
						own = append(own, "the value is stepped (++/--) or restored from a saved copy in a way that does not balance on every path")
					}
					if len(own) == 0 {
						s.Note(R, c, m.Pos(fn.Pos()), "inherits the write from a callee that is reported itself: "+strings.Join(inh, "; "))
						continue
					}
					s.Bad(R, c, m.Pos(fn.Pos()), fmt.Sprintf("the %s of %s is not the same on every exit as on entry (exit states %s)", fname, fn.Params[k].Name(), r.exit), own...)
				}
				if field == m.F.Prec && needAssigned[name] && k == 0 {
					cd := fmt.Sprintf("%s/assigned-when-0", name)
					if r.exitSuccess&sE != 0 {
						s.Bad("FX-STICKY(d)", cd, m.Pos(fn.Pos()), "a success exit can be reached with the receiver's precision neither assigned nor tested: a zero-precision receiver would keep precision 0")
					} else {
						s.Ok("FX-STICKY(d)", cd, m.Pos(fn.Pos()), "every success exit has examined or assigned the precision")
					}
				}
			}
		}
	}
}

func runPrec0(m *model.Model, s *ob.Set) {
	const R = "PREC0"
	e := newStickyEngine(m, m.F.Prec)
	// which functions can reach round on which parameter
	reach := map[*ssa.Function]map[int]bool{}
	for _, fn := range m.Funcs {
		reach[fn] = map[int]bool{}
	}
	reach[m.Lookup("(*Decimal).round")][0] = true
	for ch := true; ch; {
		ch = false
		for _, fn := range m.Funcs {
			live := m.Live(fn)
			for _, b := range fn.Blocks {
				if !live[b.Index] {
					continue
				}
				for _, in := range b.Instrs {
					cal, c := model.Callee(in)
					if cal == nil || reach[cal] == nil {
						continue
					}
					for ai, a := range c.Args {
						if !m.IsDecPtr(a.Type()) || !reach[cal][ai] {
							continue
						}
						r := m.RefOf(a)
						for k := range fn.Params {
							if r.MayBeParam(k) && !reach[fn][k] {
								reach[fn][k] = true
								ch = true
							}
						}
					}
				}
			}
		}
	}
	for _, fn := range m.Funcs {
		name := m.FuncName(fn)
		var ks []int
		for k := range reach[fn] {
			ks = append(ks, k)
		}
		sort.Ints(ks)
		for _, k := range ks {
			r := e.res[fn][k]
			if r == nil {
				continue
			}
			c := fmt.Sprintf("%s/%s", name, fn.Params[k].Name())
			switch {
			case len(r.prec0) == 0:
				s.Ok(R, c, m.Pos(fn.Pos()), "every path to round has assigned or tested the precision")
			case m.IsExported(fn) || m.InContextPkg(fn):
				var p []string
				for _, ev := range r.prec0 {
					p = append(p, ev.pos+": "+ev.what)
				}
				s.Bad(R, c, m.Pos(fn.Pos()), "an exported operation can round a Decimal of precision 0 (index out of range in round)", p...)
			default:
				s.Note(R, c, m.Pos(fn.Pos()), "unexported: obligation passed to the callers")
			}
		}
	}
}
