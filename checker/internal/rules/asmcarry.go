package rules

// E7 (continued) — ASM carry/…: where the carry flag that an instruction consumes comes from.
//
// Forward reaching definitions of the flags and of the registers over each TEXT (which
// instructions may have written what an instruction reads; nothing is executed, no value is
// modelled). Two clauses:
//
// (a) a carry consumer (SBBQ, ADCQ) is not fed by a carry materialisation `SBBQ R, R`: that
//     instruction leaves the carry as it found it, so a second materialisation behind it yields
//     the same mask again — in the kernels this happens only when a compare that was meant to
//     stand between the two has moved (the mask of `x + y wrapped` ORed with itself instead of
//     with `x + y >= base`).
//
// (b) the sum of two full words can exceed 2^64 (2·10^19 > 2^64), so an `ADDQ` whose destination
//     register holds a Word *parameter* of the routine (loaded from its FP slot; a running carry
//     of 0/1 is not a parameter) and whose source is a word of a vector must have its hardware
//     carry consumed: the next instruction that touches the flags on every path reads them.

import (
	"fmt"
	"go/types"
	"sort"
	"strconv"
	"strings"

	"golang.org/x/tools/go/ssa"
)

func asmSuccs(t *asmText) func(i int) []int {
	at := map[string]int{}
	for i, in := range t.instrs {
		if in.label != "" {
			at[in.label] = i
		}
	}
	return func(i int) []int {
		ins := t.instrs[i]
		if ins.label != "" {
			return []int{i + 1}
		}
		switch {
		case ins.op == "RET":
			return nil
		case ins.op == "JMP":
			if len(ins.args) == 1 {
				if j, ok := at[ins.args[0]]; ok {
					return []int{j}
				}
			}
			return nil
		case strings.HasPrefix(ins.op, "J"):
			out := []int{i + 1}
			if len(ins.args) == 1 {
				if j, ok := at[ins.args[0]]; ok {
					out = append(out, j)
				}
			}
			return out
		}
		return []int{i + 1}
	}
}

type defSet map[int]bool

// asmReaching: for every instruction, the instructions whose write of `what` (a register or
// FLAGS) may reach it; -1 stands for the entry of the routine.
func asmReaching(t *asmText, what string) []defSet {
	n := len(t.instrs)
	in := make([]defSet, n+1)
	succs := asmSuccs(t)
	in[0] = defSet{-1: true}
	work := []int{0}
	for len(work) > 0 {
		i := work[len(work)-1]
		work = work[:len(work)-1]
		if i >= n || in[i] == nil {
			continue
		}
		out := in[i]
		if t.instrs[i].label == "" {
			for _, w := range asmEffect(t.instrs[i]).writes {
				if w == what {
					out = defSet{i: true}
				}
			}
		}
		for _, j := range succs(i) {
			if j > n {
				continue
			}
			ch := false
			if in[j] == nil {
				in[j] = defSet{}
			}
			for d := range out {
				if !in[j][d] {
					in[j][d] = true
					ch = true
				}
			}
			if ch {
				work = append(work, j)
			}
		}
	}
	return in
}

func isCarryMaterialisation(in asmInstr) bool {
	return in.op == "SBBQ" && len(in.args) == 2 && in.args[0] == in.args[1] && asmRegs[in.args[0]]
}

func asmCarryRule(t *asmText, fn *ssa.Function) (bad []string, checked int) {
	flagsIn := asmReaching(t, asmFlags)
	pos := func(in asmInstr) string { return fmt.Sprintf("dec_arith_amd64.s:%d", in.line) }
	// (a)
	for i, in := range t.instrs {
		if in.label != "" || (in.op != "SBBQ" && in.op != "ADCQ") || flagsIn[i] == nil {
			continue
		}
		checked++
		for d := range flagsIn[i] {
			if d >= 0 && isCarryMaterialisation(t.instrs[d]) {
				bad = append(bad, fmt.Sprintf("%s: %s %s consumes the carry left by the materialisation %s %s at line %d: the same carry is materialised twice (a compare meant to stand between them is missing or has moved)",
					pos(in), in.op, strings.Join(in.args, ", "), t.instrs[d].op, strings.Join(t.instrs[d].args, ", "), t.instrs[d].line))
			}
		}
	}
	// (b)
	if fn != nil {
		wordParam := map[string]bool{}
		sig := fn.Signature
		for i := 0; i < sig.Params().Len(); i++ {
			p := sig.Params().At(i)
			if b, ok := p.Type().Underlying().(*types.Basic); ok && (b.Kind() == types.Uint || b.Kind() == types.Uintptr || b.Kind() == types.Uint64 || b.Kind() == types.Uint32) {
				wordParam[p.Name()] = true
			}
		}
		regIn := map[string][]defSet{}
		succs := asmSuccs(t)
		for i, in := range t.instrs {
			if in.label != "" || in.op != "ADDQ" || len(in.args) != 2 || !asmRegs[in.args[1]] {
				continue
			}
			if reMem.FindStringSubmatch(in.args[0]) == nil {
				continue // source is not a word of a vector
			}
			dst := in.args[1]
			if regIn[dst] == nil {
				regIn[dst] = asmReaching(t, dst)
			}
			defs := regIn[dst][i]
			if len(defs) == 0 {
				continue
			}
			all := true
			for d := range defs {
				if d < 0 {
					all = false
					break
				}
				di := t.instrs[d]
				mm := reFP.FindStringSubmatch(di.args[0])
				if di.op != "MOVQ" || mm == nil || !wordParam[mm[1]] {
					all = false
				}
			}
			if !all {
				continue
			}
			checked++
			// every path from here reaches a flags reader before a flags writer
			seen := map[int]bool{}
			var walk func(j int) string
			walk = func(j int) string {
				if j >= len(t.instrs) || seen[j] {
					return ""
				}
				seen[j] = true
				ins := t.instrs[j]
				if ins.label == "" {
					rw := asmEffect(ins)
					for _, r := range rw.reads {
						if r == asmFlags {
							return ""
						}
					}
					for _, w := range rw.writes {
						if w == asmFlags {
							return fmt.Sprintf("%s %s at line %d", ins.op, strings.Join(ins.args, ", "), ins.line)
						}
					}
					if ins.op == "RET" {
						return "RET at line " + strconv.Itoa(ins.line)
					}
				}
				for _, k := range succs(j) {
					if w := walk(k); w != "" {
						return w
					}
				}
				return ""
			}
			for _, k := range succs(i) {
				if w := walk(k); w != "" {
					bad = append(bad, fmt.Sprintf("%s: ADDQ %s adds a word of a vector to the word parameter in %s; the sum can exceed 2^64 (2·_DB > 2^64), but its hardware carry is overwritten by %s before anything reads it", pos(in), strings.Join(in.args, ", "), dst, w))
					break
				}
			}
		}
	}
	sort.Strings(bad)
	return bad, checked
}

// asmDivCore — a scalar routine that reduces a binary double word to decimal words by the
// reciprocal multiplication (the inlined div10W: MULQ by the constant m') does so on every path:
// no result slot is written on a path that avoids that multiplication (a "the high half is zero,
// so the product already is a decimal word" shortcut is wrong between 10^19 and 2^64).
func asmDivCore(t *asmText) (bad string, applicable bool) {
	if len(asmLoops(t)) > 0 {
		return "", false
	}
	// registers that hold the reciprocal immediate: MOVQ $0x<16 hex digits>, R
	isImm := func(a string) bool { return strings.HasPrefix(a, "$0x") && len(a) > 12 }
	core := map[int]bool{}
	for i, in := range t.instrs {
		if in.label != "" || in.op != "MULQ" || len(in.args) != 1 {
			continue
		}
		if isImm(in.args[0]) {
			core[i] = true
			continue
		}
		if asmRegs[in.args[0]] {
			defs := asmReaching(t, in.args[0])[i]
			all := len(defs) > 0
			for d := range defs {
				if d < 0 || t.instrs[d].op != "MOVQ" || !isImm(t.instrs[d].args[0]) {
					all = false
				}
			}
			if all {
				core[i] = true
			}
		}
	}
	if len(core) == 0 {
		return "", false
	}
	succs := asmSuccs(t)
	seen := map[int]bool{}
	var walk func(i int) string
	walk = func(i int) string {
		if i >= len(t.instrs) || seen[i] || core[i] {
			return ""
		}
		seen[i] = true
		in := t.instrs[i]
		if in.label == "" && in.op == "MOVQ" && len(in.args) == 2 && reFP.MatchString(in.args[1]) {
			return fmt.Sprintf("dec_arith_amd64.s:%d: %s %s writes a result on a path that does not go through the multiplication by the reciprocal of the word base", in.line, in.op, strings.Join(in.args, ", "))
		}
		for _, j := range succs(i) {
			if w := walk(j); w != "" {
				return w
			}
		}
		return ""
	}
	return walk(0), true
}

// ASM counter/…: index and count stay in step. The vector kernels walk their operands with an
// index register that goes up and a count register that goes down by the same constants (4 per
// unrolled round, 1 per tail round); a shared tail (the memcpy of the words above an absorbed
// carry, the scalar tail loop) computes what is left from the pair. For every pair of registers
// that the routine only ever sets afresh or changes by constants, the sum of the two — as an
// offset from its value at the last fresh set — is propagated forward; a label that is reached
// from two places with the same fresh set behind them but different offsets is entered with an
// index that is ahead of, or behind, the count: words are skipped or copied twice.
func asmCounterRule(t *asmText) (bad []string, npairs int) {
	succs := asmSuccs(t)
	n := len(t.instrs)
	// effect of instruction i on register r: 0 none, 1 change by constant (delta), 2 fresh set
	effect := func(i int, r string) (int, int64) {
		in := t.instrs[i]
		if in.label != "" {
			return 0, 0
		}
		writes := false
		for _, w := range asmEffect(in).writes {
			if w == r {
				writes = true
			}
		}
		if !writes {
			return 0, 0
		}
		imm := func(a string) (int64, bool) {
			if !strings.HasPrefix(a, "$") {
				return 0, false
			}
			k, err := strconv.ParseInt(strings.TrimPrefix(a, "$"), 0, 64)
			return k, err == nil
		}
		switch in.op {
		case "ADDQ", "SUBQ":
			if len(in.args) == 2 && in.args[1] == r {
				if k, ok := imm(in.args[0]); ok {
					if in.op == "SUBQ" {
						k = -k
					}
					return 1, k
				}
			}
		case "INCQ":
			return 1, 1
		case "DECQ":
			return 1, -1
		case "LEAQ":
			if len(in.args) == 2 && in.args[1] == r && strings.HasSuffix(in.args[0], "("+r+")") {
				ks := strings.TrimSuffix(in.args[0], "("+r+")")
				if ks == "" {
					return 1, 0
				}
				if k, err := strconv.ParseInt(ks, 0, 64); err == nil {
					return 1, k
				}
			}
		}
		return 2, 0
	}
	// candidate registers: changed by a constant somewhere
	var cands []string
	for r := range asmRegs {
		has := false
		for i := 0; i < n; i++ {
			if k, _ := effect(i, r); k == 1 {
				has = true
			}
		}
		if has {
			cands = append(cands, r)
		}
	}
	sort.Strings(cands)
	type st struct {
		reached bool
		mixed   bool
		epoch   int
		off     int64
		from    int // line of the instruction the state came through
	}
	for ai := 0; ai < len(cands); ai++ {
		for bi := ai + 1; bi < len(cands); bi++ {
			a, b := cands[ai], cands[bi]
			// coupled: within one run of instructions without a label the one goes up and the other
			// down by the same constant (i += 4 … n -= 4); otherwise their sum is not an invariant
			// anybody relies on (a counter compared against a fixed limit)
			coupled := false
			for i := 0; i < n && !coupled; i++ {
				for _, pr := range [][2]string{{a, b}, {b, a}} {
					k1, d1 := effect(i, pr[0])
					if k1 != 1 || d1 == 0 {
						continue
					}
					for j := i + 1; j < n && t.instrs[j].label == ""; j++ {
						if k2, d2 := effect(j, pr[1]); k2 == 1 && d2 == -d1 {
							coupled = true
						}
						if k2, _ := effect(j, pr[0]); k2 != 0 {
							break
						}
					}
				}
			}
			if !coupled {
				continue
			}
			npairs++
			in := make([]st, n+1)
			in[0] = st{reached: true, epoch: -1}
			work := []int{0}
			reported := map[int]bool{}
			for len(work) > 0 {
				i := work[len(work)-1]
				work = work[:len(work)-1]
				if i >= n {
					continue
				}
				cur := in[i]
				out := cur
				out.from = t.instrs[i].line
				for _, r := range []string{a, b} {
					switch k, d := effect(i, r); k {
					case 1:
						out.off += d
					case 2:
						out.epoch, out.off, out.mixed = i, 0, false
					}
				}
				for _, j := range succs(i) {
					if j > n {
						continue
					}
					old := in[j]
					switch {
					case !old.reached:
						in[j] = out
						in[j].reached = true
						work = append(work, j)
					case old.mixed:
					case out.mixed || old.epoch != out.epoch:
						in[j].mixed = true
						work = append(work, j)
					case old.off != out.off:
						if !reported[j] && j < n && pairLive(t, succs, j, a, b, effect) {
							reported[j] = true
							lab := t.instrs[j].label
							if lab == "" {
								lab = fmt.Sprintf("line %d", t.instrs[j].line)
							}
							bad = append(bad, fmt.Sprintf("dec_arith_amd64.s:%d: %s is reached with %s+%s off by %d between the way through line %d and the way through line %d: the index and the count it computes the rest from are out of step", t.instrs[j].line, lab, a, b, out.off-old.off, old.from, out.from))
						}
						in[j].mixed = true
						work = append(work, j)
					}
				}
			}
		}
	}
	sort.Strings(bad)
	return bad, npairs
}

// pairLive: from instruction j on, some path reads register a or b (as a value or in an address)
// before setting it afresh.
func pairLive(t *asmText, succs func(int) []int, j int, a, b string, effect func(int, string) (int, int64)) bool {
	for _, r := range []string{a, b} {
		seen := map[int]bool{}
		work := []int{j}
		for len(work) > 0 {
			i := work[len(work)-1]
			work = work[:len(work)-1]
			if i >= len(t.instrs) || seen[i] {
				continue
			}
			seen[i] = true
			in := t.instrs[i]
			if in.label == "" {
				// a jump into another routine hands over the registers as they are
				if (in.op == "JMP" || in.op == "CALL") && len(in.args) == 1 && strings.HasSuffix(in.args[0], "(SB)") {
					return true
				}
				for _, rd := range asmEffect(in).reads {
					if rd == r {
						return true
					}
				}
				if k, _ := effect(i, r); k == 2 {
					continue
				}
			}
			work = append(work, succs(i)...)
		}
	}
	return false
}
