package rules

// FMTSHAPE Format/verb[…] and Format/layout[…] — the decision table of (*Decimal).Format.
//
// Format's inputs are enumerations: the verb, whether a precision was given, the four flags, the
// first byte of the text ('-', '+' for +Inf, a digit), whether a width was given and exceeds the
// text, and whether x is an infinity. With every one of them fixed to a constant, constant
// propagation with branch pruning (engine E4) leaves one path through Format, and what that path
// hands to Append and writes to the fmt.State is read off it:
//
//	verb  e E f b p → Append(·, verb, P or 6)   F → 'f'   s → 'g', 10   v g → 'g', −1   G → 'G', −1
//	      anything else → one Fprintf of the %!verb(…) form, no Append, nothing else written
//	sign  '-' from the text; for "+Inf" '+' (' ' with the space flag); else '+' / ' ' by flag
//	pad   width − len(sign) − len(digits) when the width exceeds that, else 0
//	order 0-flag and finite: sign, zeros, digits;  '-' flag: sign, digits, blanks;  else blanks, sign, digits
//
// (the layout strconv/fmt use for floating-point numbers: property C13). A cell is a violation
// only for a definite difference — a write missing, added or out of order, a constant where the
// table has another constant, a constant padding where the width exceeds the text; whatever the
// propagation cannot follow (a value it does not know, a loop) is left undecided.

import (
	"fmt"
	"go/constant"
	"go/token"
	"math"
	"os"
	"strings"

	"decverif/internal/cdai"
	"decverif/internal/model"
	"decverif/internal/ob"
)

type fmtCase struct {
	verb                     rune
	hasPrec                  bool
	plus, space, zero, minus bool
	cls                      byte // first byte of the text: '-', '+', 'd'
	width                    int  // 0 none, 1 given but not wider than the text, 2 wider
	inf                      bool
}

func (c fmtCase) String() string {
	fl := ""
	for _, f := range []struct {
		on bool
		c  string
	}{{c.plus, "+"}, {c.space, "_"}, {c.zero, "0"}, {c.minus, "-"}} {
		if f.on {
			fl += f.c
		}
	}
	if fl == "" {
		fl = "none"
	}
	return fmt.Sprintf("flags=%s,first=%c,width=%s,inf=%v", fl, c.cls, []string{"none", "narrow", "wide"}[c.width], c.inf)
}

// runFormatCase: the events of the one path Format takes for the case (nil, reason when the
// propagation does not end in a single normal return).
func runFormatCase(m *model.Model, c fmtCase) ([]cdai.Event, string) {
	fn := m.TryLookup("(*Decimal).Format")
	it := cdai.New(m)
	it.Budget = 20000
	it.Opaque["(*Decimal).String"] = true
	tup := func(v ...cdai.Val) []cdai.Val { return []cdai.Val{cdai.Tuple(v)} }
	it.Models["invoke.Precision"] = func(it *cdai.Interp, st *cdai.State, name string, args []cdai.Val) ([]cdai.Val, bool) {
		return tup(cdai.Sym{Name: "P"}, cdai.Bool(c.hasPrec)), true
	}
	it.Models["invoke.Width"] = func(it *cdai.Interp, st *cdai.State, name string, args []cdai.Val) ([]cdai.Val, bool) {
		return tup(cdai.Sym{Name: "W"}, cdai.Bool(c.width > 0)), true
	}
	it.Models["invoke.Flag"] = func(it *cdai.Interp, st *cdai.State, name string, args []cdai.Val) ([]cdai.Val, bool) {
		if len(args) != 2 {
			return nil, false
		}
		k, ok := cdai.ConstInt(args[1])
		if !ok {
			return nil, false
		}
		on := map[int64]bool{'+': c.plus, ' ': c.space, '0': c.zero, '-': c.minus}[k]
		return []cdai.Val{cdai.Bool(on)}, true
	}
	it.Models["invoke.Write"] = func(it *cdai.Interp, st *cdai.State, name string, args []cdai.Val) ([]cdai.Val, bool) {
		return tup(cdai.TopV, cdai.TopV), true
	}
	it.Models["writeMultiple"] = func(it *cdai.Interp, st *cdai.State, name string, args []cdai.Val) ([]cdai.Val, bool) {
		return []cdai.Val{cdai.TopV}, true
	}
	it.Models["fmt.Fprintf"] = func(it *cdai.Interp, st *cdai.State, name string, args []cdai.Val) ([]cdai.Val, bool) {
		return tup(cdai.TopV, cdai.TopV), true
	}
	it.Models["(*Decimal).Append"] = func(it *cdai.Interp, st *cdai.State, name string, args []cdai.Val) ([]cdai.Val, bool) {
		return []cdai.Val{cdai.Sym{Name: "buf"}}, true
	}
	it.Models["builtin.len"] = func(it *cdai.Interp, st *cdai.State, name string, args []cdai.Val) ([]cdai.Val, bool) {
		if len(args) != 1 {
			return nil, false
		}
		switch a := args[0].(type) {
		case cdai.Sym:
			return []cdai.Val{cdai.Sym{Name: "len(" + a.Name + ")"}}, true
		case cdai.Const:
			if a.V != nil && a.V.Kind() == constant.String {
				return []cdai.Val{cdai.Int(int64(len(constant.StringVal(a.V))))}, true
			}
		}
		return nil, false
	}
	it.BinHook = func(op token.Token, x, y cdai.Val) (cdai.Val, bool) {
		sx, xs := x.(cdai.Sym)
		sy, ys := y.(cdai.Sym)
		if ys && !xs {
			// mirror so that the symbol is on the left
			if mo, ok := map[token.Token]token.Token{token.EQL: token.EQL, token.NEQ: token.NEQ, token.LSS: token.GTR, token.GTR: token.LSS, token.LEQ: token.GEQ, token.GEQ: token.LEQ}[op]; ok {
				op, x, y, sx, xs = mo, y, x, sy, true
			}
		}
		if !xs {
			return nil, false
		}
		switch {
		case sx.Name == "buf[0]":
			k, ok := cdai.ConstInt(y)
			if !ok {
				return nil, false
			}
			first := int64(c.cls)
			if c.cls == 'd' {
				first = '1'
			}
			switch op {
			case token.EQL:
				return cdai.Bool(first == k), true
			case token.NEQ:
				return cdai.Bool(first != k), true
			}
		case sx.Name == "len(buf)" || sx.Name == "len(buf[1:])":
			// Append never returns an empty text, and the text behind a sign is not empty either
			k, ok := cdai.ConstInt(y)
			if !ok {
				return nil, false
			}
			switch {
			case op == token.EQL && k == 0, op == token.LEQ && k == 0, op == token.LSS && k <= 1:
				return cdai.Bool(false), true
			case op == token.NEQ && k == 0, op == token.GTR && k == 0, op == token.GEQ && k <= 1:
				return cdai.Bool(true), true
			}
		case sx.Name == "W":
			// the width against the length of what is written
			switch op {
			case token.GTR, token.GEQ:
				return cdai.Bool(c.width == 2), true
			case token.LEQ, token.LSS:
				return cdai.Bool(c.width != 2), true
			}
		}
		return nil, false
	}
	st := cdai.NewState()
	x := st.NewObj()
	for f := range m.FieldN {
		st.Set(x, f, cdai.TopV)
	}
	en := getEnums(m)
	form := en.finite
	if c.inf {
		form = en.inf
	}
	st.Set(x, m.F.Form, cdai.Int(form))
	st.Set(x, m.F.Neg, cdai.Bool(c.cls == '-'))
	var outs []cdai.Outcome
	func() {
		defer func() {
			if r := recover(); r != nil {
				outs = nil
			}
		}()
		outs = cdai.Dedupe(it.Run(fn, []cdai.Val{x, cdai.Sym{Name: "s"}, cdai.Int(int64(c.verb))}, st))
	}()
	if len(outs) != 1 || outs[0].Kind != "return" {
		kinds := []string{}
		for _, o := range outs {
			kinds = append(kinds, o.Kind)
		}
		return nil, fmt.Sprintf("the constant propagation ends in %d paths %v instead of one normal return", len(outs), kinds)
	}
	evs := []cdai.Event{}
	for _, e := range outs[0].St.Trace {
		switch e.Fn {
		case "invoke.Write", "writeMultiple", "fmt.Fprintf", "(*Decimal).Append":
			evs = append(evs, e)
		}
	}
	return evs, ""
}

func runFormatTable(m *model.Model, s *ob.Set) {
	const R = "FMTSHAPE"
	fn := m.TryLookup("(*Decimal).Format")
	if fn == nil || m.TryLookup("writeMultiple") == nil || m.TryLookup("(*Decimal).Append") == nil {
		return
	}
	pos := m.Pos(fn.Pos())
	constStr := func(v cdai.Val) (string, bool) {
		c, ok := v.(cdai.Const)
		if !ok || c.V == nil || c.V.Kind() != constant.String {
			return "", false
		}
		return constant.StringVal(c.V), true
	}
	// ---- verbs
	type verbRow struct {
		verb rune
		fmtb byte
		def  int64
	}
	rows := []verbRow{{'e', 'e', 6}, {'E', 'E', 6}, {'f', 'f', 6}, {'F', 'f', 6}, {'b', 'b', 6}, {'p', 'p', 6}, {'s', 'g', 10}, {'v', 'g', -1}, {'g', 'g', -1}, {'G', 'G', -1}}
	for _, row := range rows {
		for _, hp := range []bool{false, true} {
			c := fmtCase{verb: row.verb, hasPrec: hp, cls: 'd'}
			name := fmt.Sprintf("(*Decimal).Format/verb[%c,prec=%v]", row.verb, hp)
			evs, why := runFormatCase(m, c)
			if evs == nil {
				m.Blind("FMTSHAPE %s: %s", name, why)
				continue
			}
			bad := ""
			var app *cdai.Event
			for i := range evs {
				if evs[i].Fn == "(*Decimal).Append" {
					if app != nil {
						bad = "Append is called twice"
					}
					app = &evs[i]
				}
				if evs[i].Fn == "fmt.Fprintf" {
					bad = "a supported verb takes the bad-verb exit"
				}
			}
			if bad == "" && app == nil {
				bad = "no call of Append"
			}
			if bad == "" && len(app.Args) == 4 {
				if k, ok := cdai.ConstInt(app.Args[2]); ok && k != int64(row.fmtb) {
					bad = fmt.Sprintf("Append is given the format %q, the table has %q", rune(k), rune(row.fmtb))
				}
				pv := app.Args[3]
				if hp {
					if k, ok := cdai.ConstInt(pv); ok {
						bad = fmt.Sprintf("the precision the caller gave is replaced by the constant %d", k)
					}
				} else {
					if k, ok := cdai.ConstInt(pv); ok && k != row.def {
						bad = fmt.Sprintf("without a precision Append is given %d, the default for this verb is %d", k, row.def)
					} else if sy, isSym := pv.(cdai.Sym); isSym && sy.Name == "P" {
						bad = fmt.Sprintf("without a precision Append is given the unset precision value instead of the default %d", row.def)
					}
				}
			}
			s.Check(bad == "", R, name, pos, fmt.Sprintf("Append(·, %q, %s)", rune(row.fmtb), map[bool]string{true: "the given precision", false: fmt.Sprint(row.def)}[hp]), bad)
		}
	}
	for _, v := range []rune{'d', 'x', 'q', 'c'} {
		name := fmt.Sprintf("(*Decimal).Format/verb[%c]", v)
		evs, why := runFormatCase(m, fmtCase{verb: v, hasPrec: true, cls: 'd'})
		if evs == nil {
			m.Blind("FMTSHAPE %s: %s", name, why)
			continue
		}
		bad := ""
		nf := 0
		for _, e := range evs {
			switch e.Fn {
			case "fmt.Fprintf":
				nf++
			case "(*Decimal).Append":
				bad = "an unsupported verb is formatted like a supported one"
			default:
				bad = "an unsupported verb writes more than the %!verb(…) form"
			}
		}
		if bad == "" && nf != 1 {
			bad = fmt.Sprintf("an unsupported verb produces %d bad-verb reports instead of one", nf)
		}
		s.Check(bad == "", R, name, pos, "one %!verb(*decimal.Decimal=…) report, nothing else", bad)
	}
	// ---- layout
	for fl := 0; fl < 16; fl++ {
		for _, cls := range []byte{'-', '+', 'd'} {
			for w := 0; w < 3; w++ {
				for _, inf := range []bool{false, true} {
					if cls == '+' && !inf {
						continue // only "+Inf" starts with '+'
					}
					c := fmtCase{verb: 'e', hasPrec: true, plus: fl&1 != 0, space: fl&2 != 0, zero: fl&4 != 0, minus: fl&8 != 0, cls: cls, width: w, inf: inf}
					name := "(*Decimal).Format/layout[" + c.String() + "]"
					evs, why := runFormatCase(m, c)
					if evs == nil {
						m.Blind("FMTSHAPE %s: %s", name, why)
						continue
					}
					// the table
					sign := ""
					switch {
					case cls == '-':
						sign = "-"
					case cls == '+':
						sign = "+"
						if c.space {
							sign = " "
						}
					case c.plus:
						sign = "+"
					case c.space:
						sign = " "
					}
					digits := "buf"
					if cls != 'd' {
						digits = "buf[1:]"
					}
					type step struct {
						kind string // sign | pad | digits
						text string
					}
					var want []step
					switch {
					case c.zero && !inf:
						want = []step{{"sign", sign}, {"pad", "0"}, {"digits", digits}}
					case c.minus:
						want = []step{{"sign", sign}, {"digits", digits}, {"pad", " "}}
					default:
						want = []step{{"pad", " "}, {"sign", sign}, {"digits", digits}}
					}
					// steps that write nothing are no steps: an empty sign, a padding of 0
					{
						var w2 []step
						for _, w := range want {
							if (w.kind == "sign" && w.text == "") || (w.kind == "pad" && c.width != 2) {
								continue
							}
							w2 = append(w2, w)
						}
						want = w2
					}
					var got []cdai.Event
					bad := ""
					for _, e := range evs {
						switch e.Fn {
						case "writeMultiple":
							if len(e.Args) == 3 {
								if k, ok := cdai.ConstInt(e.Args[2]); ok && k == 0 {
									continue
								}
								if t, ok := constStr(e.Args[1]); ok && t == "" {
									continue
								}
								if _, isK := cdai.ConstInt(e.Args[2]); !isK && c.width != 2 {
									continue // a count the propagation does not know, where the table has 0: undecided
								}
							}
							got = append(got, e)
						case "invoke.Write":
							got = append(got, e)
						case "fmt.Fprintf":
							bad = "a supported verb takes the bad-verb exit"
						}
					}
					describe := func() string {
						var p []string
						for _, e := range got {
							p = append(p, e.String())
						}
						return strings.Join(p, " ")
					}
					if bad == "" && len(got) != len(want) {
						var ws []string
						for _, w := range want {
							ws = append(ws, w.kind)
						}
						bad = fmt.Sprintf("%d effective writes to the fmt.State (%s), the layout has %d (%s)", len(got), describe(), len(want), strings.Join(ws, ", "))
					}
					for i := 0; bad == "" && i < len(want); i++ {
						e, w := got[i], want[i]
						switch w.kind {
						case "digits":
							if e.Fn != "invoke.Write" || len(e.Args) != 2 {
								bad = fmt.Sprintf("write %d is %s, the layout has the digits there", i+1, e.String())
								break
							}
							if sy, ok := e.Args[1].(cdai.Sym); ok && sy.Name != w.text {
								bad = fmt.Sprintf("the digits written are %s, the layout has %s (the sign byte is split off exactly when there is one)", sy.Name, w.text)
							}
						default:
							if e.Fn != "writeMultiple" || len(e.Args) != 3 {
								bad = fmt.Sprintf("write %d is %s, the layout has the %s there", i+1, e.String(), map[string]string{"sign": "sign", "pad": "padding"}[w.kind])
								break
							}
							if t, ok := constStr(e.Args[1]); ok && t != w.text {
								bad = fmt.Sprintf("write %d repeats %q, the layout has %q (%s)", i+1, t, w.text, w.kind)
								break
							}
							k, isK := cdai.ConstInt(e.Args[2])
							switch {
							case w.kind == "sign" && isK && k != 1:
								bad = fmt.Sprintf("the sign is written %d times", k)
							case w.kind == "pad" && c.width == 2 && isK:
								bad = fmt.Sprintf("the padding is the constant %d although the width exceeds the text", k)
							}
						}
					}
					s.Check(bad == "", R, name, pos, "sign, padding and digits as in the fmt layout", bad)
				}
			}
		}
	}
}

// FMTSHAPE Append/digits[…] — which digit position Append rounds at and what it hands to fmtE /
// fmtF, for every format and precision class, read off the paths of Append with the format fixed
// and the digit count D = MinPrec(), the exponent E and a positive precision P as named unknowns
// (linear forms, rule file linutil.go). The table is strconv's:
//
//	shortest (prec < 0)   e: fmtE(D−1)    f: fmtF(max(D−E,0))    g: eprec = 6
//	explicit              e: round at 1+P, fmtE(P)    f: round at max(E+P,0), fmtF(P)
//	                      g: P = 0 counts as 1; round at P; eprec = P, or the digit count when P
//	                         exceeds it and the number has no integer zeros to print (D ≥ E)
//	g                     %e exactly when E−1 < −4 or E−1 ≥ eprec, with min(P, D)−1 digits;
//	                      else %f with max(P or D − E, 0) digits (D when P exceeds E)
//	the rounding copy is made exactly when the requested position lies inside the digits (< D)
//
// A path is judged against the table only through comparisons it took itself (its recorded
// decisions): where the table's question is not answered by the path, the path is undecided —
// except that a path which split the same quantity at a neighbouring value is a definite
// difference (exp <= −4 for exp < −4).

// appendTableDecided: every path of every Append/digits cell was judged against the table and
// none differs. The older, dominance-based clauses on Append's rounding copy (no copy for a
// negative precision, nothing stale after the copy, the copy's precision not taken from MinPrec)
// are consequences of that, path by path — they stand back when the table has spoken, and decide
// as before when it has not (a shape the propagation cannot follow).
func appendTableDecided(m *model.Model) bool {
	if v, ok := m.Memo.Load("appendTableDecided"); ok {
		return v.(bool)
	}
	var scratch ob.Set
	v := false
	func() {
		defer func() { recover() }()
		v = runAppendTable(m, &scratch)
	}()
	m.Memo.Store("appendTableDecided", v)
	return v
}

type appendCase struct {
	fmtb byte
	prec int // -1 shortest, 0 zero, 1 positive (unknown P)
}

func runAppendTable(m *model.Model, s *ob.Set) (allDecided bool) {
	const R = "FMTSHAPE"
	fn := m.TryLookup("(*Decimal).Append")
	if fn == nil || m.TryLookup("(*Decimal).fmtE") == nil || m.TryLookup("(*Decimal).fmtF") == nil || m.TryLookup("(*Decimal).MinPrec") == nil {
		return false
	}
	allDecided = true
	pos := m.Pos(fn.Pos())
	en := getEnums(m)
	F := m.F
	sym := func(n string) linF { return linF{t: map[string]int64{n: 1}} }
	for _, fb := range []byte{'e', 'E', 'f', 'g', 'G'} {
		for _, pc := range []int{-1, 0, 1} {
			name := fmt.Sprintf("(*Decimal).Append/digits[%c,prec %s]", fb, map[int]string{-1: "< 0", 0: "= 0", 1: "> 0"}[pc])
			it := cdai.New(m)
			it.Budget = 200000
			for _, n := range []string{"(*Decimal).fmtE", "(*Decimal).fmtF", "(*Decimal).fmtB", "(*Decimal).fmtP", "(*Decimal).bufSizeForFmt", "(*Decimal).validate", "(*Decimal).round"} {
				it.Opaque[n] = true
				it.Traced[n] = true
			}
			st := cdai.NewState()
			x := st.NewObj()
			for f := range m.FieldN {
				st.Set(x, f, cdai.TopV)
			}
			st.Set(x, F.Form, cdai.Int(en.finite))
			st.Set(x, F.Neg, cdai.Bool(false))
			st.Set(x, F.Exp, cdai.Sym{Name: "E"})
			st.Set(x, F.Mode, cdai.Int(en.nearAway))
			st.Set(x, F.Prec, cdai.Sym{Name: "xprec"})
			it.Models["(*Decimal).MinPrec"] = func(it *cdai.Interp, st *cdai.State, name string, args []cdai.Val) ([]cdai.Val, bool) {
				if o, ok := args[0].(cdai.Obj); ok && o.ID != x.ID {
					return []cdai.Val{cdai.Sym{Name: "D2"}}, true
				}
				return []cdai.Val{cdai.Sym{Name: "D"}}, true
			}
			it.Models["(*Decimal).SetPrec"] = func(it *cdai.Interp, st *cdai.State, name string, args []cdai.Val) ([]cdai.Val, bool) {
				o, ok := args[0].(cdai.Obj)
				if !ok {
					return nil, false
				}
				st.Set(o, F.Prec, args[1])
				return []cdai.Val{o}, true
			}
			it.Models["(*Decimal).Set"] = func(it *cdai.Interp, st *cdai.State, name string, args []cdai.Val) ([]cdai.Val, bool) {
				o, ok := args[0].(cdai.Obj)
				if !ok || o.ID == x.ID {
					return nil, false
				}
				st.Set(o, F.Form, cdai.Int(en.finite))
				st.Set(o, F.Neg, cdai.Bool(false))
				st.Set(o, F.Exp, cdai.Sym{Name: "E2"})
				st.Set(o, F.Mant, cdai.TopV)
				return []cdai.Val{o}, true
			}
			it.Models["builtin.cap"] = func(it *cdai.Interp, st *cdai.State, name string, args []cdai.Val) ([]cdai.Val, bool) {
				return []cdai.Val{cdai.Sym{Name: "capbuf"}}, true
			}
			isInt := func(n string) bool {
				switch n {
				case "D", "D2", "E", "E2", "P", "capbuf":
					return true
				}
				return false
			}
			it.BinHook = linHook(isInt, func(op token.Token, a, b cdai.Val) (cdai.Val, bool) {
				// P is a positive unknown: comparisons of P alone against constants <= 0 are known
				if _, isCmp := negOp[op]; !isCmp {
					return nil, false
				}
				la, oka := linOf(a)
				lb, okb := linOf(b)
				if !oka || !okb {
					return nil, false
				}
				d := la.add(lb, -1)
				if len(d.t) == 1 && d.t["P"] != 0 && d.terms() == fmt.Sprintf("%d*P", d.t["P"]) {
					// k*P + c op 0 with P >= 1
					k, c := d.t["P"], d.c
					if k > 0 && c >= 0 { // value >= 1
						return cdai.Bool(cmpInt(1, op, 0)), true
					}
					if k < 0 && c <= 0 { // value <= -1
						return cdai.Bool(cmpInt(-1, op, 0)), true
					}
				}
				return nil, false
			})
			var precArg cdai.Val
			switch pc {
			case -1:
				precArg = cdai.Int(-1)
			case 0:
				precArg = cdai.Int(0)
			default:
				precArg = cdai.Sym{Name: "P"}
			}
			var outs []cdai.Outcome
			why := ""
			func() {
				defer func() {
					if r := recover(); r != nil {
						why = fmt.Sprint(r)
					}
				}()
				outs = it.Run(fn, []cdai.Val{x, cdai.Sym{Name: "B"}, cdai.Int(int64(fb)), precArg}, st)
			}()
			if why != "" || len(outs) == 0 {
				m.Blind("FMTSHAPE %s: the constant propagation does not finish (%s)", name, why)
				allDecided = false
				continue
			}
			var fails []string
			npaths, ndecided := 0, 0
			for _, o := range outs {
				if o.Kind != "return" || len(o.St.Imprec) > 0 {
					continue
				}
				fs := factsOf(o.St.Decs)
				// a finite number has at least one digit, and P stands for a positive precision
				for _, n := range []string{"D", "D2", "P"} {
					fs.assume(sym(n).add(linConst(1), -1), token.GEQ)
				}
				if fs.contradictory() {
					continue
				}
				npaths++
				f, decided := appendPathCheck(m, o, fs, x, fb, pc, sym)
				if decided {
					ndecided++
				}
				if f != "" && len(fails) < 3 {
					fails = append(fails, f)
				}
			}
			if len(fails) > 0 || ndecided != npaths || npaths == 0 {
				allDecided = false
			}
			for _, o := range outs {
				if o.Kind != "return" || len(o.St.Imprec) > 0 {
					allDecided = false // a path that diverged or lost track: not judged
				}
			}
			if len(fails) > 0 {
				s.Bad(R, name, pos, fails[0], fails[1:]...)
			} else {
				s.Ok(R, name, pos, fmt.Sprintf("%d paths, %d judged against the table", npaths, ndecided))
			}
		}
	}
	return allDecided
}

// appendPathCheck judges one path of Append. It returns the difference found ("" for none) and
// whether the path could be judged to the end.
func appendPathCheck(m *model.Model, o cdai.Outcome, fs linFacts, x cdai.Obj, fb byte, pc int, sym func(string) linF) (string, bool) {
	return appendPathSplit(m, o, fs, x, fb, pc, sym, 0)
}

// appendPathSplit: where the table asks something the path's comparisons leave open, the inputs
// of the path are split into those for which it holds and those for which it does not (each kept
// only if the difference constraints stay satisfiable); the path did not tell them apart, so what
// it does must be what the table has for both.
func appendPathSplit(m *model.Model, o cdai.Outcome, fs linFacts, x cdai.Obj, fb byte, pc int, sym func(string) linF, depth int) (string, bool) {
	F := m.F
	type q struct {
		l  linF
		op token.Token
	}
	undecided := false
	var pending *q
	ask := func(l linF, op token.Token) bool {
		k, a := fs.ask(l, op)
		if !k {
			undecided = true
			if pending == nil {
				pending = &q{l, op}
			}
		}
		return a
	}
	straddle := ""
	split := func() (string, bool) {
		if pending == nil || depth >= 6 || !fs.splittable(pending.l) {
			return "", false
		}
		all := true
		for _, yes := range []bool{true, false} {
			fs2 := fs.clone()
			op := pending.op
			if !yes {
				op = negOp[op]
			}
			fs2.assume(pending.l, op)
			if fs2.contradictory() {
				continue
			}
			v, d := appendPathSplit(m, o, fs2, x, fb, pc, sym, depth+1)
			if v != "" {
				return fmt.Sprintf("%s [for those inputs of the path with %s %s 0, which it does not tell apart from the others]", v, pending.l, op), true
			}
			all = all && d
		}
		return "", all
	}
	// events
	var copyPrec cdai.Val
	copied := false
	var final *cdai.Event
	for i := range o.St.Trace {
		ev := &o.St.Trace[i]
		switch ev.Fn {
		case "(*Decimal).SetPrec":
			if ob, ok := ev.Args[0].(cdai.Obj); ok && ob.ID != x.ID {
				copyPrec = ev.Args[1]
			}
		case "(*Decimal).Set":
			if ob, ok := ev.Args[0].(cdai.Obj); ok && ob.ID != x.ID && sameObj(ev.Args[1], x) {
				copied = true
			}
		case "(*Decimal).fmtE", "(*Decimal).fmtF":
			final = ev
		case "(*Decimal).bufSizeForFmt":
			if k, a := fs.ask(sym("capbuf"), token.EQL); !(k && a) {
				return "a new buffer replaces the caller's on a path that has not found its capacity to be 0 (what the caller had put into it is lost)", true
			}
		}
	}
	if final == nil {
		return "", false
	}
	// differs: the two forms are known to be different on this path (not merely written differently)
	differs := func(a, b linF) bool {
		k, eq := fs.ask(a.add(b, -1), token.EQL)
		return k && !eq
	}
	one := linConst(1)
	D, E := sym("D"), sym("E")
	var p linF
	switch pc {
	case 0:
		p = linConst(0)
	case 1:
		p = sym("P")
	}
	var wantFn string
	var wantFmt byte
	var wantPrec linF
	maxOf := func(a linF) linF {
		if ask(a, token.GTR) {
			return a
		}
		return linConst(0)
	}
	if pc < 0 {
		if copied {
			return "with a negative precision every digit is printed: no rounding copy", true
		}
		switch fb {
		case 'e', 'E':
			wantFn, wantFmt, wantPrec = "(*Decimal).fmtE", fb, D.add(one, -1)
		case 'f':
			wantFn, wantPrec = "(*Decimal).fmtF", maxOf(D.add(E, -1))
		default:
			ex := E.add(one, -1)
			if ask(ex.add(linConst(-4), -1), token.LSS) || ask(ex.add(linConst(6), -1), token.GEQ) {
				wantFn, wantFmt, wantPrec = "(*Decimal).fmtE", fb+'e'-'g', D.add(one, -1)
			} else {
				wantFn, wantPrec = "(*Decimal).fmtF", maxOf(D.add(E, -1))
			}
		}
	} else {
		var rnd linF
		switch fb {
		case 'e', 'E':
			rnd = p.add(one, 1)
		case 'f':
			rnd = maxOf(E.add(p, 1))
		default:
			if pc == 0 {
				p = one
			}
			rnd = p
		}
		if undecided {
			return split()
		}
		kn, need := fs.ask(rnd.add(D, -1), token.LSS)
		if kn && need != copied {
			if copied {
				return fmt.Sprintf("a rounding copy is made on a path where the requested digit position (%s) is not inside the digits (D = MinPrec())", rnd), true
			}
			return fmt.Sprintf("no rounding copy on a path where the requested digit position (%s) lies inside the digits", rnd), true
		}
		if copied {
			if l, ok := linOf(copyPrec); ok && differs(l, rnd) {
				return fmt.Sprintf("the copy is rounded at digit %s; the format asks for digit %s", l, rnd), true
			}
			D, E = sym("D2"), sym("E2")
		}
		switch fb {
		case 'e', 'E':
			wantFn, wantFmt, wantPrec = "(*Decimal).fmtE", fb, p
		case 'f':
			wantFn, wantPrec = "(*Decimal).fmtF", p
		default:
			eprec := p
			if ask(eprec.add(D, -1), token.GTR) && ask(D.add(E, -1), token.GEQ) {
				eprec = D
			}
			ex := E.add(one, -1)
			if ask(ex.add(linConst(-4), -1), token.LSS) || ask(ex.add(eprec, -1), token.GEQ) {
				pp := p
				if ask(p.add(D, -1), token.GTR) {
					pp = D
				}
				wantFn, wantFmt, wantPrec = "(*Decimal).fmtE", fb+'e'-'g', pp.add(one, -1)
			} else {
				pp := p
				if ask(p.add(E, -1), token.GTR) {
					pp = D
				}
				wantFn, wantPrec = "(*Decimal).fmtF", maxOf(pp.add(E, -1))
			}
		}
	}
	if undecided {
		return split()
	}
	_ = straddle
	if final.Fn != wantFn {
		return fmt.Sprintf("the digits are laid out by %s; the table has %s here", final.Fn, wantFn), true
	}
	recvWant := x.ID
	_ = recvWant
	if copied {
		if ob, ok := final.Args[0].(cdai.Obj); ok && ob.ID == x.ID {
			return "the rounded copy is made but the unrounded operand is printed", true
		}
	}
	pi := 2
	if wantFn == "(*Decimal).fmtE" {
		pi = 3
		if k, ok := cdai.ConstInt(final.Args[2]); ok && byte(k) != wantFmt {
			return fmt.Sprintf("fmtE is given the exponent letter %q; the table has %q", rune(k), rune(wantFmt)), true
		}
	}
	if len(final.Args) > pi && copied {
		if l, ok := linOf(final.Args[pi]); ok {
			for _, old := range []string{"D", "E"} {
				if l.t[old] != 0 && wantPrec.t[old] == 0 {
					return fmt.Sprintf("%s is asked for %s digits: %s is the %s of the unrounded operand, but the rounded copy is printed (rounding can carry into a new leading digit)", strings.TrimPrefix(final.Fn, "(*Decimal)."), l, old, map[string]string{"D": "digit count", "E": "exponent"}[old]), true
				}
			}
		}
	}
	if len(final.Args) > pi {
		if l, ok := linOf(final.Args[pi]); ok && differs(l, wantPrec) {
			return fmt.Sprintf("%s is asked for %s digits after the point; the table has %s", strings.TrimPrefix(final.Fn, "(*Decimal)."), l, wantPrec), true
		}
	}
	_ = F
	return "", true
}

func boundStr(v int64) string {
	switch v {
	case math.MinInt64:
		return "-inf"
	case math.MaxInt64:
		return "+inf"
	}
	return fmt.Sprint(v)
}

// FMTSHAPE fmtE/emit, fmtB/emit, fmtP/emit — what the digit writers append, in which order and
// behind which comparisons. The paths of each writer are followed with the digit string, its
// length, the decimal exponent and the precision as named unknowns; every append is recorded with
// what the path knew at that moment (its own comparisons so far). The checks are implications
// between one append and that knowledge — strconv's layout of a floating-point number:
//
//	fmtE  no '.' when no fraction digit is asked for; when fewer digits exist than asked for,
//	      zeros fill the rest; one exponent letter; then '-' exactly when the exponent ex−1 is
//	      known negative, '+' when known non-negative (or the number has no digits); then a '0'
//	      exactly when the magnitude printed is known below 10; the magnitude is ±(ex−1)
//	fmtB  digits once, cut to the precision only when the precision is known smaller than their
//	      number; 'e' once; '+' exactly when ex − prec is known non-negative; that number printed
//	fmtP  "0." then the digits, 'e', '+' exactly when ex is known non-negative, ex printed

type emitEv struct {
	kind string // byte | str | sym | int | other
	b    int64
	s    string
	arg  cdai.Val
	nd   int
}

func emitInterp(m *model.Model, x cdai.Obj, ints map[string]bool, pPositive bool) *cdai.Interp {
	it := cdai.New(m)
	it.Budget = 300000
	for _, n := range []string{"(*Decimal).validate", "(*Decimal).MinPrec"} {
		it.Opaque[n] = true
	}
	it.Models["(*Decimal).toa"] = func(it *cdai.Interp, st *cdai.State, name string, args []cdai.Val) ([]cdai.Val, bool) {
		return []cdai.Val{cdai.Tuple{cdai.Sym{Name: "mant"}, cdai.Sym{Name: "ex"}}}, true
	}
	it.Models["bytes.TrimRight"] = func(it *cdai.Interp, st *cdai.State, name string, args []cdai.Val) ([]cdai.Val, bool) {
		if sy, ok := args[0].(cdai.Sym); ok {
			return []cdai.Val{cdai.Sym{Name: "trim(" + sy.Name + ")"}}, true
		}
		// known bytes (or the nil slice) and a constant cutset
		if len(args) == 2 {
			var l cdai.Lit
			known := false
			switch a := args[0].(type) {
			case cdai.Lit:
				l, known = a, true
			case cdai.Const:
				known = a.V == nil
			}
			if cs, ok := args[1].(cdai.Const); ok && known && cs.V != nil && cs.V.Kind() == constant.String {
				cut := constant.StringVal(cs.V)
				n := len(l)
				for n > 0 {
					k, isK := cdai.ConstInt(l[n-1])
					if !isK || !strings.ContainsRune(cut, rune(k)) {
						break
					}
					n--
				}
				return []cdai.Val{append(cdai.Lit{}, l[:n]...)}, true
			}
		}
		return nil, false
	}
	it.Models["builtin.len"] = func(it *cdai.Interp, st *cdai.State, name string, args []cdai.Val) ([]cdai.Val, bool) {
		if l, isLit := args[0].(cdai.Lit); isLit {
			return []cdai.Val{cdai.Int(int64(len(l)))}, true
		}
		sy, ok := args[0].(cdai.Sym)
		if !ok {
			return nil, false
		}
		if l, ok := sliceLen(sy.Name); ok {
			return []cdai.Val{l.val()}, true
		}
		return nil, false
	}
	it.Models["builtin.append"] = func(it *cdai.Interp, st *cdai.State, name string, args []cdai.Val) ([]cdai.Val, bool) {
		return []cdai.Val{cdai.TopV}, true
	}
	it.Models["strconv.AppendInt"] = func(it *cdai.Interp, st *cdai.State, name string, args []cdai.Val) ([]cdai.Val, bool) {
		return []cdai.Val{cdai.TopV}, true
	}
	var next func(op token.Token, a, b cdai.Val) (cdai.Val, bool)
	if pPositive {
		next = func(op token.Token, a, b cdai.Val) (cdai.Val, bool) {
			if _, isCmp := negOp[op]; !isCmp {
				return nil, false
			}
			la, oka := linOf(a)
			lb, okb := linOf(b)
			if !oka || !okb {
				return nil, false
			}
			d := la.add(lb, -1)
			if k := d.t["P"]; k != 0 && d.terms() == fmt.Sprintf("%d*P", k) {
				if k > 0 && d.c >= 0 {
					return cdai.Bool(cmpInt(1, op, 0)), true
				}
				if k < 0 && d.c <= 0 {
					return cdai.Bool(cmpInt(-1, op, 0)), true
				}
			}
			return nil, false
		}
	}
	it.BinHook = linHook(func(n string) bool { return ints[n] }, next)
	return it
}

// emitted: the appends of a path, in order.
func emitted(st *cdai.State) []emitEv {
	var out []emitEv
	for _, ev := range st.Trace {
		switch ev.Fn {
		case "builtin.append":
			if len(ev.Args) != 2 {
				out = append(out, emitEv{kind: "other", nd: ev.NDec})
				continue
			}
			switch a := ev.Args[1].(type) {
			case cdai.Lit:
				for _, el := range a {
					if k, ok := cdai.ConstInt(el); ok {
						out = append(out, emitEv{kind: "byte", b: k, nd: ev.NDec})
					} else if sy, ok := el.(cdai.Sym); ok {
						out = append(out, emitEv{kind: "sym", arg: el, s: sy.Name, nd: ev.NDec})
					} else {
						out = append(out, emitEv{kind: "other", nd: ev.NDec})
					}
				}
			case cdai.Const:
				if a.V != nil && a.V.Kind() == constant.String {
					// a constant string is its bytes ("e+" is the letter and the sign)
					for _, c := range []byte(constant.StringVal(a.V)) {
						out = append(out, emitEv{kind: "byte", b: int64(c), nd: ev.NDec})
					}
				} else {
					out = append(out, emitEv{kind: "other", nd: ev.NDec})
				}
			case cdai.Sym:
				out = append(out, emitEv{kind: "sym", s: a.Name, arg: a, nd: ev.NDec})
			default:
				out = append(out, emitEv{kind: "other", nd: ev.NDec})
			}
		case "strconv.AppendInt":
			if len(ev.Args) == 3 {
				out = append(out, emitEv{kind: "int", arg: ev.Args[1], nd: ev.NDec})
			}
		}
	}
	return out
}

func runEmitTables(m *model.Model, s *ob.Set) {
	const R = "FMTSHAPE"
	en := getEnums(m)
	F := m.F
	sym := func(n string) linF { return linF{t: map[string]int64{n: 1}} }
	mkX := func(st *cdai.State, form int64) cdai.Obj {
		x := st.NewObj()
		for f := range m.FieldN {
			st.Set(x, f, cdai.TopV)
		}
		st.Set(x, F.Form, cdai.Int(form))
		st.Set(x, F.Neg, cdai.Bool(false))
		st.Set(x, F.Prec, cdai.Sym{Name: "Q"})
		return x
	}
	run := func(it *cdai.Interp, fn interface{}, args []cdai.Val, st *cdai.State) (outs []cdai.Outcome, why string) {
		defer func() {
			if r := recover(); r != nil {
				why = fmt.Sprint(r)
			}
		}()
		return it.Run(m.TryLookup(fn.(string)), args, st), ""
	}
	known := func(fs linFacts, l linF, op token.Token) (bool, bool, string) {
		k, a := fs.ask(l, op)
		note := ""
		if !k {
			if key, _, kk, ok := linNormal(l, op); ok {
				if f := fs[key]; f != nil && (f.lo != math.MinInt64 || f.hi != math.MaxInt64) {
					note = fmt.Sprintf(" (the path knows %s only in [%s, %s], the layout splits it at %d)", strings.ReplaceAll(key, "1*", ""), boundStr(f.lo), boundStr(f.hi), kk)
				}
			}
		}
		return k, a, note
	}
	// signAndExp checks the tail  [+|-] ['0'] AppendInt(v)  of a path; sign '+' is optional when
	// plusOptional (the b and p formats print no '+'... they do: '+' only for non-negative)
	// ---- fmtE of a zero: the digit string of a zero is whatever toa hands back for a non-finite
	// form, trimmed as fmtE trims it; what comes out must be 0[.00]e+00 as strconv prints it. Here
	// toa is followed into its body (with the digit conversion opaque), not modelled.
	if fn := m.TryLookup("(*Decimal).fmtE"); fn != nil {
		for _, pz := range []int64{0, 2} {
			name := fmt.Sprintf("(*Decimal).fmtE/emit[zero, prec = %d]", pz)
			st := cdai.NewState()
			x := mkX(st, en.zero)
			it := emitInterp(m, x, map[string]bool{}, false)
			delete(it.Models, "(*Decimal).toa")
			for _, n := range []string{"dec.utoa", "dec.itoa"} {
				it.Opaque[n] = true
			}
			outs, why := run(it, "(*Decimal).fmtE", []cdai.Val{x, cdai.Sym{Name: "B"}, cdai.Int('e'), cdai.Int(pz)}, st)
			if why != "" || len(outs) == 0 {
				s.Note(R, name, m.Pos(fn.Pos()), "the constant propagation does not finish ("+why+"): not decided")
				continue
			}
			want := []int64{'0'}
			if pz > 0 {
				want = append(want, '.')
				for i := int64(0); i < pz; i++ {
					want = append(want, '0')
				}
			}
			want = append(want, 'e', '+', '0')
			bad, undecided, npaths := "", 0, 0
			for _, o := range outs {
				if len(o.St.Imprec) > 0 || o.Kind != "return" || len(o.St.Decs) > 0 {
					// (a path that had to guess at a value it does not know is not a path of a zero)
					undecided++
					continue
				}
				evs := emitted(o.St)
				var got []int64
				okPath := true
				var last cdai.Val
				nint := 0
				for _, e := range evs {
					switch e.kind {
					case "byte":
						got = append(got, e.b)
					case "int":
						last = e.arg
						nint++
					default:
						okPath = false
					}
				}
				if !okPath || nint != 1 {
					undecided++
					continue
				}
				npaths++
				same := len(got) == len(want)
				for i := 0; same && i < len(got); i++ {
					same = got[i] == want[i]
				}
				k, isK := cdai.ConstInt(last)
				if !same || !isK || k != 0 {
					var sb strings.Builder
					for _, b := range got {
						sb.WriteByte(byte(b))
					}
					bad = fmt.Sprintf("for a zero and %d digits after the point the bytes written are %q followed by the exponent %s; strconv prints %q followed by 0 (a zero has no digits: its exponent is +00)", pz, sb.String(), cdai.Str(last), string(func() []byte {
						var w []byte
						for _, b := range want {
							w = append(w, byte(b))
						}
						return w
					}()))
				}
			}
			switch {
			case bad != "":
				s.Bad(R, name, m.Pos(fn.Pos()), bad)
			case npaths == 0:
				s.Note(R, name, m.Pos(fn.Pos()), fmt.Sprintf("none of the %d paths could be read off (not decided)", len(outs)))
			default:
				s.Ok(R, name, m.Pos(fn.Pos()), fmt.Sprintf("%d path(s) write 0[.00]e+00 (%d not read off)", npaths, undecided))
			}
		}
	}
	// ---- fmtE
	if fn := m.TryLookup("(*Decimal).fmtE"); fn != nil && m.TryLookup("(*Decimal).toa") != nil {
		pos := m.Pos(fn.Pos())
		ints := map[string]bool{"Lm": true, "Lt": true, "ex": true, "P": true}
		for _, pc := range []int{0, 1} {
			name := fmt.Sprintf("(*Decimal).fmtE/emit[prec %s]", map[int]string{0: "= 0", 1: "> 0"}[pc])
			st := cdai.NewState()
			x := mkX(st, en.finite)
			it := emitInterp(m, x, ints, pc == 1)
			var p cdai.Val = cdai.Int(0)
			if pc == 1 {
				p = cdai.Sym{Name: "P"}
			}
			outs, why := run(it, "(*Decimal).fmtE", []cdai.Val{x, cdai.Sym{Name: "B"}, cdai.Int('e'), p}, st)
			if why != "" || len(outs) == 0 {
				m.Blind("FMTSHAPE %s: the constant propagation does not finish (%s)", name, why)
				continue
			}
			var fails []string
			fail := func(f string) {
				for _, g := range fails {
					if g == f {
						return
					}
				}
				if len(fails) < 4 {
					fails = append(fails, f)
				}
			}
			complete, undecidedPaths := 0, 0
			for _, o := range outs {
				if len(o.St.Imprec) > 0 {
					continue
				}
				all := factsOf(o.St.Decs)
				all.assume(sym("Lm"), token.GEQ)
				all.assume(sym("Lt"), token.GEQ)
				if pc == 1 {
					all.assume(sym("P").add(linConst(1), -1), token.GEQ)
				}
				if all.contradictory() {
					continue
				}
				evs := emitted(o.St)
				at := func(i int) linFacts {
					fs := factsOf(o.St.Decs[:evs[i].nd])
					fs.assume(sym("Lm"), token.GEQ)
					fs.assume(sym("Lt"), token.GEQ)
					return fs
				}
				letter := -1
				for i, e := range evs {
					if e.kind == "byte" && e.b == 'e' {
						if letter >= 0 {
							fail("the exponent letter is written twice")
						}
						letter = i
					}
					if e.kind == "byte" && e.b == '.' && pc == 0 {
						fail("a decimal point is written although no digit after the point is asked for (strconv prints 1e+00 for %.0e)")
					}
				}
				if o.Kind != "return" {
					continue
				}
				// something is appended that the propagation does not know (an element of a local array
				// at a computed index, the result of a helper): what the path wrote cannot be read off
				unknown := false
				for _, e := range evs {
					if e.kind == "other" {
						unknown = true
					}
				}
				if unknown {
					undecidedPaths++
					continue
				}
				complete++
				if letter < 0 {
					fail("a path returns without having written the exponent letter")
					if os.Getenv("DECVERIF_DEBUGF") != "" {
						for _, e := range o.St.Trace {
							println("  ev", e.String())
						}
					}
					continue
				}
				// the fraction: when fewer digits exist than asked for, zeros fill up
				if pc == 1 {
					point, zeros := false, int64(0)
					digits, digitsKnown := linConst(0), true
					for _, e := range evs[:letter] {
						switch {
						case e.kind == "byte" && e.b == '.':
							point = true
						case point && e.kind == "byte" && e.b == '0':
							zeros++
						case point && e.kind == "sym":
							if l, ok := sliceLen(e.s); ok {
								digits = digits.add(l, 1)
							} else {
								digitsKnown = false
							}
						case point:
							digitsKnown = false
						}
					}
					if !point {
						fail("no decimal point is written although digits after the point are asked for")
					} else if digitsKnown {
						total := digits.add(linConst(zeros), 1)
						if k, eq := all.ask(total.add(sym("P"), -1), token.EQL); k && !eq {
							fail(fmt.Sprintf("%s digits and %d filling zeros are written after the point where P are asked for (strconv pads with zeros: 1.50e+00 for %%.2e of 1.5)", digits, zeros))
							if os.Getenv("DECVERIF_DEBUGF") != "" {
								for _, e := range o.St.Trace {
									println("  ev", e.String())
								}
								for _, d := range o.St.Decs {
									println("  dec", d.Op.String(), cdai.Str(d.X), cdai.Str(d.Y), d.Taken)
								}
							}
						}
					}
				}
				// the exponent: sign, two digits at least, magnitude
				i := letter + 1
				if i >= len(evs) || evs[i].kind != "byte" || (evs[i].b != '+' && evs[i].b != '-') {
					fail("the exponent letter is not followed by a sign")
					continue
				}
				exm1 := sym("ex").add(linConst(1), -1)
				fsS := at(i)
				kz, isz, _ := known(fsS, sym("Lm"), token.LEQ) // no digits at all (never for a finite number, but the code provides for it)
				// the number has no digits on this path when the first byte written is the constant '0'
				// and not an element of the digit string: what the first digit did, the exponent does
				noDigits := len(evs) > 0 && evs[0].kind == "byte" && evs[0].b == '0'
				_, _ = kz, isz
				// the first digit is read from the digit string only where the string is known not to be empty
				if len(evs) > 0 && evs[0].kind == "sym" && strings.HasSuffix(evs[0].s, "[0]") {
					if l, ok := sliceLen(strings.TrimSuffix(evs[0].s, "[0]")); ok {
						fs0 := at(0)
						if k, has, _ := known(fs0, l.add(linConst(1), -1), token.GEQ); !(k && has) {
							fail("the first digit is read from the digit string on a path that does not know the string to be non-empty (zero has no digits)")
						}
					}
				}
				if noDigits {
					if j := letter + 2; j < len(evs) {
						if evs[j].kind == "byte" && evs[j].b == '0' {
							j++
						}
						if j < len(evs) && evs[j].kind == "int" {
							if k, ok := cdai.ConstInt(evs[j].arg); !ok || k != 0 {
								fail("a number without digits (zero) has the exponent 0: the exponent printed on that path is " + cdai.Str(evs[j].arg))
							}
						}
					}
					if evs[letter+1].b != '+' {
						fail("a number without digits (zero) prints e+00")
					}
				}
				if !noDigits {
					kn, ng, note := known(fsS, exm1, token.LSS)
					switch {
					case evs[i].b == '-' && !(kn && ng):
						fail("the exponent sign '-' is written on a path that does not know the exponent ex−1 to be negative" + note)
					case evs[i].b == '+' && !(kn && !ng):
						fail("the exponent sign '+' is written on a path that does not know the exponent ex−1 to be non-negative" + note)
					}
				}
				i++
				pad := false
				if i < len(evs) && evs[i].kind == "byte" && evs[i].b == '0' {
					pad = true
					i++
				}
				if i >= len(evs) || evs[i].kind != "int" {
					fail("the exponent sign is not followed by the exponent's digits")
					continue
				}
				mag, ok := linOf(evs[i].arg)
				if ok && !noDigits {
					fsI := at(i)
					want := exm1
					if evs[letter+1].b == '-' {
						want = exm1.scale(-1)
					}
					if k, eq := fsI.ask(mag.add(want, -1), token.EQL); k && !eq {
						fail(fmt.Sprintf("the exponent printed is %s; the number is d.ddd × 10**(ex−1), so its magnitude is %s", mag, want))
					}
					kn, small, note := known(fsI, mag.add(linConst(10), -1), token.LSS)
					switch {
					case pad && !(kn && small):
						fail("a leading 0 is put in front of an exponent that is not known to be below 10" + note)
					case !pad && !(kn && !small):
						fail("no leading 0 in front of an exponent that is not known to have two digits (strconv prints at least two: e+05)" + note)
					}
				}
			}
			if complete == 0 {
				m.Blind("FMTSHAPE %s: no path could be read to a return (%d write something the propagation does not know)", name, undecidedPaths)
				continue
			}
			if len(fails) > 0 {
				s.Bad(R, name, pos, fails[0], fails[1:]...)
			} else {
				s.Ok(R, name, pos, fmt.Sprintf("%d paths to a return", complete))
			}
		}
	}
	// ---- fmtB and fmtP
	for _, w := range []string{"fmtB", "fmtP"} {
		fn := m.TryLookup("(*Decimal)." + w)
		if fn == nil || m.TryLookup("(*Decimal).toa") == nil {
			continue
		}
		pos := m.Pos(fn.Pos())
		name := "(*Decimal)." + w + "/emit"
		ints := map[string]bool{"Lm": true, "Lt": true, "ex": true, "Q": true}
		st := cdai.NewState()
		x := mkX(st, en.finite)
		it := emitInterp(m, x, ints, false)
		outs, why := run(it, "(*Decimal)."+w, []cdai.Val{x, cdai.Sym{Name: "B"}}, st)
		if why != "" || len(outs) == 0 {
			m.Blind("FMTSHAPE %s: the constant propagation does not finish (%s)", name, why)
			continue
		}
		var fails []string
		fail := func(f string) {
			for _, g := range fails {
				if g == f {
					return
				}
			}
			if len(fails) < 4 {
				fails = append(fails, f)
			}
		}
		complete := 0
		expo := sym("ex")
		if w == "fmtB" {
			expo = sym("ex").add(sym("Q"), -1)
		}
		for _, o := range outs {
			if o.Kind != "return" || len(o.St.Imprec) > 0 {
				continue
			}
			all := factsOf(o.St.Decs)
			all.assume(sym("Lm").add(linConst(1), -1), token.GEQ)
			all.assume(sym("Q").add(linConst(1), -1), token.GEQ)
			if all.contradictory() {
				continue
			}
			evs := emitted(o.St)
			unknownTail := false
			for _, e := range evs {
				if e.kind == "other" {
					unknownTail = true
				}
			}
			_ = unknownTail
			complete++
			letter, ndig := -1, 0
			for i, e := range evs {
				switch {
				case e.kind == "byte" && e.b == 'e':
					if letter >= 0 {
						fail("the exponent letter is written twice")
					}
					letter = i
				case e.kind == "sym" && letter < 0 && strings.Contains(e.s, "mant"):
					ndig++
					if w == "fmtB" && strings.Contains(e.s, "[:") {
						// cut to the precision: only when the precision is known smaller than the digit count
						fs := factsOf(o.St.Decs[:e.nd])
						if k, lt, note := known(fs, sym("Q").add(sym("Lm"), -1), token.LEQ); !(k && lt) {
							fail("the digits are cut to the precision on a path that does not know the precision to be at most their number (slice out of range otherwise)" + note)
						}
					}
				}
			}
			if letter < 0 && unknownTail {
				complete--
				continue // the tail is written by something the propagation does not know
			}
			if letter < 0 {
				fail("a path returns without having written the exponent letter 'e' (Parse reads the b and p forms back through it)")
				continue
			}
			opaque := false
			for _, e := range evs[:letter] {
				if e.kind == "other" {
					opaque = true // something the propagation does not know is appended: may be the digits
				}
			}
			if ndig != 1 && !opaque {
				fail(fmt.Sprintf("the mantissa digits are written %d times in front of the exponent", ndig))
			}
			if w == "fmtP" {
				if len(evs) < 2 || evs[0].kind != "byte" || evs[0].b != '0' || evs[1].kind != "byte" || evs[1].b != '.' {
					fail("the p format starts with 0. (the mantissa is a fraction in [0.1, 1))")
				}
			}
			i := letter + 1
			plus := false
			if i < len(evs) && evs[i].kind == "byte" && evs[i].b == '+' {
				plus = true
				i++
			}
			if i >= len(evs) || evs[i].kind != "int" {
				fail("the exponent letter is not followed by the exponent")
				continue
			}
			fs := factsOf(o.St.Decs[:evs[i].nd])
			kn, nonneg, note := known(fs, expo, token.GEQ)
			switch {
			case plus && !(kn && nonneg):
				fail("a '+' is written in front of an exponent that is not known to be non-negative" + note)
			case !plus && !(kn && !nonneg):
				fail("no '+' in front of an exponent that is not known to be negative (strconv.AppendInt writes the '-' itself, the '+' must be added: e+0)" + note)
			}
			if l, ok := linOf(evs[i].arg); ok {
				if k, eq := fs.ask(l.add(expo, -1), token.EQL); k && !eq {
					fail(fmt.Sprintf("the exponent printed is %s; the digits written stand for a mantissa with exponent %s", l, expo))
				}
			}
		}
		if complete == 0 {
			m.Blind("FMTSHAPE %s: no path reaches a return within the loop bound", name)
			continue
		}
		if len(fails) > 0 {
			s.Bad(R, name, pos, fails[0], fails[1:]...)
		} else {
			s.Ok(R, name, pos, fmt.Sprintf("%d paths to a return", complete))
		}
	}
}

// sliceLen: the length of the opaque digit string "mant" after the slicings its name records
// (mant[:n][1:m] → m − 1), as a linear form over Lm = len(mant).
func sliceLen(name string) (linF, bool) {
	if name == "mant" {
		return linF{t: map[string]int64{"Lm": 1}}, true
	}
	if strings.HasPrefix(name, "trim(") && strings.HasSuffix(name, ")") {
		return linF{t: map[string]int64{"Lt": 1}}, true // the length after trimming: one more unknown
	}
	if !strings.HasSuffix(name, "]") {
		return linF{}, false
	}
	depth, open := 0, -1
	for i := len(name) - 1; i >= 0; i-- {
		switch name[i] {
		case ']', ')':
			depth++
		case '[', '(':
			depth--
			if depth == 0 && name[i] == '[' {
				open = i
			}
		}
		if open >= 0 {
			break
		}
	}
	if open <= 0 {
		return linF{}, false
	}
	base, ok := sliceLen(name[:open])
	if !ok {
		return linF{}, false
	}
	body := name[open+1 : len(name)-1]
	depth = 0
	cut := -1
	for i := 0; i < len(body); i++ {
		switch body[i] {
		case '(', '[':
			depth++
		case ')', ']':
			depth--
		case ':':
			if depth == 0 && cut < 0 {
				cut = i
			}
		}
	}
	if cut < 0 {
		return linF{}, false // an element, not a slice
	}
	parse := func(t string, def linF) (linF, bool) {
		if t == "" {
			return def, true
		}
		var v int64
		if _, err := fmt.Sscan(t, &v); err == nil && fmt.Sprint(v) == t {
			return linConst(v), true
		}
		return linOf(cdai.Sym{Name: t})
	}
	lo, ok1 := parse(body[:cut], linConst(0))
	hi, ok2 := parse(body[cut+1:], base)
	if !ok1 || !ok2 {
		return linF{}, false
	}
	return hi.add(lo, -1), true
}

// runWriteCount: the padding helper of Format writes `count` copies of its text, whatever way it
// batches them. It is evaluated by constant propagation (loops followed as far as they go with a
// constant count) for a one-byte text at counts around the usual block sizes; the lengths of the
// slices handed to Write must add up to count. A sample the propagation cannot finish is not
// decided.
func runWriteCount(m *model.Model, s *ob.Set) {
	const R = "FMTSHAPE"
	fn := m.TryLookup("writeMultiple")
	if fn == nil || len(fn.Params) != 3 {
		return
	}
	bad, undecided, n := "", 0, 0
	for _, cnt := range []int64{0, 1, 2, 3, 7, 8, 9, 15, 16, 17, 31, 32, 33, 63, 64, 65, 96, 100, 128, 129} {
		it := cdai.New(m)
		it.Budget = 200000
		it.LoopBound = 400
		it.Traced["invoke.Write"] = true
		var outs []cdai.Outcome
		func() {
			defer func() {
				if recover() != nil {
					outs = nil
				}
			}()
			outs = it.Run(fn, []cdai.Val{cdai.Sym{Name: "S"}, cdai.Const{V: constant.MakeString("x")}, cdai.Int(cnt)}, cdai.NewState())
		}()
		n++
		if len(outs) != 1 || outs[0].Kind != "return" || len(outs[0].St.Imprec) > 0 {
			undecided++
			continue
		}
		total, okAll := int64(0), true
		for _, ev := range outs[0].St.Trace {
			if ev.Fn != "invoke.Write" {
				continue
			}
			if len(ev.Args) != 2 {
				okAll = false
				continue
			}
			switch a := ev.Args[1].(type) {
			case cdai.Lit:
				total += int64(len(a))
			case cdai.Const:
				if a.V != nil {
					okAll = false
				}
			default:
				okAll = false
			}
		}
		if !okAll {
			undecided++
			continue
		}
		if total != cnt && bad == "" {
			bad = fmt.Sprintf("asked for %d copies of a one-byte text, %d byte(s) are written: the pieces handed to Write do not add up to the count (padding and sign of Format come out short or long)", cnt, total)
		}
	}
	cn := "writeMultiple/count"
	switch {
	case bad != "":
		s.Bad(R, cn, m.Pos(fn.Pos()), bad)
	case undecided == n:
		s.Note(R, cn, m.Pos(fn.Pos()), "the writes could not be added up at any sample count (not decided)")
	default:
		s.Ok(R, cn, m.Pos(fn.Pos()), fmt.Sprintf("at %d of %d sample counts the bytes written add up to the count", n-undecided, n))
	}
}

// runFmtFSamples: the %f layout at sample points. fmtF is evaluated by constant propagation for
// the digit string "73" at exponents around the usual block sizes and with 0 and 3 digits after
// the point; the bytes appended must be the positional notation of 0.73 × 10^e: the digits, zeros
// up to the point, the point and the fraction. A sample that cannot be followed is not decided.
func runFmtFSamples(m *model.Model, s *ob.Set) {
	const R = "FMTSHAPE"
	fn := m.TryLookup("(*Decimal).fmtF")
	if fn == nil || m.TryLookup("(*Decimal).toa") == nil {
		return
	}
	en := getEnums(m)
	digits := "73"
	bad, undecided, n := "", 0, 0
	for _, prec := range []int64{0, 3} {
		for _, e := range []int64{-2, -1, 0, 1, 2, 3, 9, 16, 17, 18, 31, 32, 33, 34, 35, 64, 65, 66, 67, 98, 130} {
			st := cdai.NewState()
			x := st.NewObj()
			for f := range m.FieldN {
				st.Set(x, f, cdai.TopV)
			}
			st.Set(x, m.F.Form, cdai.Int(en.finite))
			it := emitInterp(m, x, map[string]bool{}, false)
			it.LoopBound = 400
			it.Budget = 400000
			it.Models["(*Decimal).toa"] = func(*cdai.Interp, *cdai.State, string, []cdai.Val) ([]cdai.Val, bool) {
				l := cdai.Lit{}
				for i := 0; i < len(digits); i++ {
					l = append(l, cdai.Int(int64(digits[i])))
				}
				return []cdai.Val{cdai.Tuple{l, cdai.Int(e)}}, true
			}
			it.Models["(*Decimal).MinPrec"] = func(*cdai.Interp, *cdai.State, string, []cdai.Val) ([]cdai.Val, bool) {
				return []cdai.Val{cdai.Int(int64(len(digits)))}, true
			}
			delete(it.Opaque, "(*Decimal).MinPrec")
			var outs []cdai.Outcome
			func() {
				defer func() {
					if recover() != nil {
						outs = nil
					}
				}()
				outs = it.Run(fn, []cdai.Val{x, cdai.Sym{Name: "B"}, cdai.Int(prec)}, st)
			}()
			n++
			if len(outs) != 1 || outs[0].Kind != "return" || len(outs[0].St.Imprec) > 0 {
				undecided++
				continue
			}
			var got []byte
			okAll := true
			for _, ev := range emitted(outs[0].St) {
				switch ev.kind {
				case "byte":
					got = append(got, byte(ev.b))
				case "str":
					got = append(got, ev.s...)
				default:
					okAll = false
				}
			}
			if !okAll {
				undecided++
				continue
			}
			var want []byte
			if e > 0 {
				for i := int64(0); i < e; i++ {
					if i < int64(len(digits)) {
						want = append(want, digits[i])
					} else {
						want = append(want, '0')
					}
				}
			} else {
				want = append(want, '0')
			}
			if prec > 0 {
				want = append(want, '.')
				for i := int64(0); i < prec; i++ {
					if k := e + i; k >= 0 && k < int64(len(digits)) {
						want = append(want, digits[k])
					} else {
						want = append(want, '0')
					}
				}
			}
			if string(got) != string(want) && bad == "" {
				g, w := string(got), string(want)
				if len(g) > 40 {
					g = fmt.Sprintf("%s… (%d bytes)", g[:12], len(g))
				}
				if len(w) > 40 {
					w = fmt.Sprintf("%s… (%d bytes)", w[:12], len(w))
				}
				bad = fmt.Sprintf("0.%s × 10^%d with %d digit(s) after the point is written as %q; its positional notation is %q", digits, e, prec, g, w)
			}
		}
	}
	cn := "(*Decimal).fmtF/layout-samples"
	switch {
	case bad != "":
		s.Bad(R, cn, m.Pos(fn.Pos()), bad)
	case undecided == n:
		s.Note(R, cn, m.Pos(fn.Pos()), "no sample could be followed to its end (not decided)")
	default:
		s.Ok(R, cn, m.Pos(fn.Pos()), fmt.Sprintf("%d of %d samples write the positional notation of the value", n-undecided, n))
	}
}
