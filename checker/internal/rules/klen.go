package rules

// KLEN — the decimal vector kernels run over the length of their destination (the assembly
// versions look at len(z) only; the portable ones at the shorter of the two): a source that is
// definitely shorter than the destination is read past its end by the one and silently truncates
// the operation in the other. Lengths are written as linear forms over the lengths of the
// function's parameters (a slice expression subtracts its bounds, dec.make(n) has length n); a
// call is a violation only when source − destination is a negative constant.

import (
	"fmt"
	"go/token"
	"sort"
	"strings"

	"golang.org/x/tools/go/ssa"

	"decverif/internal/model"
	"decverif/internal/ob"
)

func init() {
	Register(&Rule{Name: "KLEN", Floor: 5, Run: runKLen,
		Doc: "no source vector handed to a decimal vector kernel is definitely shorter than the destination (lengths as linear forms over parameter lengths, slice bounds and make sizes)"})
}

type klin struct {
	t map[string]int64
	c int64
}

func (a klin) add(b klin, s int64) klin {
	r := klin{t: map[string]int64{}, c: a.c + s*b.c}
	for k, v := range a.t {
		r.t[k] += v
	}
	for k, v := range b.t {
		r.t[k] += s * v
	}
	for k, v := range r.t {
		if v == 0 {
			delete(r.t, k)
		}
	}
	return r
}

func runKLen(m *model.Model, s *ob.Set) {
	const R = "KLEN"
	vecKernels := map[string][]int{ // destination 0; indexes of the source vectors
		"add10VV": {1, 2}, "sub10VV": {1, 2}, "add10VW": {1}, "sub10VW": {1}, "shl10VU": {1}, "shr10VU": {1},
		"mulAdd10VWW": {1}, "addMul10VVW": {1}, "div10VWW": {1},
	}
	var intLin func(v ssa.Value, d int) klin
	var lenLin func(v ssa.Value, d int) klin
	atom := func(prefix string, v ssa.Value) klin {
		return klin{t: map[string]int64{fmt.Sprintf("%s%p", prefix, v): 1}}
	}
	intLin = func(v ssa.Value, d int) klin {
		if k, ok := model.ConstInt(v); ok {
			return klin{t: map[string]int64{}, c: k}
		}
		if d > 0 {
			switch x := v.(type) {
			case *ssa.BinOp:
				switch x.Op {
				case token.ADD:
					return intLin(x.X, d-1).add(intLin(x.Y, d-1), 1)
				case token.SUB:
					return intLin(x.X, d-1).add(intLin(x.Y, d-1), -1)
				}
			case *ssa.Convert:
				return intLin(x.X, d-1)
			case *ssa.ChangeType:
				return intLin(x.X, d-1)
			case *ssa.Call:
				if model.BuiltinName(&x.Call) == "len" {
					return lenLin(x.Call.Args[0], d-1)
				}
			}
		}
		return atom("v", v)
	}
	lenLin = func(v ssa.Value, d int) klin {
		if d > 0 {
			switch x := v.(type) {
			case *ssa.Slice:
				hi := klin{}
				if x.High != nil {
					hi = intLin(x.High, d-1)
				} else {
					hi = lenLin(x.X, d-1)
				}
				if x.Low != nil {
					return hi.add(intLin(x.Low, d-1), -1)
				}
				return hi
			case *ssa.Convert:
				return lenLin(x.X, d-1)
			case *ssa.ChangeType:
				return lenLin(x.X, d-1)
			case *ssa.Call:
				if cal := model.Unthunk(x.Call.StaticCallee()); cal != nil && m.FuncName(cal) == "dec.make" && len(x.Call.Args) == 2 {
					return intLin(x.Call.Args[1], d-1)
				}
			}
		}
		return atom("len", v)
	}
	type site struct {
		fn  string
		pos string
		bad string
	}
	var sites []site
	for _, fn := range m.Funcs {
		if !m.InDecimalPkg(fn) || len(fn.Blocks) == 0 || inKernelLayer(m, fn) {
			continue
		}
		live := m.Live(fn)
		for _, b := range fn.Blocks {
			if !live[b.Index] {
				continue
			}
			for _, in := range b.Instrs {
				cal, c := model.Callee(in)
				if cal == nil || !m.InDecimalPkg(cal) {
					continue
				}
				nm := strings.TrimSuffix(cal.Name(), "_g")
				srcs, ok := vecKernels[nm]
				if !ok || len(c.Args) < 2 {
					continue
				}
				dst := lenLin(c.Args[0], 6)
				bad := ""
				for _, si := range srcs {
					if si >= len(c.Args) {
						continue
					}
					d := lenLin(c.Args[si], 6).add(dst, -1)
					if len(d.t) == 0 && d.c < 0 {
						bad = fmt.Sprintf("%s: source vector %d of %s is %d word(s) shorter than the destination: the assembly kernel reads past its end (and takes what lies there for a word of the operand), the portable one stops early", m.InstrPos(in), si, nm, -d.c)
					}
				}
				sites = append(sites, site{m.FuncName(fn), m.InstrPos(in), bad})
			}
		}
	}
	by := map[string][]site{}
	for _, st := range sites {
		by[st.fn] = append(by[st.fn], st)
	}
	var fns []string
	for f := range by {
		fns = append(fns, f)
	}
	sort.Strings(fns)
	for _, f := range fns {
		bad := ""
		for _, st := range by[f] {
			if st.bad != "" && bad == "" {
				bad = st.bad
			}
		}
		s.Check(bad == "", R, f, by[f][0].pos, fmt.Sprintf("%d kernel call(s), no source definitely shorter than its destination", len(by[f])), bad)
	}
}
