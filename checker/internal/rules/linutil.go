package rules

// Linear forms over named opaque integers for the E4 table rules: a BinHook that keeps
// `e2 - fp`, `1 + P`, `D - E - 1` as values instead of ⊤, and the reading of a path's recorded
// comparisons (cdai.Decision) as intervals of such forms. Nothing is solved: a question about a
// form is answered only from comparisons of that very form that the path took.

import (
	"fmt"
	"go/token"
	"go/types"
	"math"
	"sort"
	"strconv"
	"strings"

	"golang.org/x/tools/go/ssa"

	"decverif/internal/cdai"
)

type linF struct {
	t map[string]int64
	c int64
}

func linConst(c int64) linF { return linF{t: map[string]int64{}, c: c} }

// linOf reads an abstract value as a linear form (constants and symbols; "lin(…)" symbols are
// forms built by the hook).
func linOf(v cdai.Val) (linF, bool) {
	if k, ok := cdai.ConstInt(v); ok {
		return linConst(k), true
	}
	sy, ok := v.(cdai.Sym)
	if !ok {
		return linF{}, false
	}
	if !strings.HasPrefix(sy.Name, "lin(") {
		return linF{t: map[string]int64{sy.Name: 1}}, true
	}
	l := linConst(0)
	body := strings.TrimSuffix(strings.TrimPrefix(sy.Name, "lin("), ")")
	for _, part := range strings.Split(body, " ") {
		if part == "" {
			continue
		}
		if i := strings.Index(part, "*"); i > 0 {
			k, err := strconv.ParseInt(part[:i], 10, 64)
			if err != nil {
				return linF{}, false
			}
			l.t[part[i+1:]] += k
		} else {
			k, err := strconv.ParseInt(part, 10, 64)
			if err != nil {
				return linF{}, false
			}
			l.c += k
		}
	}
	return l, true
}

func (l linF) terms() string {
	var names []string
	for n, k := range l.t {
		if k != 0 {
			names = append(names, n)
		}
	}
	sort.Strings(names)
	var p []string
	for _, n := range names {
		p = append(p, fmt.Sprintf("%d*%s", l.t[n], n))
	}
	return strings.Join(p, " ")
}

func (l linF) isConst() bool { return l.terms() == "" }

func (l linF) String() string {
	t := l.terms()
	if t == "" {
		return fmt.Sprint(l.c)
	}
	// readable: e2 - fp + 1
	var names []string
	for n, k := range l.t {
		if k != 0 {
			names = append(names, n)
		}
	}
	sort.Strings(names)
	var sb strings.Builder
	for i, n := range names {
		k := l.t[n]
		switch {
		case k == 1 && i == 0:
			sb.WriteString(n)
		case k == 1:
			sb.WriteString(" + " + n)
		case k == -1 && i == 0:
			sb.WriteString("-" + n)
		case k == -1:
			sb.WriteString(" - " + n)
		case k < 0:
			fmt.Fprintf(&sb, " - %d*%s", -k, n)
		default:
			if i > 0 {
				sb.WriteString(" + ")
			}
			fmt.Fprintf(&sb, "%d*%s", k, n)
		}
	}
	switch {
	case l.c > 0:
		fmt.Fprintf(&sb, " + %d", l.c)
	case l.c < 0:
		fmt.Fprintf(&sb, " - %d", -l.c)
	}
	return sb.String()
}

func (l linF) val() cdai.Val {
	t := l.terms()
	if t == "" {
		return cdai.Int(l.c)
	}
	if l.c == 0 {
		n := 0
		var only string
		for nm, k := range l.t {
			if k != 0 {
				n++
				only = nm
			}
		}
		if n == 1 && l.t[only] == 1 {
			return cdai.Sym{Name: only}
		}
	}
	if l.c != 0 {
		t += " " + fmt.Sprint(l.c)
	}
	return cdai.Sym{Name: "lin(" + t + ")"}
}

func (l linF) add(o linF, sign int64) linF {
	r := linConst(l.c + sign*o.c)
	for n, k := range l.t {
		r.t[n] += k
	}
	for n, k := range o.t {
		r.t[n] += sign * k
	}
	return r
}

func (l linF) scale(f int64) linF {
	r := linConst(l.c * f)
	for n, k := range l.t {
		r.t[n] = k * f
	}
	return r
}

func (l linF) equal(o linF) bool { d := l.add(o, -1); return d.isConst() && d.c == 0 }

// linHook: the BinHook. isInt tells which symbols are integers (others are left alone).
func linHook(isInt func(name string) bool, next func(op token.Token, x, y cdai.Val) (cdai.Val, bool)) func(op token.Token, x, y cdai.Val) (cdai.Val, bool) {
	intLike := func(v cdai.Val) (linF, bool) {
		l, ok := linOf(v)
		if !ok {
			return l, false
		}
		for n, k := range l.t {
			if k != 0 && !isInt(n) {
				return l, false
			}
		}
		return l, true
	}
	return func(op token.Token, x, y cdai.Val) (cdai.Val, bool) {
		if next != nil {
			if v, ok := next(op, x, y); ok {
				return v, true
			}
		}
		lx, okx := intLike(x)
		ly, oky := intLike(y)
		if !okx || !oky || (lx.isConst() && ly.isConst()) {
			return nil, false
		}
		switch op {
		case token.ADD:
			return lx.add(ly, 1).val(), true
		case token.SUB:
			return lx.add(ly, -1).val(), true
		case token.MUL:
			if lx.isConst() {
				return ly.scale(lx.c).val(), true
			}
			if ly.isConst() {
				return lx.scale(ly.c).val(), true
			}
		case token.EQL, token.NEQ, token.LSS, token.LEQ, token.GTR, token.GEQ:
			d := lx.add(ly, -1)
			if d.isConst() {
				return cdai.Bool(cmpInt(d.c, op, 0)), true
			}
		}
		return nil, false
	}
}

func cmpInt(a int64, op token.Token, b int64) bool {
	switch op {
	case token.EQL:
		return a == b
	case token.NEQ:
		return a != b
	case token.LSS:
		return a < b
	case token.LEQ:
		return a <= b
	case token.GTR:
		return a > b
	case token.GEQ:
		return a >= b
	}
	return false
}

var negOp = map[token.Token]token.Token{token.EQL: token.NEQ, token.NEQ: token.EQL, token.LSS: token.GEQ, token.GEQ: token.LSS, token.GTR: token.LEQ, token.LEQ: token.GTR}
var mirrorOpTok = map[token.Token]token.Token{token.EQL: token.EQL, token.NEQ: token.NEQ, token.LSS: token.GTR, token.GTR: token.LSS, token.LEQ: token.GEQ, token.GEQ: token.LEQ}

// linFacts: what the comparisons a path took say about each linear form (keyed by its terms, with
// a positive leading coefficient): an interval and excluded points.
type linFact struct {
	lo, hi int64
	ne     map[int64]bool
}

type linFacts map[string]*linFact

func factsOf(decs []cdai.Decision) linFacts {
	fs := linFacts{}
	for _, d := range decs {
		op, ok := negOp[d.Op]
		if !ok {
			continue
		}
		op = d.Op
		if !d.Taken {
			op = negOp[d.Op]
		}
		lx, okx := linOf(d.X)
		ly, oky := linOf(d.Y)
		if !okx || !oky {
			continue
		}
		fs.assume(lx.add(ly, -1), op)
	}
	return fs
}

// normal: l op 0  →  (terms with positive leading coefficient) op' k
func linNormal(l linF, op token.Token) (string, token.Token, int64, bool) {
	if l.isConst() {
		return "", op, 0, false
	}
	var names []string
	for n, k := range l.t {
		if k != 0 {
			names = append(names, n)
		}
	}
	sort.Strings(names)
	k := -l.c
	if l.t[names[0]] < 0 {
		l = l.scale(-1)
		op = mirrorOpTok[op]
		k = -k
	}
	return l.terms(), op, k, true
}

func (fs linFacts) assume(l linF, op token.Token) {
	key, op, k, ok := linNormal(l, op)
	if !ok {
		return
	}
	f := fs[key]
	if f == nil {
		f = &linFact{lo: math.MinInt64, hi: math.MaxInt64, ne: map[int64]bool{}}
		fs[key] = f
	}
	switch op {
	case token.EQL:
		if k > f.lo {
			f.lo = k
		}
		if k < f.hi {
			f.hi = k
		}
	case token.NEQ:
		f.ne[k] = true
	case token.LSS:
		if k-1 < f.hi {
			f.hi = k - 1
		}
	case token.LEQ:
		if k < f.hi {
			f.hi = k
		}
	case token.GTR:
		if k+1 > f.lo {
			f.lo = k + 1
		}
	case token.GEQ:
		if k > f.lo {
			f.lo = k
		}
	}
	for f.lo <= f.hi && f.ne[f.lo] {
		f.lo++
	}
	for f.hi >= f.lo && f.ne[f.hi] {
		f.hi--
	}
}

// ask: does the path know  l op 0 ?  (known, answer)
func (fs linFacts) ask(l linF, op token.Token) (bool, bool) {
	if k, a := fs.askKey(l, op); k {
		return true, a
	}
	return fs.askZone(l, op)
}

// askKey answers from the comparisons of that very form.
func (fs linFacts) askKey(l linF, op token.Token) (bool, bool) {
	if l.isConst() {
		return true, cmpInt(l.c, op, 0)
	}
	key, op, k, _ := linNormal(l, op)
	f := fs[key]
	if f == nil {
		return false, false
	}
	if f.lo > f.hi {
		return false, false // contradictory: not a path of the program
	}
	switch op {
	case token.EQL:
		if f.lo == k && f.hi == k {
			return true, true
		}
		if k < f.lo || k > f.hi || f.ne[k] {
			return true, false
		}
	case token.NEQ:
		kn, a := fs.askNKey(key, token.EQL, k)
		return kn, !a
	case token.LSS:
		if f.hi < k {
			return true, true
		}
		if f.lo >= k {
			return true, false
		}
	case token.LEQ:
		if f.hi <= k {
			return true, true
		}
		if f.lo > k {
			return true, false
		}
	case token.GTR:
		kn, a := fs.askNKey(key, token.LEQ, k)
		return kn, !a
	case token.GEQ:
		kn, a := fs.askNKey(key, token.LSS, k)
		return kn, !a
	}
	return false, false
}

func (fs linFacts) askNKey(key string, op token.Token, k int64) (bool, bool) {
	l := linConst(-k)
	for _, part := range strings.Split(key, " ") {
		i := strings.Index(part, "*")
		c, _ := strconv.ParseInt(part[:i], 10, 64)
		l.t[part[i+1:]] = c
	}
	return fs.askKey(l, op)
}

// contradictory: some form has an empty interval, or the difference constraints among the
// unknowns have no solution (the path took edges no run can take together).
func (fs linFacts) contradictory() bool {
	for _, f := range fs {
		if f.lo > f.hi {
			return true
		}
	}
	z := fs.zone()
	for i := range z.d {
		if z.d[i][i] < 0 {
			return true
		}
	}
	return false
}

// zone: the facts about single unknowns and about differences of two unknowns, as a closed
// difference-bound matrix (d[i][j] bounds x_i − x_j from above; node 0 is the constant 0). This is
// the classical zone domain: what follows from  a − b ≥ 1  and  b − c ≥ 0  about  a − c  is read
// off the shortest paths; forms of any other shape are not combined.
type zoneM struct {
	idx map[string]int
	d   [][]int64
}

const zInf = math.MaxInt64 / 4

func (fs linFacts) zone() *zoneM {
	z := &zoneM{idx: map[string]int{"": 0}}
	type cons struct {
		a, b string
		c    int64
	}
	var cs []cons
	node := func(n string) {
		if _, ok := z.idx[n]; !ok {
			z.idx[n] = len(z.idx)
		}
	}
	for key, f := range fs {
		parts := strings.Split(key, " ")
		var a, b string
		switch len(parts) {
		case 1:
			if !strings.HasPrefix(parts[0], "1*") {
				continue
			}
			a = parts[0][2:]
		case 2:
			if !strings.HasPrefix(parts[0], "1*") || !strings.HasPrefix(parts[1], "-1*") {
				continue
			}
			a, b = parts[0][2:], parts[1][3:]
		default:
			continue
		}
		node(a)
		node(b)
		if f.hi != math.MaxInt64 {
			cs = append(cs, cons{a, b, f.hi})
		}
		if f.lo != math.MinInt64 {
			cs = append(cs, cons{b, a, -f.lo})
		}
	}
	n := len(z.idx)
	z.d = make([][]int64, n)
	for i := range z.d {
		z.d[i] = make([]int64, n)
		for j := range z.d[i] {
			if i != j {
				z.d[i][j] = zInf
			}
		}
	}
	for _, c := range cs {
		i, j := z.idx[c.a], z.idx[c.b]
		if c.c < z.d[i][j] {
			z.d[i][j] = c.c
		}
	}
	for k := 0; k < n; k++ {
		for i := 0; i < n; i++ {
			if z.d[i][k] >= zInf {
				continue
			}
			for j := 0; j < n; j++ {
				if z.d[k][j] >= zInf {
					continue
				}
				if v := z.d[i][k] + z.d[k][j]; v < z.d[i][j] {
					z.d[i][j] = v
				}
			}
		}
	}
	return z
}

// askZone: l op 0 for l = a − b + c or ±a + c, from the closed difference constraints.
func (fs linFacts) askZone(l linF, op token.Token) (bool, bool) {
	var names []string
	for n, k := range l.t {
		if k != 0 {
			names = append(names, n)
		}
	}
	sort.Strings(names)
	var a, b string
	switch {
	case len(names) == 1 && l.t[names[0]] == 1:
		a = names[0]
	case len(names) == 1 && l.t[names[0]] == -1:
		b = names[0]
	case len(names) == 2 && l.t[names[0]] == 1 && l.t[names[1]] == -1:
		a, b = names[0], names[1]
	case len(names) == 2 && l.t[names[0]] == -1 && l.t[names[1]] == 1:
		a, b = names[1], names[0]
	default:
		return false, false
	}
	z := fs.zone()
	i, oki := z.idx[a]
	j, okj := z.idx[b]
	if !oki || !okj {
		return false, false
	}
	for k := range z.d {
		if z.d[k][k] < 0 {
			return false, false
		}
	}
	// a − b in [lo, hi]; the question is (a − b) + c op 0
	hi, lo := int64(math.MaxInt64), int64(math.MinInt64)
	if z.d[i][j] < zInf {
		hi = z.d[i][j]
	}
	if z.d[j][i] < zInf {
		lo = -z.d[j][i]
	}
	k := -l.c
	switch op {
	case token.EQL:
		if lo == k && hi == k {
			return true, true
		}
		if k < lo || k > hi {
			return true, false
		}
	case token.NEQ:
		if lo == k && hi == k {
			return true, false
		}
		if k < lo || k > hi {
			return true, true
		}
	case token.LSS:
		if hi != math.MaxInt64 && hi < k {
			return true, true
		}
		if lo != math.MinInt64 && lo >= k {
			return true, false
		}
	case token.LEQ:
		if hi != math.MaxInt64 && hi <= k {
			return true, true
		}
		if lo != math.MinInt64 && lo > k {
			return true, false
		}
	case token.GTR:
		if lo != math.MinInt64 && lo > k {
			return true, true
		}
		if hi != math.MaxInt64 && hi <= k {
			return true, false
		}
	case token.GEQ:
		if lo != math.MinInt64 && lo >= k {
			return true, true
		}
		if hi != math.MaxInt64 && hi < k {
			return true, false
		}
	}
	return false, false
}

// linStHook: a comparison of linear forms that the path's own earlier comparisons already answer
// is not forked on again (seed adds what is known about the unknowns from the start).
func linStHook(isInt func(name string) bool, seed func(fs linFacts)) func(st *cdai.State, op token.Token, x, y cdai.Val) (cdai.Val, bool) {
	return func(st *cdai.State, op token.Token, x, y cdai.Val) (cdai.Val, bool) {
		if _, isCmp := negOp[op]; !isCmp {
			return nil, false
		}
		lx, okx := linOf(x)
		ly, oky := linOf(y)
		if !okx || !oky {
			return nil, false
		}
		d := lx.add(ly, -1)
		if d.isConst() {
			return nil, false
		}
		for n, k := range d.t {
			if k != 0 && !isInt(n) {
				return nil, false
			}
		}
		fs := factsOf(st.Decs)
		if seed != nil {
			seed(fs)
		}
		if k, a := fs.ask(d, op); k {
			return cdai.Bool(a), true
		}
		return nil, false
	}
}

// pureHelpers: package-level functions of the decimal package that take and return only scalars
// and errors and call nothing: interpreted like the code they were split from.
func pureHelpers(it *cdai.Interp) {
	for _, fn := range it.M.Funcs {
		if !it.M.InDecimalPkg(fn) || fn.Signature.Recv() != nil || len(fn.Blocks) == 0 || len(fn.Blocks) > 12 || fn.Parent() != nil {
			continue
		}
		ok := true
		chk := func(t types.Type) {
			switch u := t.Underlying().(type) {
			case *types.Basic:
			case *types.Interface:
				if t.String() != "error" {
					ok = false
				}
				_ = u
			default:
				ok = false
			}
		}
		for i := 0; i < fn.Signature.Params().Len(); i++ {
			chk(fn.Signature.Params().At(i).Type())
		}
		for i := 0; i < fn.Signature.Results().Len(); i++ {
			chk(fn.Signature.Results().At(i).Type())
		}
		if !ok || fn.Signature.Params().Len() == 0 {
			continue
		}
		for _, b := range fn.Blocks {
			for _, in := range b.Instrs {
				if _, isCall := in.(ssa.CallInstruction); isCall {
					ok = false
				}
			}
		}
		if ok {
			it.Inline[it.M.FuncName(fn)] = true
		}
	}
}

func (fs linFacts) clone() linFacts {
	n := linFacts{}
	for k, f := range fs {
		c := &linFact{lo: f.lo, hi: f.hi, ne: map[int64]bool{}}
		for p := range f.ne {
			c.ne[p] = true
		}
		n[k] = c
	}
	return n
}

// splittable: the form is a single unknown or a difference of two, and no fact of another shape
// (a sum, three unknowns, other coefficients) mentions its unknowns — the satisfiability test of
// the zone then speaks for everything the path knows about them.
func (fs linFacts) splittable(l linF) bool {
	var names []string
	for n, k := range l.t {
		if k != 0 {
			if k != 1 && k != -1 {
				return false
			}
			names = append(names, n)
		}
	}
	if len(names) == 0 || len(names) > 2 || (len(names) == 2 && l.t[names[0]] == l.t[names[1]]) {
		return false
	}
	for key := range fs {
		parts := strings.Split(key, " ")
		zoneShaped := (len(parts) == 1 && strings.HasPrefix(parts[0], "1*")) || (len(parts) == 2 && strings.HasPrefix(parts[0], "1*") && strings.HasPrefix(parts[1], "-1*"))
		if zoneShaped {
			continue
		}
		for _, pt := range parts {
			if i := strings.Index(pt, "*"); i >= 0 {
				for _, n := range names {
					if pt[i+1:] == n {
						return false
					}
				}
			}
		}
	}
	return true
}
