package rules

// FMTSHAPE fmtB/digit-count — the 'b' format prints the mantissa as an integer of exactly prec
// digits followed by the exponent exp − prec. Whatever quantity Q the function subtracts from the
// exponent it prints, the number of mantissa digits in front of it has to be exactly Q: digits
// beyond Q are cut, and a mantissa that comes back shorter (toa strips low zero words, and raising
// the precision does not grow the mantissa) is padded with zeros up to Q. Without the padding the
// text denotes value·10^(missing digits − …), a different number.

import (
	"fmt"
	"go/constant"
	"go/token"

	"golang.org/x/tools/go/ssa"

	"decverif/internal/model"
	"decverif/internal/ob"
)

func runFmtBShape(m *model.Model, s *ob.Set) {
	const R = "FMTSHAPE"
	fn := m.TryLookup("(*Decimal).fmtB")
	c := "(*Decimal).fmtB/digit-count"
	if fn == nil {
		s.Note(R, c, "-", "fmtB not found (not decided)")
		return
	}
	live := m.Live(fn)
	// Q: what is subtracted from the exponent that is printed (argument of AppendInt/FormatInt)
	var q ssa.Value
	for _, b := range fn.Blocks {
		if !live[b.Index] {
			continue
		}
		for _, in := range b.Instrs {
			call, ok := in.(*ssa.Call)
			if !ok {
				continue
			}
			cal := model.Unthunk(call.Call.StaticCallee())
			if cal == nil || cal.Pkg == nil || cal.Pkg.Pkg.Path() != "strconv" {
				continue
			}
			for _, a := range call.Call.Args {
				if bo, ok := stripConv(a).(*ssa.BinOp); ok && bo.Op == token.SUB {
					q = stripConv(bo.Y)
				}
			}
		}
	}
	if q == nil {
		s.Note(R, c, m.Pos(fn.Pos()), "the exponent printed is not of the form e − Q (written some other way; not decided)")
		return
	}
	sameQ := func(v ssa.Value) bool {
		v = stripConv(v)
		return v == q || structEq(v, q, 4) || exprKey(m, v, 4) == exprKey(m, q, 4)
	}
	// (1) a cut m[:Q]; (2) a loop that appends '0' and is bounded by Q
	cut, pad := false, false
	for _, b := range fn.Blocks {
		if !live[b.Index] {
			continue
		}
		for _, in := range b.Instrs {
			if sl, ok := in.(*ssa.Slice); ok && sl.High != nil && sameQ(sl.High) && isByteSlice(sl.X.Type()) {
				cut = true
			}
		}
		if len(b.Instrs) == 0 || !blockReaches(b, b) {
			continue
		}
		ifi, ok := b.Instrs[len(b.Instrs)-1].(*ssa.If)
		if !ok {
			continue
		}
		bo, ok := ifi.Cond.(*ssa.BinOp)
		if !ok {
			continue
		}
		// the loop bound is Q, or a count computed from Q (n := Q - len(m); for ; n > 0; n--)
		var fromQ func(v ssa.Value, d int, seen map[ssa.Value]bool) bool
		fromQ = func(v ssa.Value, d int, seen map[ssa.Value]bool) bool {
			if sameQ(v) {
				return true
			}
			if d == 0 || seen[v] {
				return false
			}
			seen[v] = true
			switch x := stripConv(v).(type) {
			case *ssa.BinOp:
				return fromQ(x.X, d-1, seen) || fromQ(x.Y, d-1, seen)
			case *ssa.Phi:
				for _, e := range x.Edges {
					if fromQ(e, d-1, seen) {
						return true
					}
				}
			}
			return false
		}
		if !fromQ(bo.X, 5, map[ssa.Value]bool{}) && !fromQ(bo.Y, 5, map[ssa.Value]bool{}) {
			continue
		}
		// the loop body appends the byte '0'
		for _, lb := range fn.Blocks {
			if !(lb == b || (m.Dominates(b, lb) && blockReaches(lb, b))) {
				continue
			}
			for _, in := range lb.Instrs {
				call, ok := in.(*ssa.Call)
				if !ok || model.BuiltinName(&call.Call) != "append" {
					continue
				}
				if appendsByteConst(call, '0') {
					pad = true
				}
			}
		}
	}
	// a padding written in blocks: append(buf, zeros[:n]...) with zeros a constant string of '0'
	// and n computed from Q
	if !pad {
		var fromQ2 func(v ssa.Value, d int, seen map[ssa.Value]bool) bool
		fromQ2 = func(v ssa.Value, d int, seen map[ssa.Value]bool) bool {
			if sameQ(v) {
				return true
			}
			if d == 0 || seen[v] {
				return false
			}
			seen[v] = true
			switch x := stripConv(v).(type) {
			case *ssa.BinOp:
				return fromQ2(x.X, d-1, seen) || fromQ2(x.Y, d-1, seen)
			case *ssa.Phi:
				for _, e := range x.Edges {
					if fromQ2(e, d-1, seen) {
						return true
					}
				}
			}
			return false
		}
		allZeros := func(v ssa.Value) bool {
			k, ok := v.(*ssa.Const)
			if !ok || k.Value == nil || k.Value.Kind() != constant.String {
				return false
			}
			sv := constant.StringVal(k.Value)
			if sv == "" {
				return false
			}
			for i := 0; i < len(sv); i++ {
				if sv[i] != '0' {
					return false
				}
			}
			return true
		}
		for _, b := range fn.Blocks {
			if !live[b.Index] {
				continue
			}
			for _, in := range b.Instrs {
				call, ok := in.(*ssa.Call)
				if !ok || model.BuiltinName(&call.Call) != "append" || len(call.Call.Args) != 2 {
					continue
				}
				if sl, ok := call.Call.Args[1].(*ssa.Slice); ok && allZeros(sl.X) && sl.High != nil && fromQ2(sl.High, 8, map[ssa.Value]bool{}) {
					pad = true
				}
			}
		}
	}
	// a padding written without a loop: a helper called with Q − len(digits)
	if !pad {
		for _, b := range fn.Blocks {
			if !live[b.Index] {
				continue
			}
			for _, in := range b.Instrs {
				call, ok := in.(*ssa.Call)
				if !ok || model.BuiltinName(&call.Call) != "" {
					continue
				}
				for _, a := range call.Call.Args {
					if bo, ok := stripConv(a).(*ssa.BinOp); ok && bo.Op == token.SUB && sameQ(bo.X) {
						pad = true
					}
				}
			}
		}
	}
	switch {
	case cut && pad:
		s.Ok(R, c, m.Pos(fn.Pos()), "the digits in front of the exponent e − Q are cut to Q and padded with zeros up to Q")
	case !pad:
		s.Bad(R, c, m.Pos(fn.Pos()), fmt.Sprintf("fmtB prints the exponent e − %s but does not pad the mantissa digits with zeros up to that count: a mantissa shorter than the precision (low zero words stripped by toa, precision raised after the value was set) is printed with too few digits and the text denotes another value", exprKey(m, q, 3)))
	default:
		s.Bad(R, c, m.Pos(fn.Pos()), fmt.Sprintf("fmtB prints the exponent e − %s but does not cut the mantissa digits to that count", exprKey(m, q, 3)))
	}
}

// appendsByteConst: append(buf, c) for the byte constant c (go/ssa builds a one-element array).
func appendsByteConst(call *ssa.Call, c byte) bool {
	if len(call.Call.Args) != 2 {
		return false
	}
	sl, ok := call.Call.Args[1].(*ssa.Slice)
	if !ok {
		return false
	}
	al, ok := sl.X.(*ssa.Alloc)
	if !ok || al.Referrers() == nil {
		return false
	}
	for _, u := range *al.Referrers() {
		ia, ok := u.(*ssa.IndexAddr)
		if !ok || ia.Referrers() == nil {
			continue
		}
		for _, u2 := range *ia.Referrers() {
			if st, ok := u2.(*ssa.Store); ok {
				if k, ok := model.ConstInt(st.Val); ok && k == int64(c) {
					return true
				}
			}
		}
	}
	return false
}
