package rules

// E9 — GOB: (*Decimal).GobDecode as a parser of untrusted bytes.

import (
	"fmt"
	"go/constant"
	"go/token"
	"go/types"
	"sort"
	"strings"

	"golang.org/x/tools/go/ssa"

	"decverif/internal/model"
	"decverif/internal/ob"
)

func init() {
	Register(&Rule{Name: "GOB", Floor: 10, Run: runGob,
		Doc: "GobDecode reads no byte beyond a length it has checked, validates every decoded attribute and the decoded mantissa before storing them, agrees with GobEncode on the layout, restores precision and mode of a receiver whose precision was not 0, and tests the version before decoding"})
}

func isErrorReturnBlock(b *ssa.BasicBlock) bool {
	if len(b.Instrs) == 0 {
		return false
	}
	r, ok := b.Instrs[len(b.Instrs)-1].(*ssa.Return)
	if !ok || len(r.Results) == 0 {
		return false
	}
	last := r.Results[len(r.Results)-1]
	if !types.Identical(last.Type(), types.Universe.Lookup("error").Type()) {
		return false
	}
	if c, ok := last.(*ssa.Const); ok && c.IsNil() {
		return false
	}
	return true
}

func isLenOf(v ssa.Value, of ssa.Value) bool {
	c, ok := v.(*ssa.Call)
	if !ok || model.BuiltinName(&c.Call) != "len" {
		return false
	}
	return c.Call.Args[0] == of
}

// dependsOn: v is computed from target (through unary/binary operators, conversions, calls, loads of elements).
func dependsOn(v, target ssa.Value, depth int) bool {
	if v == target {
		return true
	}
	if depth == 0 {
		return false
	}
	var ops []*ssa.Value
	if in, ok := v.(ssa.Instruction); ok {
		ops = in.Operands(ops)
	}
	for _, o := range ops {
		if *o != nil && dependsOn(*o, target, depth-1) {
			return true
		}
	}
	return false
}

func stripConv(v ssa.Value) ssa.Value {
	for {
		switch x := v.(type) {
		case *ssa.ChangeType:
			v = x.X
		case *ssa.Convert:
			v = x.X
		default:
			return v
		}
	}
}

func runGob(m *model.Model, s *ob.Set) {
	const R = "GOB"
	fn := m.Lookup("(*Decimal).GobDecode")
	name := "(*Decimal).GobDecode"
	pos := m.Pos(fn.Pos())
	buf := ssa.Value(fn.Params[1])
	live := m.Live(fn)

	// ---------------- G1: length checks
	type bound struct {
		b    *ssa.BasicBlock
		si   int
		need int64
	}
	var bounds []bound
	for _, b := range fn.Blocks {
		if !live[b.Index] || len(b.Instrs) == 0 {
			continue
		}
		ifi, ok := b.Instrs[len(b.Instrs)-1].(*ssa.If)
		if !ok {
			continue
		}
		bo, ok := ifi.Cond.(*ssa.BinOp)
		if !ok {
			continue
		}
		x, y, op := bo.X, bo.Y, bo.Op
		if isLenOf(y, buf) {
			x, y = y, x
			switch op {
			case token.LSS:
				op = token.GTR
			case token.GTR:
				op = token.LSS
			case token.LEQ:
				op = token.GEQ
			case token.GEQ:
				op = token.LEQ
			}
		}
		if !isLenOf(x, buf) {
			continue
		}
		c, ok := model.ConstInt(y)
		if !ok {
			continue
		}
		switch op {
		case token.EQL:
			if c == 0 {
				bounds = append(bounds, bound{b, 1, 1})
			}
		case token.NEQ:
			if c == 0 {
				bounds = append(bounds, bound{b, 0, 1})
			}
		case token.LSS:
			bounds = append(bounds, bound{b, 1, c})
		case token.LEQ:
			bounds = append(bounds, bound{b, 1, c + 1})
		case token.GEQ:
			bounds = append(bounds, bound{b, 0, c})
		case token.GTR:
			bounds = append(bounds, bound{b, 0, c + 1})
		}
	}
	known := func(b *ssa.BasicBlock) int64 {
		var k int64
		for _, bd := range bounds {
			if bd.need > k && m.EdgeDominates(bd.b, bd.si, b) {
				k = bd.need
			}
		}
		return k
	}
	nAcc := 0
	for _, b := range fn.Blocks {
		if !live[b.Index] {
			continue
		}
		for _, in := range b.Instrs {
			var need int64 = -1
			what := ""
			switch x := in.(type) {
			case *ssa.IndexAddr:
				if x.X == buf {
					if k, ok := model.ConstInt(x.Index); ok {
						need, what = k+1, fmt.Sprintf("buf[%d]", k)
					} else {
						need, what = 1<<40, "buf[non-constant index]"
					}
				}
			case *ssa.Slice:
				if x.X == buf {
					lo := int64(0)
					if x.Low != nil {
						k, ok := model.ConstInt(x.Low)
						if !ok {
							need, what = 1<<40, "buf[non-constant:]"
							break
						}
						lo = k
					}
					need, what = lo, fmt.Sprintf("buf[%d:]", lo)
					// consumers with a fixed width
					if x.Referrers() != nil {
						for _, u := range *x.Referrers() {
							if cal, _ := model.Callee(u); cal != nil {
								switch cal.Name() {
								case "Uint16":
									need, what = lo+2, fmt.Sprintf("Uint16(buf[%d:])", lo)
								case "Uint32":
									need, what = lo+4, fmt.Sprintf("Uint32(buf[%d:])", lo)
								case "Uint64":
									need, what = lo+8, fmt.Sprintf("Uint64(buf[%d:])", lo)
								}
							}
						}
					}
				}
			}
			if need < 0 {
				continue
			}
			nAcc++
			k := known(b)
			c := fmt.Sprintf("%s/G1:%s", name, what)
			if k >= need {
				s.Ok(R, c, m.InstrPos(in), fmt.Sprintf("len(buf) >= %d is established (needs %d)", k, need))
			} else {
				s.Bad(R, c, m.InstrPos(in), fmt.Sprintf("%s needs len(buf) >= %d but only len(buf) >= %d is established on every path: truncated input panics", what, need, k))
			}
		}
	}
	if nAcc < 4 {
		m.Blind("GOB: only %d buffer accesses found in GobDecode", nAcc)
	}

	// ---------------- collect the decoded values
	isBufDerived := func(v ssa.Value) bool {
		// depends on a load of a buf element or on a call taking a slice of buf
		var walk func(v ssa.Value, d int) bool
		walk = func(v ssa.Value, d int) bool {
			if d == 0 {
				return false
			}
			switch x := v.(type) {
			case *ssa.UnOp:
				if ia, ok := x.X.(*ssa.IndexAddr); ok && ia.X == buf {
					return true
				}
			case *ssa.Slice:
				if x.X == buf {
					return true
				}
			}
			var ops []*ssa.Value
			if in, ok := v.(ssa.Instruction); ok {
				ops = in.Operands(ops)
			}
			for _, o := range ops {
				if *o != nil && walk(*o, d-1) {
					return true
				}
			}
			return false
		}
		return walk(v, 8)
	}
	var decoded []dstore
	for _, b := range fn.Blocks {
		if !live[b.Index] {
			continue
		}
		for _, in := range b.Instrs {
			if st, ok := in.(*ssa.Store); ok {
				if fa, ok := m.DecField(st.Addr); ok && m.RefOf(fa.X).OnlyParam(0) && isBufDerived(st.Val) {
					decoded = append(decoded, dstore{st, fa.Field})
				}
			}
		}
	}
	if len(decoded) < 5 {
		m.Blind("GOB: only %d stores of decoded values found in GobDecode", len(decoded))
		if len(decoded) == 0 {
			return
		}
	}
	maxEnum := map[int]int64{}
	for f, names := range map[int][]string{m.F.Mode: {"ToNearestEven", "ToNearestAway", "ToZero", "AwayFromZero", "ToNegativeInf", "ToPositiveInf"}, m.F.Acc: {"Below", "Exact", "Above"}, m.F.Form: {"zero", "finite", "inf"}} {
		for _, n := range names {
			v, _ := constant.Int64Val(m.PkgConst(n))
			if v > maxEnum[f] {
				maxEnum[f] = v
			}
		}
	}
	// guardEdge: an If comparing v with constant k such that the error edge returns an error and
	// the other edge dominates block b.
	guarded := func(b *ssa.BasicBlock, test func(bo *ssa.BinOp) (errEdge int, ok bool)) bool {
		for _, gb := range fn.Blocks {
			if !live[gb.Index] || len(gb.Instrs) == 0 {
				continue
			}
			ifi, ok := gb.Instrs[len(gb.Instrs)-1].(*ssa.If)
			if !ok {
				continue
			}
			bo, ok := ifi.Cond.(*ssa.BinOp)
			if !ok {
				continue
			}
			errEdge, ok := test(bo)
			if !ok {
				continue
			}
			if isErrorReturnBlock(gb.Succs[errEdge]) && m.EdgeDominates(gb, 1-errEdge, b) {
				return true
			}
		}
		return false
	}
	var decPrec ssa.Value
	for _, d := range decoded {
		if d.field == m.F.Prec {
			decPrec = d.st.Val
		}
	}
	for _, d := range decoded {
		f := d.field
		c := fmt.Sprintf("%s/G2:%s", name, m.FieldN[f])
		switch f {
		case m.F.Mode, m.F.Acc, m.F.Form:
			v := d.st.Val
			k := maxEnum[f]
			ok := guarded(d.st.Block(), func(bo *ssa.BinOp) (int, bool) {
				if bo.X != v {
					return 0, false
				}
				cv, isc := model.ConstInt(bo.Y)
				if !isc {
					return 0, false
				}
				switch {
				case bo.Op == token.GTR && cv == k, bo.Op == token.GEQ && cv == k+1:
					return 0, true
				case bo.Op == token.LEQ && cv == k, bo.Op == token.LSS && cv == k+1:
					return 1, true
				}
				return 0, false
			})
			s.Check(ok, R, c, m.InstrPos(d.st), fmt.Sprintf("rejected unless <= %d", k), fmt.Sprintf("the decoded %s is stored without being compared with the largest enumerator (%d): out-of-range values reach `switch` statements that panic(\"unreachable\")", m.FieldN[f], k))
		case m.F.Mant:
			mv := d.st.Val
			okEmpty, okNorm, okWords, okDigits := gobMantChecks(m, fn, mv, decPrec, []*ssa.BasicBlock{d.st.Block()})
			// the same checks may live in a validation helper: h(m, prec) error, whose non-nil result
			// makes GobDecode return an error on an edge that dominates the store
			if !(okEmpty && okNorm && okWords && okDigits) {
				for _, hb := range fn.Blocks {
					if !live[hb.Index] {
						continue
					}
					for _, in := range hb.Instrs {
						call, ok := in.(*ssa.Call)
						if !ok {
							continue
						}
						h := model.Unthunk(call.Call.StaticCallee())
						if h == nil || !m.InDecimalPkg(h) || len(h.Blocks) == 0 || h.Signature.Results().Len() != 1 || !types.Identical(h.Signature.Results().At(0).Type(), types.Universe.Lookup("error").Type()) {
							continue
						}
						mi, pi := -1, -1
						for ai, a := range call.Call.Args {
							if stripConv(a) == stripConv(mv) {
								mi = ai
							}
							if decPrec != nil && stripConv(a) == stripConv(decPrec) {
								pi = ai
							}
						}
						if mi < 0 {
							continue
						}
						// err != nil -> error return; the other edge dominates the store
						guards := guarded(d.st.Block(), func(bo *ssa.BinOp) (int, bool) {
							if bo.X != ssa.Value(call) {
								return 0, false
							}
							if c, ok := bo.Y.(*ssa.Const); !ok || !c.IsNil() {
								return 0, false
							}
							switch bo.Op {
							case token.NEQ:
								return 0, true
							case token.EQL:
								return 1, true
							}
							return 0, false
						})
						if !guards {
							continue
						}
						var anchors []*ssa.BasicBlock
						for _, b2 := range h.Blocks {
							if r, ok := b2.Instrs[len(b2.Instrs)-1].(*ssa.Return); ok && !isErrorReturnBlock(b2) && len(r.Results) == 1 {
								anchors = append(anchors, b2)
							}
						}
						if len(anchors) == 0 {
							continue
						}
						var hp ssa.Value
						if pi >= 0 {
							hp = h.Params[pi]
						}
						e2, n2, w2, d2 := gobMantChecks(m, h, h.Params[mi], hp, anchors)
						okEmpty, okNorm, okWords, okDigits = okEmpty || e2, okNorm || n2, okWords || w2, okDigits || d2
					}
				}
			}
			s.Check(okEmpty, R, c+"/non-empty", m.InstrPos(d.st), "an empty mantissa is rejected", "a finite value may be stored with an empty mantissa")
			s.Check(okNorm, R, c+"/normalised", m.InstrPos(d.st), "top word >= base/10 is required", "the decoded mantissa is stored without checking that its leading digit is non-zero")
			s.Check(okWords, R, c+"/words<base", m.InstrPos(d.st), "every word is compared with the base", "the decoded mantissa is stored without checking every word against the word base")
			s.Check(okDigits, R, c+"/digits<=prec", m.InstrPos(d.st), "digit count compared with the decoded precision", "the decoded mantissa is stored without checking that it fits the decoded precision (which also keeps a finite value from having precision 0)")
			// FX-OWN: decoded into a fresh buffer or the receiver's own
			roots := m.RootsOf(mv)
			okRoots := roots.SubsetOf(func(l string) bool { return l == "fresh" || l == "nil" || l == "P0.mant" })
			s.Check(okRoots, R, c+"/buffer", m.InstrPos(d.st), "roots "+roots.String(), "decoded mantissa backed by "+roots.String())
		}
	}

	// ---------------- G3: layout agreement with GobEncode
	gobLayout(m, s, fn, decoded)
	runGobBytes(m, s)

	// ---------------- G4: restore precision and mode when the receiver had a precision
	{
		// the decoded stores to the two attributes
		var precStores, modeStores []*ssa.Store
		for _, d := range decoded {
			switch d.field {
			case m.F.Prec:
				precStores = append(precStores, d.st)
			case m.F.Mode:
				modeStores = append(modeStores, d.st)
			}
		}
		// the receiver's own values: a load that is in front of every store to the same field
		saved := func(field int, stores []*ssa.Store) *ssa.UnOp {
			for _, b := range fn.Blocks {
				if !live[b.Index] {
					continue
				}
				for _, in := range b.Instrs {
					u, ok := in.(*ssa.UnOp)
					if !ok || u.Op != token.MUL {
						continue
					}
					fa, ok := m.DecField(u.X)
					if !ok || fa.Field != field || !m.RefOf(fa.X).OnlyParam(0) {
						continue
					}
					all := true
					for _, st := range stores {
						if !m.InstrDominates(u, st) {
							all = false
						}
					}
					if all {
						return u
					}
				}
			}
			return nil
		}
		oldPrec := saved(m.F.Prec, precStores)
		why := ""
		var rb *ssa.BasicBlock
		redge := -1
		if oldPrec == nil {
			why = "the receiver's precision is not read before the decoded precision is stored"
		} else {
			for _, b := range fn.Blocks {
				if !live[b.Index] || len(b.Instrs) == 0 {
					continue
				}
				ifi, ok := b.Instrs[len(b.Instrs)-1].(*ssa.If)
				if !ok {
					continue
				}
				bo, ok := ifi.Cond.(*ssa.BinOp)
				if !ok || bo.X != ssa.Value(oldPrec) {
					continue
				}
				if k, ok := model.ConstInt(bo.Y); !ok || k != 0 {
					continue
				}
				edge := 0
				if bo.Op == token.EQL {
					edge = 1
				} else if bo.Op != token.NEQ {
					continue
				}
				// SetPrec(oldPrec) behind the non-zero edge
				for _, tb := range fn.Blocks {
					if tb != b.Succs[edge] && !m.EdgeDominates(b, edge, tb) {
						continue
					}
					for _, in := range tb.Instrs {
						if cal, c := model.Callee(in); cal != nil && m.FuncName(cal) == "(*Decimal).SetPrec" && stripConv(c.Args[1]) == ssa.Value(oldPrec) {
							rb, redge = b, edge
						}
					}
				}
			}
			if rb == nil {
				why = "no `if oldPrec != 0 { … z.SetPrec(oldPrec) }` found: a receiver that had a precision keeps the decoded one"
			} else {
				for _, st := range precStores {
					if reachesReturnAvoiding(st.Block(), rb) {
						why = "a return is reachable from " + m.InstrPos(st) + " without passing the restoring test"
					}
				}
				// the mode: written only when the receiver had no precision, or saved and put back
				// behind the non-zero edge
				onlyWhenZero := true
				for _, st := range modeStores {
					if !(st.Block() == rb.Succs[1-redge] || m.EdgeDominates(rb, 1-redge, st.Block())) {
						onlyWhenZero = false
					}
				}
				if !onlyWhenZero {
					oldMode := saved(m.F.Mode, modeStores)
					back := false
					if oldMode != nil {
						for _, tb := range fn.Blocks {
							if tb != rb.Succs[redge] && !m.EdgeDominates(rb, redge, tb) {
								continue
							}
							for _, in := range tb.Instrs {
								if st, ok := in.(*ssa.Store); ok {
									if fa, ok := m.DecField(st.Addr); ok && fa.Field == m.F.Mode && st.Val == ssa.Value(oldMode) {
										back = true
									}
								}
							}
						}
					}
					if !back && why == "" {
						why = "the decoded rounding mode is stored also for a receiver that had a precision, and the receiver's own mode is not put back behind the `oldPrec != 0` test"
					}
				}
			}
		}
		s.Check(why == "", R, name+"/G4:restore", pos, "precision and mode of a receiver with non-zero precision are restored (and the value rounded to it)", why)
	}

	// ---------------- G5: the version test dominates all decoding
	{
		why := "no test of buf[0] against decimalGobVersion"
		ver := m.PkgConst("decimalGobVersion")
		for _, b := range fn.Blocks {
			if !live[b.Index] || len(b.Instrs) == 0 {
				continue
			}
			ifi, ok := b.Instrs[len(b.Instrs)-1].(*ssa.If)
			if !ok {
				continue
			}
			bo, ok := ifi.Cond.(*ssa.BinOp)
			if !ok || (bo.Op != token.NEQ && bo.Op != token.EQL) {
				continue
			}
			u, ok := bo.X.(*ssa.UnOp)
			if !ok {
				continue
			}
			ia, ok := u.X.(*ssa.IndexAddr)
			if !ok || ia.X != buf {
				continue
			}
			if k, ok := model.ConstInt(ia.Index); !ok || k != 0 {
				continue
			}
			kc, ok := bo.Y.(*ssa.Const)
			if !ok || kc.Value == nil || !constant.Compare(kc.Value, token.EQL, ver) {
				continue
			}
			errEdge := 0
			if bo.Op == token.EQL {
				errEdge = 1
			}
			if !isErrorReturnBlock(b.Succs[errEdge]) {
				why = "a version mismatch does not return an error"
				continue
			}
			why = ""
			for _, d := range decoded {
				if !m.EdgeDominates(b, 1-errEdge, d.st.Block()) {
					why = "a decoded value is stored at " + m.InstrPos(d.st) + " without the version having been checked"
				}
			}
		}
		s.Check(why == "", R, name+"/G5:version", pos, "version checked before anything is decoded", why)
	}
	// ---------------- G9: a decode that fails has not touched the receiver
	// Every error return comes before the first write of a field of the receiver and before any
	// write into the array its mantissa lives in: a rejected buffer leaves the number, its
	// precision and its mode as they were (validation first, then the stores).
	{
		nb := len(fn.Blocks)
		touched := make([]string, nb) // position of a write that may have happened on the way in
		reached := make([]bool, nb)
		reached[0] = true
		touch := func(in ssa.Instruction) bool {
			switch x := in.(type) {
			case *ssa.Store:
				if fa, ok := m.DecField(x.Addr); ok && m.RefOf(fa.X).MayBeParam(0) {
					return true
				}
				if m.IsDecPtr(x.Addr.Type()) && m.RefOf(x.Addr).MayBeParam(0) {
					return true
				}
				if ia, ok := x.Addr.(*ssa.IndexAddr); ok && m.IsWordSlice(ia.X.Type()) && m.RootsOf(ia.X)["P0.mant"] {
					return true
				}
			case ssa.CallInstruction:
				cal, c := model.Callee(x)
				if cal == nil || c == nil {
					return false
				}
				for ai, a := range c.Args {
					if m.IsDecPtr(a.Type()) && m.RefOf(a).MayBeParam(0) && len(cal.Blocks) > 0 && len(m.StoreSets(cal, ai)) > 0 {
						return true
					}
					if m.IsWordSlice(a.Type()) && m.RootsOf(a)["P0.mant"] && len(cal.Blocks) > 0 && m.ElemWrites(cal)[fmt.Sprintf("P%d", ai)] {
						return true
					}
				}
			}
			return false
		}
		work := []int{0}
		for len(work) > 0 {
			bi := work[len(work)-1]
			work = work[:len(work)-1]
			if !live[bi] {
				continue
			}
			t := touched[bi]
			for _, in := range fn.Blocks[bi].Instrs {
				if t == "" && touch(in) {
					t = m.InstrPos(in)
				}
			}
			for _, ed := range model.LiveSuccs(fn.Blocks[bi]) {
				ti := ed.To.Index
				if !reached[ti] || (touched[ti] == "" && t != "") {
					reached[ti] = true
					if touched[ti] == "" {
						touched[ti] = t
					}
					work = append(work, ti)
				}
			}
		}
		why := ""
		nerr := 0
		for bi, b := range fn.Blocks {
			if !live[bi] || !reached[bi] || len(b.Instrs) == 0 {
				continue
			}
			ret, ok := b.Instrs[len(b.Instrs)-1].(*ssa.Return)
			if !ok || isSuccessReturn(m, ret) {
				continue
			}
			nerr++
			t := touched[bi]
			for _, in := range b.Instrs {
				if t == "" && touch(in) {
					t = m.InstrPos(in)
				}
			}
			if t != "" && why == "" {
				why = fmt.Sprintf("the error return at %s can be reached after the receiver was written at %s: a buffer that is rejected must leave the receiver's value, precision and mode as they were (the validations come first, the stores last)", m.InstrPos(ret), t)
			}
		}
		if nerr == 0 {
			s.Note(R, name+"/G9:atomic", pos, "no error return recognised")
		} else {
			s.Check(why == "", R, name+"/G9:atomic", pos, fmt.Sprintf("%d error returns, none behind a write to the receiver", nerr), why)
		}
	}
}

func blockReaches(a, b *ssa.BasicBlock) bool {
	seen := map[*ssa.BasicBlock]bool{}
	work := []*ssa.BasicBlock{}
	for _, e := range model.LiveSuccs(a) {
		work = append(work, e.To)
	}
	for len(work) > 0 {
		x := work[len(work)-1]
		work = work[:len(work)-1]
		if seen[x] {
			continue
		}
		seen[x] = true
		if x == b {
			return true
		}
		for _, e := range model.LiveSuccs(x) {
			work = append(work, e.To)
		}
	}
	return false
}

// reachesReturnAvoiding: a non-error return is reachable from block a without entering block avoid.
func reachesReturnAvoiding(a, avoid *ssa.BasicBlock) bool {
	seen := map[*ssa.BasicBlock]bool{}
	work := []*ssa.BasicBlock{a}
	for len(work) > 0 {
		x := work[len(work)-1]
		work = work[:len(work)-1]
		if seen[x] || x == avoid {
			continue
		}
		seen[x] = true
		if len(x.Instrs) > 0 {
			if _, ok := x.Instrs[len(x.Instrs)-1].(*ssa.Return); ok && !isErrorReturnBlock(x) {
				return true
			}
		}
		for _, e := range model.LiveSuccs(x) {
			work = append(work, e.To)
		}
	}
	return false
}

type dstore struct {
	st    *ssa.Store
	field int
}

type hdrLayout struct {
	shift, mask, bias int64
	ok                bool
}

func (h hdrLayout) String() string {
	if !h.ok {
		return "not recognised"
	}
	return fmt.Sprintf("shift %d mask %d bias %+d", h.shift, h.mask, h.bias)
}

// gobLayout extracts (shift, mask, bias) per header field and the byte offsets of the
// word fields from GobEncode and GobDecode and compares them (sibling agreement).
func gobLayout(m *model.Model, s *ob.Set, dec *ssa.Function, decoded []dstore) {
	const R = "GOB"
	enc := m.Lookup("(*Decimal).GobEncode")
	encH := map[int]hdrLayout{}
	encOff := map[int]int64{}
	fieldOfLoad := func(v ssa.Value) (int, bool) {
		if lf, ok := m.LoadOfDecField(v); ok {
			return lf.Field, true
		}
		return 0, false
	}
	live := m.Live(enc)
	for _, b := range enc.Blocks {
		if !live[b.Index] {
			continue
		}
		for _, in := range b.Instrs {
			switch x := in.(type) {
			case *ssa.BinOp:
				if x.Op == token.SHL {
					sh, ok := model.ConstInt(x.Y)
					if !ok {
						continue
					}
					// (conv)((conv)(field ± bias) & mask) << sh, the conversions anywhere
					and, ok := stripConv(x.X).(*ssa.BinOp)
					if !ok || and.Op != token.AND {
						continue
					}
					mask, ok := model.ConstInt(and.Y)
					if !ok {
						continue
					}
					inner := stripConv(and.X)
					bias := int64(0)
					if add, ok := inner.(*ssa.BinOp); ok && (add.Op == token.ADD || add.Op == token.SUB) {
						if k, ok := model.ConstInt(add.Y); ok {
							bias = k
							if add.Op == token.SUB {
								bias = -k
							}
							inner = stripConv(add.X)
						}
					}
					if f, ok := fieldOfLoad(inner); ok {
						encH[f] = hdrLayout{sh, mask & (0xFF >> uint(sh)), bias, true}
					}
				}
				if x.Op == token.OR {
					// … | neg with `var neg byte; if x.neg { neg = 1 }`: a φ of 0 and a power of two
					// selected by the sign
					for _, opnd := range []ssa.Value{x.X, x.Y} {
						ph, ok := stripConv(opnd).(*ssa.Phi)
						if !ok || len(ph.Edges) != 2 {
							continue
						}
						k0, ok0 := model.ConstInt(ph.Edges[0])
						k1, ok1 := model.ConstInt(ph.Edges[1])
						if !ok0 || !ok1 || (k0 != 0) == (k1 != 0) {
							continue
						}
						k := k0 + k1
						if k&(k-1) != 0 {
							continue
						}
						// the branch that selects: an If on the sign in a dominating predecessor
						for _, pb := range fn2Blocks(ph) {
							if len(pb.Instrs) == 0 {
								continue
							}
							if ifi, ok := pb.Instrs[len(pb.Instrs)-1].(*ssa.If); ok {
								if f, ok := fieldOfLoad(ifi.Cond); ok && f == m.F.Neg {
									shift := int64(0)
									for kk := k; kk > 1; kk >>= 1 {
										shift++
									}
									encH[f] = hdrLayout{shift, 1, 0, true}
								}
							}
						}
					}
					// … | signBit(x.neg): a helper of the sign alone whose returns are 0 and a power of two
					for _, opnd := range []ssa.Value{x.X, x.Y} {
						call, ok := stripConv(opnd).(*ssa.Call)
						if !ok || len(call.Call.Args) != 1 {
							continue
						}
						h := model.Unthunk(call.Call.StaticCallee())
						f, okf := fieldOfLoad(call.Call.Args[0])
						if h == nil || !okf || f != m.F.Neg || !m.InDecimalPkg(h) || len(h.Blocks) == 0 {
							continue
						}
						vals := map[int64]bool{}
						pure := true
						for _, hb := range h.Blocks {
							for _, hin := range hb.Instrs {
								switch r := hin.(type) {
								case *ssa.Return:
									for _, rv := range r.Results {
										if kk, ok := model.ConstInt(rv); ok {
											vals[kk] = true
										} else if ph, ok := rv.(*ssa.Phi); ok {
											for _, e := range ph.Edges {
												if kk, ok := model.ConstInt(e); ok {
													vals[kk] = true
												} else {
													pure = false
												}
											}
										} else {
											pure = false
										}
									}
								case *ssa.Store, ssa.CallInstruction:
									pure = false
								}
							}
						}
						if !pure || len(vals) != 2 || !vals[0] {
							continue
						}
						for kk := range vals {
							if kk != 0 && kk&(kk-1) == 0 {
								shift := int64(0)
								for k2 := kk; k2 > 1; k2 >>= 1 {
									shift++
								}
								encH[f] = hdrLayout{shift, 1, 0, true}
							}
						}
					}
					// b |= 1 under `if x.neg`
					if k, ok := model.ConstInt(x.Y); ok && len(b.Preds) == 1 {
						pb := b.Preds[0]
						if ifi, ok := pb.Instrs[len(pb.Instrs)-1].(*ssa.If); ok && pb.Succs[0] == b {
							if f, ok := fieldOfLoad(ifi.Cond); ok && f == m.F.Neg {
								shift := int64(0)
								for k > 1 && k&1 == 0 {
									k >>= 1
									shift++
								}
								encH[f] = hdrLayout{shift, k, 0, true}
							}
						}
					}
				}
			case ssa.CallInstruction:
				cal, c := model.Callee(x)
				if cal == nil {
					continue
				}
				switch cal.Name() {
				case "PutUint32", "PutUint64", "bytes":
					var sl *ssa.Slice
					var val ssa.Value
					for _, a := range c.Args {
						if sv, ok := a.(*ssa.Slice); ok && types.Identical(sv.Type(), types.NewSlice(types.Typ[types.Byte])) {
							sl = sv
						} else {
							val = a
						}
					}
					if sl == nil || sl.Low == nil {
						continue
					}
					off, ok := model.ConstInt(sl.Low)
					if !ok {
						continue
					}
					if cal.Name() == "bytes" {
						encOff[m.F.Mant] = off
						continue
					}
					if f, ok := fieldOfLoad(stripConv(val)); ok {
						encOff[f] = off
					}
				}
			}
		}
	}
	decH := map[int]hdrLayout{}
	decOff := map[int]int64{}
	for _, d := range decoded {
		v := stripConv(d.st.Val)
		bias := int64(0)
		if sub, ok := v.(*ssa.BinOp); ok && (sub.Op == token.SUB || sub.Op == token.ADD) {
			if k, ok := model.ConstInt(sub.Y); ok {
				bias = k // decoder subtracts what the encoder added
				if sub.Op == token.ADD {
					bias = -k
				}
				v = stripConv(sub.X)
			}
		}
		if ne, ok := v.(*ssa.BinOp); ok && ne.Op == token.NEQ {
			if k, ok := model.ConstInt(ne.Y); ok && k == 0 {
				v = ne.X
			}
		}
		// b&m == m for a one-bit mask m: the same test as b&m != 0
		if eq, ok := v.(*ssa.BinOp); ok && eq.Op == token.EQL {
			if k, ok := model.ConstInt(eq.Y); ok && k != 0 && k&(k-1) == 0 {
				if and, ok := stripConv(eq.X).(*ssa.BinOp); ok && and.Op == token.AND {
					if mk, ok := model.ConstInt(and.Y); ok && mk == k {
						v = eq.X
					}
				}
			}
		}
		// a field taken out of the byte by any nesting of >> k and & m: (b >> s) & m
		if s0, m0, ok := byteField(stripConv(v)); ok && m0 != 0xFF {
			decH[d.field] = hdrLayout{s0, m0, bias, true}
			continue
		}
		if and, ok := v.(*ssa.BinOp); ok && and.Op == token.AND {
			mask, ok1 := model.ConstInt(and.Y)
			shift := int64(0)
			if shr, ok := and.X.(*ssa.BinOp); ok && shr.Op == token.SHR {
				if k, ok := model.ConstInt(shr.Y); ok {
					shift = k
				}
			}
			if ok1 {
				decH[d.field] = hdrLayout{shift, mask & (0xFF >> uint(shift)), bias, true}
			}
			continue
		}
		// the top field of the byte needs no mask: b >> k keeps 8-k bits
		if shr, ok := v.(*ssa.BinOp); ok && shr.Op == token.SHR {
			if k, ok := model.ConstInt(shr.Y); ok && k > 0 && k < 8 {
				if bt, ok := shr.X.Type().Underlying().(*types.Basic); ok && bt.Kind() == types.Uint8 {
					decH[d.field] = hdrLayout{k, 0xFF >> uint(k), bias, true}
					continue
				}
			}
		}
		// a word field assembled by hand: uint32(buf[k])<<24 | uint32(buf[k+1])<<16 | … (big-endian)
		if off, ok := bigEndianBytes(v); ok {
			decOff[d.field] = off
			continue
		}
		// word fields: Uint32(buf[k:]) / setBytes(buf[k:])
		if call, ok := v.(*ssa.Call); ok {
			for _, a := range call.Call.Args {
				if sl, ok := a.(*ssa.Slice); ok && sl.Low != nil {
					if k, ok := model.ConstInt(sl.Low); ok {
						decOff[d.field] = k
					}
				}
			}
		}
	}
	var fs []int
	for f := range encH {
		fs = append(fs, f)
	}
	for f := range decH {
		if _, ok := encH[f]; !ok {
			fs = append(fs, f)
		}
	}
	sort.Ints(fs)
	for _, f := range fs {
		e, d := encH[f], decH[f]
		c := "(*Decimal).GobDecode/G3:header." + m.FieldN[f]
		s.Check(e.ok && d.ok && e == d, R, c, m.Pos(dec.Pos()), e.String(), fmt.Sprintf("GobEncode packs %s as [%s] but GobDecode unpacks [%s]", m.FieldN[f], e, d))
	}
	if len(fs) == 0 {
		// neither side packs the flag byte with constant shifts and masks (a table of field
		// positions, say): the agreement of the two is then not read off here
		s.Note(R, "(*Decimal).GobDecode/G3:header", m.Pos(dec.Pos()), "no header field is packed or unpacked with constant shifts and masks (layout agreement not decided)")
	} else if len(fs) < 4 {
		s.Bad(R, "(*Decimal).GobDecode/G3:header", m.Pos(dec.Pos()), fmt.Sprintf("only %d header fields recognised in encoder/decoder (expected mode, acc, form, neg)", len(fs)))
	}
	var ws []int
	for f := range encOff {
		ws = append(ws, f)
	}
	sort.Ints(ws)
	for _, f := range ws {
		c := "(*Decimal).GobDecode/G3:offset." + m.FieldN[f]
		do, ok := decOff[f]
		s.Check(ok && do == encOff[f], R, c, m.Pos(dec.Pos()), fmt.Sprintf("byte offset %d", encOff[f]), fmt.Sprintf("GobEncode writes %s at byte offset %d, GobDecode reads it at %d (found=%v)", m.FieldN[f], encOff[f], do, ok))
	}
	if len(ws) < 3 {
		// the encoder is not written as PutUint32(buf[k:], field) / field.bytes(buf[k:]) with constant
		// offsets (e.g. it appends): which byte offset each field lands at is then not decided here
		s.Note(R, "(*Decimal).GobDecode/G3:offsets", m.Pos(dec.Pos()), fmt.Sprintf("only %d word fields recognised in the encoder (prec, exp, mant expected): the encoder writes them in a form this rule does not read offsets from; layout agreement not decided", len(ws)))
	}
	_ = strings.TrimSpace
}

// gobMantChecks looks in fn for the four validity tests of a decoded mantissa mv (decPrec: the
// decoded precision, may be nil): each test must send its failing edge to an error return and its
// passing edge must dominate every anchor block (the store of the mantissa in GobDecode, or the
// `return nil` blocks of a validation helper).
func gobMantChecks(m *model.Model, fn *ssa.Function, mv ssa.Value, decPrec ssa.Value, anchors []*ssa.BasicBlock) (okEmpty, okNorm, okWords, okDigits bool) {
	live := m.Live(fn)
	domAll := func(gb *ssa.BasicBlock, edge int) bool {
		for _, a := range anchors {
			if !m.EdgeDominates(gb, edge, a) {
				return false
			}
		}
		return true
	}
	guarded := func(test func(bo *ssa.BinOp) (errEdge int, ok bool)) bool {
		for _, gb := range fn.Blocks {
			if !live[gb.Index] || len(gb.Instrs) == 0 {
				continue
			}
			ifi, ok := gb.Instrs[len(gb.Instrs)-1].(*ssa.If)
			if !ok {
				continue
			}
			bo, ok := ifi.Cond.(*ssa.BinOp)
			if !ok {
				continue
			}
			errEdge, ok := test(bo)
			if !ok {
				continue
			}
			if isErrorReturnBlock(gb.Succs[errEdge]) && domAll(gb, 1-errEdge) {
				return true
			}
		}
		return false
	}
	db, _ := constant.Int64Val(constant.BinaryOp(m.PkgConst("_DB"), token.QUO_ASSIGN, constant.MakeInt64(10)))
	base := m.PkgConst("_DB")
	elemOf := func(v ssa.Value) (*ssa.IndexAddr, bool) {
		u, ok := v.(*ssa.UnOp)
		if !ok || u.Op != token.MUL {
			return nil, false
		}
		ia, ok := u.X.(*ssa.IndexAddr)
		if !ok || ia.X != mv {
			return nil, false
		}
		return ia, true
	}
	okEmpty = guarded(func(bo *ssa.BinOp) (int, bool) {
		if isLenOf(bo.X, mv) {
			if k, ok := model.ConstInt(bo.Y); ok && k == 0 {
				switch bo.Op {
				case token.EQL:
					return 0, true
				case token.NEQ, token.GTR:
					return 1, true
				}
			}
		}
		return 0, false
	})
	okNorm = guarded(func(bo *ssa.BinOp) (int, bool) {
		ia, ok := elemOf(bo.X)
		if !ok {
			return 0, false
		}
		// index must be len(m)-1
		ix, ok := ia.Index.(*ssa.BinOp)
		if !ok || ix.Op != token.SUB || !isLenOf(ix.X, mv) {
			return 0, false
		}
		if one, ok := model.ConstInt(ix.Y); !ok || one != 1 {
			return 0, false
		}
		k, ok := model.ConstInt(bo.Y)
		if ok && k == db {
			switch bo.Op {
			case token.LSS:
				return 0, true
			case token.GEQ:
				return 1, true
			}
		}
		return 0, false
	})
	// every word < base: a test inside a loop over m whose header dominates the anchors
	for _, gb := range fn.Blocks {
		if !live[gb.Index] || len(gb.Instrs) == 0 {
			continue
		}
		ifi, ok := gb.Instrs[len(gb.Instrs)-1].(*ssa.If)
		if !ok {
			continue
		}
		bo, ok := ifi.Cond.(*ssa.BinOp)
		if !ok {
			continue
		}
		ia, ok := elemOf(bo.X)
		if !ok {
			continue
		}
		if _, isConst := ia.Index.(*ssa.Const); isConst {
			continue
		}
		kc, ok := bo.Y.(*ssa.Const)
		if !ok || kc.Value == nil {
			continue
		}
		errEdge := -1
		switch {
		case bo.Op == token.GEQ && constant.Compare(kc.Value, token.EQL, base):
			errEdge = 0
		case bo.Op == token.LSS && constant.Compare(kc.Value, token.EQL, base):
			errEdge = 1
		}
		if errEdge < 0 || !isErrorReturnBlock(gb.Succs[errEdge]) {
			continue
		}
		// loop header: a dominator of gb that gb can reach again, dominating the anchors
		for _, h := range fn.Blocks {
			if m.Dominates(h, gb) && h != gb && blockReaches(gb, h) {
				all := true
				for _, a := range anchors {
					if !m.Dominates(h, a) {
						all = false
					}
				}
				if all {
					okWords = true
				}
			}
		}
	}
	okDigits = decPrec != nil && guarded(func(bo *ssa.BinOp) (int, bool) {
		switch bo.Op {
		case token.GTR, token.LSS, token.GEQ, token.LEQ:
		default:
			return 0, false
		}
		// one side depends on the mantissa, the other on the decoded precision
		pv := stripConv(decPrec)
		xm, ym := dependsOn(bo.X, mv, 6), dependsOn(bo.Y, mv, 6)
		xp, yp := dependsOn(bo.X, pv, 4), dependsOn(bo.Y, pv, 4)
		if xm && yp && !xp {
			if bo.Op == token.GTR || bo.Op == token.GEQ {
				return 0, true
			}
			return 1, true
		}
		if ym && xp && !yp {
			if bo.Op == token.LSS || bo.Op == token.LEQ {
				return 0, true
			}
			return 1, true
		}
		return 0, false
	})
	return
}

// fn2Blocks: the blocks that may decide a two-way φ: its block's predecessors and theirs.
func fn2Blocks(ph *ssa.Phi) []*ssa.BasicBlock {
	var out []*ssa.BasicBlock
	for _, p := range ph.Block().Preds {
		out = append(out, p)
		out = append(out, p.Preds...)
	}
	return out
}

// bigEndianBytes: v is an OR of byte loads buf[k+i] shifted left by 8·(n−1−i), i = 0..n−1 (n = 2, 4
// or 8): the big-endian reading of n bytes at offset k.
func bigEndianBytes(v ssa.Value) (int64, bool) {
	type term struct{ idx, shift int64 }
	var terms []term
	okAll := true
	var walk func(v ssa.Value)
	walk = func(v ssa.Value) {
		v = stripConv(v)
		bo, ok := v.(*ssa.BinOp)
		if ok && bo.Op == token.OR {
			walk(bo.X)
			walk(bo.Y)
			return
		}
		shift := int64(0)
		if ok && bo.Op == token.SHL {
			k, isK := model.ConstInt(bo.Y)
			if !isK {
				okAll = false
				return
			}
			shift = k
			v = stripConv(bo.X)
		}
		ld, ok := v.(*ssa.UnOp)
		if !ok || ld.Op != token.MUL {
			okAll = false
			return
		}
		ia, ok := ld.X.(*ssa.IndexAddr)
		if !ok || !isByteSlice(ia.X.Type()) {
			okAll = false
			return
		}
		idx, ok := model.ConstInt(ia.Index)
		if !ok {
			okAll = false
			return
		}
		terms = append(terms, term{idx, shift})
	}
	walk(v)
	n := int64(len(terms))
	if !okAll || (n != 2 && n != 4 && n != 8) {
		return 0, false
	}
	min := terms[0].idx
	for _, t := range terms {
		if t.idx < min {
			min = t.idx
		}
	}
	seen := map[int64]bool{}
	for _, t := range terms {
		i := t.idx - min
		if i < 0 || i >= n || seen[i] || t.shift != 8*(n-1-i) {
			return 0, false
		}
		seen[i] = true
	}
	return min, true
}

// byteField reads a nesting of `>> k` and `& m` over one byte as (shift, mask): the value is
// (b >> shift) & mask.
func byteField(v ssa.Value) (shift, mask int64, ok bool) {
	bo, isB := v.(*ssa.BinOp)
	if !isB {
		if bt, isBasic := v.Type().Underlying().(*types.Basic); isBasic && bt.Kind() == types.Uint8 {
			return 0, 0xFF, true
		}
		return 0, 0, false
	}
	k, isK := model.ConstInt(bo.Y)
	if !isK {
		return 0, 0, false
	}
	s, m, ok := byteField(stripConv(bo.X))
	if !ok {
		return 0, 0, false
	}
	switch bo.Op {
	case token.SHR:
		if k < 0 || k > 7 {
			return 0, 0, false
		}
		return s + k, m >> uint(k), true
	case token.AND:
		return s, m & k, true
	}
	return 0, 0, false
}
