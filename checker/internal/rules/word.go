package rules

// E2 — WORD: provenance of every word that enters a mantissa. Every value
// stored into an element of a Word slice outside the kernel layer, and every
// Word-typed scalar argument of a decimal kernel called from outside the
// kernel layer, must come from a source that keeps it below the word base.

import (
	"fmt"
	"go/constant"
	"go/token"
	"go/types"
	"path/filepath"
	"sort"
	"strings"

	"golang.org/x/tools/go/ssa"

	"decverif/internal/model"
	"decverif/internal/ob"
)

func init() {
	Register(&Rule{Name: "WORD", Floor: 10, Run: runWord,
		Doc: "only kernel results, reduced values (%, /, -), loaded words, table powers and constants below the base are stored into mantissa words or passed as scalar words to the decimal kernels; raw sums, products, shifts and decoded bytes are not"})
}

var kernelLayerFiles = map[string]bool{
	"arith.go": true, "arith_decl.go": true, "arith_decl_pure.go": true, "arith_amd64.go": true, "arith_decl_s390x.go": true,
	"dec_arith.go": true, "dec_arith_decl.go": true, "dec_arith_decl_pure.go": true,
}

var decimalKernels = map[string]bool{
	"mul10WW": true, "div10WW": true, "div10W": true, "add10VV": true, "sub10VV": true, "add10VW": true, "sub10VW": true,
	"shl10VU": true, "shr10VU": true, "mulAdd10VWW": true, "addMul10VVW": true, "div10VWW": true,
	"mul10WW_g": true, "div10WW_g": true, "div10W_g": true, "add10VV_g": true, "sub10VV_g": true, "add10VW_g": true, "sub10VW_g": true,
	"shl10VU_g": true, "shr10VU_g": true, "mulAdd10VWW_g": true, "addMul10VVW_g": true, "div10VWW_g": true, "mulAdd10WWW_g": true,
	"add10WWW_g": true, "sub10WWW_g": true,
}

func inKernelLayer(m *model.Model, fn *ssa.Function) bool {
	for fn.Parent() != nil {
		fn = fn.Parent()
	}
	return kernelLayerFiles[filepath.Base(m.Fset.Position(fn.Pos()).Filename)]
}

type wordEngine struct {
	m        *model.Model
	base     constant.Value
	paramOK  map[*ssa.Parameter]int // 0 unknown, 1 bounded, 2 raw
	paramWhy map[*ssa.Parameter]string
	// Word fields of struct parameters (a bundle of conversion constants handed down as one value):
	// bounded iff the field is given a bounded value at every construction that reaches a call site
	fieldOK map[*ssa.Parameter]map[int]int
}

// exceptions: construct -> (allowed number of raw sites, reason) (frozen; DESIGN Appendix B2).
// One raw site more than tabled is the violation.
type wordExc struct {
	n   int
	why string
}

var wordExceptions = map[string]wordExc{
	"dec.scan":     {5, "digit accumulator di < b1^i <= bn <= base by the loop bound i < n and the decMaxPow table (CONST proves the table); Word(bn) and pow(b1,i) are table powers: the store z[0] = di and the four scalar arguments of the two mulAddWW calls"},
	"decToNat":     {1, "zz is a private copy used for radix conversion, hi(r*base + w) < base for w < base; it never reaches a Decimal"},
	"dec.setNat":   {1, "b is a binary scratch slice holding big.Word values for radix conversion; it never reaches a Decimal (the decimal words come out of divWVW by the base)"},
	"dec.setBytes": {2, "decoded bytes: the result is UNVALIDATED; the only caller (GobDecode) must validate every word before storing (rule GOB G2)"},
}

func (e *wordEngine) bounded(v ssa.Value, depth int, seen map[ssa.Value]bool) (bool, string) {
	m := e.m
	if depth == 0 || seen[v] {
		return seen[v], "cycle"
	}
	switch x := v.(type) {
	case *ssa.Const:
		if x.Value == nil || x.Value.Kind() != constant.Int {
			return false, "non-integer constant"
		}
		if constant.Sign(x.Value) >= 0 && constant.Compare(x.Value, token.LSS, e.base) {
			return true, ""
		}
		return false, "constant " + x.Value.ExactString() + " is not below the base"
	case *ssa.UnOp:
		if x.Op == token.MUL {
			if ia, ok := x.X.(*ssa.IndexAddr); ok && m.IsWordSlice(ia.X.Type()) {
				return true, "" // a word loaded from a mantissa
			}
			// a field of a struct parameter that was spilled into a local (c.bb with `c decConv`)
			if fa, ok := x.X.(*ssa.FieldAddr); ok {
				if al, ok := fa.X.(*ssa.Alloc); ok && al.Referrers() != nil {
					var src *ssa.Parameter
					n := 0
					for _, u := range *al.Referrers() {
						if st, ok := u.(*ssa.Store); ok && st.Addr == ssa.Value(al) {
							n++
							src, _ = st.Val.(*ssa.Parameter)
						}
					}
					if n == 1 && src != nil {
						switch e.fieldOK[src][fa.Field] {
						case 1:
							return true, ""
						case 2:
							return false, fmt.Sprintf("field %d of parameter %s is given a raw value at some call site", fa.Field, src.Name())
						}
						if e.fieldOK == nil || e.fieldOK[src] == nil {
							return true, "" // optimistic while computing
						}
						return true, ""
					}
				}
			}
			if ia, ok := x.X.(*ssa.IndexAddr); ok {
				// element of a package-level table (pow10tab, decMaxPow*): verified by CONST
				if g := tableGlobal(ia.X); g != "" {
					return true, ""
				}
			}
		}
		return false, "loaded from something that is not a mantissa"
	case *ssa.Phi:
		seen[v] = true
		for _, ed := range x.Edges {
			if ok, why := e.bounded(ed, depth-1, seen); !ok {
				return false, why
			}
		}
		return true, ""
	case *ssa.Convert:
		return e.bounded(x.X, depth-1, seen)
	case *ssa.ChangeType:
		return e.bounded(x.X, depth-1, seen)
	case *ssa.Extract:
		if call, ok := x.Tuple.(*ssa.Call); ok {
			return e.callBounded(call, x.Index, depth, seen)
		}
	case *ssa.Call:
		return e.callBounded(x, 0, depth, seen)
	case *ssa.BinOp:
		switch x.Op {
		case token.REM:
			return true, ""
		case token.QUO:
			// _DB/(b+1): the normalisation factor (tabled for divLarge), or x/k with x bounded
			if ok, _ := e.bounded(x.X, depth-1, seen); ok {
				return true, ""
			}
			if c, ok := x.X.(*ssa.Const); ok && c.Value != nil && constant.Compare(c.Value, token.EQL, e.base) {
				if add, ok := x.Y.(*ssa.BinOp); ok && add.Op == token.ADD {
					return true, ""
				}
			}
			return false, "quotient of an unbounded value"
		case token.SUB, token.SHR, token.AND:
			if ok, _ := e.bounded(x.X, depth-1, seen); ok {
				return true, ""
			}
			// x − (x / base)·base: the remainder of x by the word base, written out
			if x.Op == token.SUB {
				if mul, ok := stripConv(x.Y).(*ssa.BinOp); ok && mul.Op == token.MUL {
					for _, pr := range [][2]ssa.Value{{mul.X, mul.Y}, {mul.Y, mul.X}} {
						q, ok := stripConv(pr[0]).(*ssa.BinOp)
						if !ok || q.Op != token.QUO {
							continue
						}
						c1, ok1 := stripConv(q.Y).(*ssa.Const)
						c2, ok2 := stripConv(pr[1]).(*ssa.Const)
						if ok1 && ok2 && c1.Value != nil && c2.Value != nil && constant.Compare(constant.ToInt(c1.Value), token.EQL, e.base) && constant.Compare(constant.ToInt(c2.Value), token.EQL, e.base) &&
							(stripConv(q.X) == stripConv(x.X) || structEq(stripConv(q.X), stripConv(x.X), 4)) {
							return true, ""
						}
					}
				}
			}
			if x.Op == token.AND {
				if ok, _ := e.bounded(x.Y, depth-1, seen); ok {
					return true, ""
				}
			}
			return false, fmt.Sprintf("%s of an unbounded value", x.Op)
		case token.MUL:
			// (a / b) * b <= a: rounding a down to a multiple of b
			for _, pr := range [][2]ssa.Value{{x.X, x.Y}, {x.Y, x.X}} {
				if q, ok := stripConv(pr[0]).(*ssa.BinOp); ok && q.Op == token.QUO && structEq(stripConv(q.Y), stripConv(pr[1]), 4) {
					if ok, _ := e.bounded(q.X, depth-1, seen); ok {
						return true, ""
					}
				}
			}
			return false, "raw * (can reach or exceed the base)"
		default:
			return false, fmt.Sprintf("raw %s (can reach or exceed the base)", x.Op)
		}
	case *ssa.Field:
		if p, ok := x.X.(*ssa.Parameter); ok {
			switch e.fieldOK[p][x.Field] {
			case 1:
				return true, ""
			case 2:
				return false, fmt.Sprintf("field %d of parameter %s is given a raw value at some call site", x.Field, p.Name())
			}
			if e.fieldOK == nil || e.fieldOK[p] == nil {
				return m.IsWord(x.Type()), "field of a struct parameter"
			}
			return true, "" // optimistic while computing
		}
		return false, "field of a struct value"
	case *ssa.Parameter:
		switch e.paramOK[x] {
		case 1:
			return true, ""
		case 2:
			return false, "parameter " + x.Name() + " of " + m.FuncName(x.Parent()) + " is raw at some call site: " + e.paramWhy[x]
		}
		if !m.IsWord(x.Type()) {
			return false, "parameter " + x.Name() + " is an arbitrary " + x.Type().String()
		}
		return true, "" // optimistic while computing
	}
	// dominating v < base test
	return false, fmt.Sprintf("%T", v)
}

func tableGlobal(v ssa.Value) string {
	switch x := v.(type) {
	case *ssa.Global:
		switch x.Name() {
		case "pow10tab", "decMaxPow32", "decMaxPow64":
			return x.Name()
		}
	}
	return ""
}

func (e *wordEngine) callBounded(call *ssa.Call, idx int, depth int, seen map[ssa.Value]bool) (bool, string) {
	m := e.m
	cal := model.Unthunk(call.Call.StaticCallee())
	if cal == nil {
		return false, "result of a dynamic call"
	}
	name := cal.Name()
	if m.InDecimalPkg(cal) {
		if decimalKernels[name] {
			return true, ""
		}
		switch m.FuncName(cal) {
		case "pow10", "decMaxPow", "dec.modW":
			if m.FuncName(cal) == "decMaxPow" && idx != 0 {
				return false, "digit count"
			}
			return true, ""
		case "dec.divW":
			if idx == 1 {
				return true, "" // remainder of a division by a word
			}
		case "mulAddWWW_g":
			// (hi, lo) = x*y + c over binary words: with y <= base and c < base the high word is
			// at most y-1 (x*y + c <= (2^W-1)*y + y-1 = 2^W*y - 1), whatever x is
			if idx == 0 && len(call.Call.Args) == 3 {
				y, isK := call.Call.Args[1].(*ssa.Const)
				if isK && y.Value != nil && y.Value.Kind() == constant.Int && constant.Compare(y.Value, token.LEQ, e.base) {
					if ok, _ := e.bounded(call.Call.Args[2], depth-1, seen); ok {
						return true, ""
					}
				}
			}
			return false, "result of mulAddWWW_g"
		case "divWW_g", "divWW", "divWVW", "divWVW_g":
			// remainder (last result) when the divisor is the base or bounded
			div := call.Call.Args[len(call.Call.Args)-1]
			rem := cal.Signature.Results().Len() - 1
			if idx == rem {
				if ok, _ := e.bounded(div, depth-1, seen); ok {
					return true, ""
				}
				if c, ok := div.(*ssa.Const); ok && c.Value != nil && constant.Compare(c.Value, token.EQL, e.base) {
					return true, ""
				}
			}
			return false, "quotient or remainder of a binary division by an unbounded divisor"
		}
		return false, "result of " + m.FuncName(cal)
	}
	if cal.Pkg != nil && cal.Pkg.Pkg.Path() == "math/bits" && (name == "Div" || name == "Div64") && idx == 1 {
		div := call.Call.Args[2]
		if c, ok := div.(*ssa.Const); ok && c.Value != nil && constant.Compare(c.Value, token.LEQ, e.base) {
			return true, ""
		}
		if ok, _ := e.bounded(div, depth-1, seen); ok {
			return true, ""
		}
	}
	return false, "result of " + cal.String()
}

// guardedBelowBase: the value is on the true edge of a dominating `v < _DB` test.
func (e *wordEngine) guardedBelowBase(v ssa.Value, at ssa.Instruction) bool {
	fn := at.Parent()
	for _, b := range fn.Blocks {
		if len(b.Instrs) == 0 {
			continue
		}
		ifi, ok := b.Instrs[len(b.Instrs)-1].(*ssa.If)
		if !ok {
			continue
		}
		bo, ok := ifi.Cond.(*ssa.BinOp)
		if !ok || bo.X != v {
			continue
		}
		c, ok := bo.Y.(*ssa.Const)
		if !ok || c.Value == nil {
			continue
		}
		edge := -1
		switch {
		case bo.Op == token.LSS && constant.Compare(c.Value, token.LEQ, e.base):
			edge = 0
		case bo.Op == token.GEQ && constant.Compare(c.Value, token.LEQ, e.base):
			edge = 1
		}
		if edge >= 0 && e.m.EdgeDominates(b, edge, at.Block()) {
			return true
		}
	}
	return false
}

// relevantParams: Word parameters of non-kernel functions whose value can end up in a
// mantissa word or in a scalar operand of a decimal kernel (directly, through a φ/conversion,
// or by being passed on to another relevant parameter).
func relevantParams(m *model.Model, fns []*ssa.Function) map[*ssa.Parameter]bool {
	rel := map[*ssa.Parameter]bool{}
	var flows func(v ssa.Value, seen map[ssa.Value]bool) bool
	flows = func(v ssa.Value, seen map[ssa.Value]bool) bool {
		if seen[v] || v.Referrers() == nil {
			return false
		}
		seen[v] = true
		for _, u := range *v.Referrers() {
			switch x := u.(type) {
			case *ssa.Store:
				if ia, ok := x.Addr.(*ssa.IndexAddr); ok && x.Val == v && m.IsWordSlice(ia.X.Type()) {
					return true
				}
			case *ssa.Phi, *ssa.Convert, *ssa.ChangeType:
				if flows(x.(ssa.Value), seen) {
					return true
				}
			case ssa.CallInstruction:
				cal, c := model.Callee(x)
				if cal == nil || !m.InDecimalPkg(cal) {
					continue
				}
				for ai, a := range c.Args {
					if a != v {
						continue
					}
					if decimalKernels[cal.Name()] {
						return true
					}
					if ai < len(cal.Params) && rel[cal.Params[ai]] {
						return true
					}
				}
			}
		}
		return false
	}
	for ch := true; ch; {
		ch = false
		for _, fn := range fns {
			for _, p := range fn.Params {
				if m.IsWord(p.Type()) && !rel[p] && flows(p, map[ssa.Value]bool{}) {
					rel[p] = true
					ch = true
				}
			}
		}
	}
	return rel
}

// WORD binary-kernel — the vector kernels ported from math/big (addVV, subVV, addVW, subVW, shlVU,
// shrVU, mulAddVWW, addMulVVW, divWVW) compute modulo 2^W. They are for binary scratch data (the
// radix conversion of setNat); applied to a slice of decimal words — a value of type dec, a
// Decimal's mantissa — they leave words at or above the base and drop the carry one word early.
var binaryVectorKernels = map[string]bool{"addVV": true, "subVV": true, "addVW": true, "subVW": true, "shlVU": true, "shrVU": true, "mulAddVWW": true, "addMulVVW": true, "divWVW": true}

func runWordBinaryKernel(m *model.Model, s *ob.Set) {
	const R = "WORD"
	n := 0
	var bad []string
	pos := ""
	for _, fn := range m.Funcs {
		if !m.InDecimalPkg(fn) || len(fn.Blocks) == 0 || inKernelLayer(m, fn) {
			continue
		}
		live := m.Live(fn)
		for _, b := range fn.Blocks {
			if !live[b.Index] {
				continue
			}
			for _, in := range b.Instrs {
				cal, c := model.Callee(in)
				if cal == nil || !m.InDecimalPkg(cal) {
					continue
				}
				nm := m.FuncName(cal)
				nm = strings.TrimSuffix(nm, "_g")
				if !binaryVectorKernels[nm] {
					continue
				}
				n++
				if pos == "" {
					pos = m.InstrPos(in)
				}
				for _, a := range c.Args {
					if !m.IsWordSlice(a.Type()) {
						continue
					}
					v := a
					for {
						switch x := v.(type) {
						case *ssa.Convert:
							v = x.X
							continue
						case *ssa.ChangeType:
							v = x.X
							continue
						case *ssa.Slice:
							v = x.X
							continue
						}
						break
					}
					isDec := m.IsDecNamed(v.Type())
					if isDec {
						// a scratch array made in this function is what the function puts into it, whatever
						// the slice type it is given (b := make(dec, len(x)) filled with the words of a
						// big.Int is a binary number)
						rs := m.RootsOf(v)
						fresh := len(rs) > 0
						for l := range rs {
							if l != "fresh" {
								fresh = false
							}
						}
						if fresh {
							isDec = false
						}
					}
					if lf, ok := m.LoadOfDecField(v); ok && lf.Field == m.F.Mant {
						isDec = true
					}
					if isDec {
						bad = append(bad, fmt.Sprintf("%s: %s (arithmetic modulo 2^W) is applied to decimal words in %s: a word equal to base−1 becomes base instead of wrapping to 0 with a carry", m.InstrPos(in), nm, m.FuncName(fn)))
					}
				}
			}
		}
	}
	if n == 0 && len(bad) == 0 {
		return
	}
	if len(bad) == 0 {
		s.Ok(R, "binary-kernel", pos, fmt.Sprintf("%d call(s) of a binary vector kernel, none on decimal words", n))
	} else {
		s.Bad(R, "binary-kernel", pos, bad[0], bad[1:]...)
	}
}

func runWord(m *model.Model, s *ob.Set) {
	runWordBinaryKernel(m, s)
	runWordBaseProduct(m, s)
	const R = "WORD"
	e := &wordEngine{m: m, base: m.PkgConst("_DB"), paramOK: map[*ssa.Parameter]int{}, paramWhy: map[*ssa.Parameter]string{}}
	var fns []*ssa.Function
	for _, fn := range m.Funcs {
		if m.InDecimalPkg(fn) && !inKernelLayer(m, fn) {
			fns = append(fns, fn)
		}
	}
	rel := relevantParams(m, fns)
	// Word parameters: bounded iff bounded at every call site (two rounds)
	for round := 0; round < 3; round++ {
		status := map[*ssa.Parameter]int{}
		why := map[*ssa.Parameter]string{}
		for _, fn := range fns {
			live := m.Live(fn)
			for _, b := range fn.Blocks {
				if !live[b.Index] {
					continue
				}
				for _, in := range b.Instrs {
					cal, c := model.Callee(in)
					if cal == nil || len(cal.Blocks) == 0 || !m.InDecimalPkg(cal) || inKernelLayer(m, cal) {
						continue
					}
					for ai, a := range c.Args {
						if ai >= len(cal.Params) || !m.IsWord(cal.Params[ai].Type()) {
							continue
						}
						p := cal.Params[ai]
						ok, w := e.bounded(a, 8, map[ssa.Value]bool{})
						if !ok && e.guardedBelowBase(a, in) {
							ok = true
						}
						if _, tabled := wordExceptions[m.FuncName(fn)]; !ok && tabled {
							ok = true // counted as a raw site of the tabled caller below
						}
						if ok {
							if status[p] == 0 {
								status[p] = 1
							}
						} else {
							status[p] = 2
							why[p] = m.InstrPos(in) + ": " + w
						}
					}
				}
			}
		}
		// struct parameters: per Word field
		fstatus := map[*ssa.Parameter]map[int]int{}
		for _, fn := range fns {
			live := m.Live(fn)
			for _, b := range fn.Blocks {
				if !live[b.Index] {
					continue
				}
				for _, in := range b.Instrs {
					cal, c := model.Callee(in)
					if cal == nil || len(cal.Blocks) == 0 || !m.InDecimalPkg(cal) || inKernelLayer(m, cal) {
						continue
					}
					for ai, a := range c.Args {
						if ai >= len(cal.Params) {
							continue
						}
						stt, isStruct := cal.Params[ai].Type().Underlying().(*types.Struct)
						if !isStruct || m.IsDecNamed(cal.Params[ai].Type()) {
							continue
						}
						p := cal.Params[ai]
						if fstatus[p] == nil {
							fstatus[p] = map[int]int{}
						}
						set := func(k int, ok bool) {
							if ok {
								if fstatus[p][k] == 0 {
									fstatus[p][k] = 1
								}
							} else {
								fstatus[p][k] = 2
							}
						}
						// the argument is the value of a local struct variable filled field by field, or
						// the caller's own parameter handed on
						switch av := a.(type) {
						case *ssa.UnOp:
							al, isAl := av.X.(*ssa.Alloc)
							if av.Op != token.MUL || !isAl || al.Referrers() == nil {
								for k := 0; k < stt.NumFields(); k++ {
									set(k, false)
								}
								continue
							}
							given := map[int]bool{}
							for _, u := range *al.Referrers() {
								fa, ok := u.(*ssa.FieldAddr)
								if !ok || fa.Referrers() == nil {
									continue
								}
								for _, u2 := range *fa.Referrers() {
									if st, ok := u2.(*ssa.Store); ok && st.Addr == ssa.Value(fa) {
										given[fa.Field] = true
										if m.IsWord(stt.Field(fa.Field).Type()) {
											okv, _ := e.bounded(st.Val, 8, map[ssa.Value]bool{})
											set(fa.Field, okv || e.guardedBelowBase(st.Val, st))
										}
									}
								}
							}
							for k := 0; k < stt.NumFields(); k++ {
								if !given[k] && m.IsWord(stt.Field(k).Type()) {
									set(k, true) // the zero value
								}
							}
						case *ssa.Parameter:
							for k := 0; k < stt.NumFields(); k++ {
								if m.IsWord(stt.Field(k).Type()) {
									set(k, e.fieldOK[av][k] != 2)
								}
							}
						default:
							for k := 0; k < stt.NumFields(); k++ {
								set(k, false)
							}
						}
					}
				}
			}
		}
		e.paramOK, e.paramWhy, e.fieldOK = status, why, fstatus
	}

	type site struct {
		fn   *ssa.Function
		pos  string
		what string
		ok   bool
		why  string
	}
	var sites []site
	for _, fn := range fns {
		live := m.Live(fn)
		for _, b := range fn.Blocks {
			if !live[b.Index] {
				continue
			}
			for _, in := range b.Instrs {
				switch x := in.(type) {
				case *ssa.Store:
					ia, ok := x.Addr.(*ssa.IndexAddr)
					if !ok || !m.IsWordSlice(ia.X.Type()) {
						continue
					}
					okb, why := e.bounded(x.Val, 8, map[ssa.Value]bool{})
					if !okb && e.guardedBelowBase(x.Val, x) {
						okb = true
					}
					sites = append(sites, site{fn, m.InstrPos(x), "store into a word slice", okb, why})
				case ssa.CallInstruction:
					cal, c := model.Callee(x)
					if cal == nil || !m.InDecimalPkg(cal) {
						continue
					}
					if !decimalKernels[cal.Name()] && (len(cal.Blocks) == 0 || inKernelLayer(m, cal)) {
						continue
					}
					for ai, a := range c.Args {
						if !m.IsWord(a.Type()) {
							continue
						}
						if !decimalKernels[cal.Name()] && !(ai < len(cal.Params) && rel[cal.Params[ai]]) {
							continue // a Word parameter that never reaches a mantissa (comparison helpers, conversion bases)
						}
						okb, why := e.bounded(a, 8, map[ssa.Value]bool{})
						if !okb && e.guardedBelowBase(a, x) {
							okb = true
						}
						sites = append(sites, site{fn, m.InstrPos(x), fmt.Sprintf("scalar argument %d of %s", ai, cal.Name()), okb, why})
					}
				}
			}
		}
	}
	// one obligation per (function, kind): the number of raw sites must be 0 unless the function is tabled
	byFn := map[string][]site{}
	var names []string
	for _, st := range sites {
		n := m.FuncName(st.fn)
		if byFn[n] == nil {
			names = append(names, n)
		}
		byFn[n] = append(byFn[n], st)
	}
	sort.Strings(names)
	for _, n := range names {
		var raw []string
		for _, st := range byFn[n] {
			if !st.ok {
				raw = append(raw, fmt.Sprintf("%s: %s: %s", st.pos, st.what, st.why))
			}
		}
		pos := byFn[n][0].pos
		exc, tabled := wordExceptions[n]
		switch {
		case len(raw) == 0:
			s.Ok(R, n, pos, fmt.Sprintf("%d word sites, all bounded", len(byFn[n])))
		case tabled && len(raw) <= exc.n:
			s.Ok(R, n, pos, fmt.Sprintf("%d raw site(s), %d tabled: %s", len(raw), exc.n, exc.why))
		case tabled:
			s.Bad(R, n, pos, fmt.Sprintf("%d raw word sites, the exception table allows %d (%s)", len(raw), exc.n, exc.why), raw...)
		default:
			s.Bad(R, n, pos, fmt.Sprintf("%d of %d word sites take a value that can reach or exceed the word base", len(raw), len(byFn[n])), raw...)
		}
	}
	// taint: the unvalidated producer may only be consumed by the validating decoder
	sb := m.Lookup("dec.setBytes")
	var users []string
	for _, fn := range m.Funcs {
		for _, b := range fn.Blocks {
			for _, in := range b.Instrs {
				if cal, _ := model.Callee(in); cal == sb {
					users = append(users, m.FuncName(fn))
				}
			}
		}
	}
	sort.Strings(users)
	okUsers := len(users) >= 1
	for _, u := range users {
		if u != "(*Decimal).GobDecode" {
			okUsers = false
		}
	}
	s.Check(okUsers, R, "dec.setBytes/consumers", m.Pos(sb.Pos()), "only GobDecode consumes the unvalidated words (validated by rule GOB G2)", "dec.setBytes (unvalidated words) is called from "+strings.Join(users, ", ")+"; only the validating decoder may consume it")
}

// runWordBaseProduct: a mantissa word (anything up to base-1) times a constant, computed with the
// plain * of a machine word, wraps as soon as constant × (base-1) does not fit the word; the
// package multiplies through mulAddWWW_g / bits.Mul, which keep the high half. (x[1]*_DB in a
// conversion to uint64 is right for x[1] <= 1 only.)
func runWordBaseProduct(m *model.Model, s *ob.Set) {
	const R = "WORD"
	base := m.PkgConst("_DB")
	arch := "amd64"
	if m.Cfg.Name == "386" {
		arch = "386"
	}
	sizes := types.SizesFor("gc", arch)
	n := 0
	for _, fn := range m.Funcs {
		if !m.InDecimalPkg(fn) || len(fn.Blocks) == 0 || fn.Synthetic != "" {
			continue
		}
		live := m.Live(fn)
		k := 0
		for _, b := range fn.Blocks {
			if !live[b.Index] {
				continue
			}
			for _, in := range b.Instrs {
				bo, ok := in.(*ssa.BinOp)
				if !ok || bo.Op != token.MUL {
					continue
				}
				bt, ok := bo.Type().Underlying().(*types.Basic)
				if !ok || bt.Info()&types.IsUnsigned == 0 {
					continue
				}
				var c *ssa.Const
				var w ssa.Value
				if kc, ok := bo.X.(*ssa.Const); ok {
					c, w = kc, bo.Y
				} else if kc, ok := bo.Y.(*ssa.Const); ok {
					c, w = kc, bo.X
				}
				if c == nil || c.Value == nil || c.Value.Kind() != constant.Int {
					continue
				}
				// the other operand is a word of a mantissa: loaded from a Word slice
				ld, ok := stripConv(w).(*ssa.UnOp)
				if !ok || ld.Op != token.MUL {
					continue
				}
				ia, ok := ld.X.(*ssa.IndexAddr)
				if !ok || !m.IsWordSlice(ia.X.Type()) {
					continue
				}
				bits := sizes.Sizeof(bt) * 8
				lim := constant.Shift(constant.MakeInt64(1), token.SHL, uint(bits))
				top := constant.BinaryOp(c.Value, token.MUL, constant.BinaryOp(base, token.SUB, constant.MakeInt64(1)))
				n++
				if constant.Compare(top, token.LSS, lim) {
					continue
				}
				k++
				s.Bad(R, fmt.Sprintf("%s/word-product#%d", m.FuncName(fn), k), m.InstrPos(bo), fmt.Sprintf("a mantissa word is multiplied by the constant %s in a %d-bit word: the product wraps for words the mantissa may hold (up to base-1); use the double-word multiplication (mulAddWWW_g, bits.Mul)", c.Value.ExactString(), bits))
			}
		}
	}
	_ = n
}
