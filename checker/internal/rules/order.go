package rules

// E3 — ORDER (part 1): CARRY, POOL, ALIASGUARD, GUARD, SIGN, CMPSYM, MUSTFLOW.
// Must/may-precede questions on one function's pruned CFG, with calls resolved
// through summaries.

import (
	"fmt"
	"go/constant"
	"go/token"
	"go/types"
	"sort"
	"strings"

	"golang.org/x/tools/go/ssa"

	"decverif/internal/model"
	"decverif/internal/ob"
)

func init() {
	Register(&Rule{Name: "CARRY", Floor: 10, Run: runCarry,
		Doc: "the carry, borrow or remainder returned by a vector kernel is consumed, except at the tabled sites where it is provably irrelevant"})
	Register(&Rule{Name: "POOL", Floor: 3, Run: runPool,
		Doc: "a pooled scratch buffer is returned to the pool at most once on any path, is not used afterwards, and never escapes into a Decimal or a result"})
	Register(&Rule{Name: "ALIASGUARD", Floor: 2, Run: runAliasGuard,
		Doc: "a function that lets a non-elementwise routine write into its own result buffer while reading a source parameter first tests alias(result, source) and drops the buffer when they overlap"})
	Register(&Rule{Name: "GUARD", Floor: 1, Run: runGuard,
		Doc: "every z.usub(a, b) is dominated by a magnitude comparison implying |a| >= |b| (the precondition that keeps dec.sub's underflow panic dead)"})
	Register(&Rule{Name: "SIGN", Floor: 8, Run: runSign,
		Doc: "the sign of a Decimal is final before it is rounded: no store to neg after a call that may round the same object, except in Neg/Abs (documented) and the exact-zero fix-up; Neg/Abs are not used inside the package"})
	Register(&Rule{Name: "CMPSYM", Floor: 2, Run: runCmpSym,
		Doc: "in Cmp, ucmp and dec.cmp every `a < b -> -1` has the sibling `a > b -> +1` over the same operands; ucmp compares exponents before mantissa words"})
	Register(&Rule{Name: "MUSTFLOW", Floor: 4, Run: runMustFlow,
		Doc: "the digit shift returned by dnorm flows into the exponent; SetBitsExp's exponent also depends on the words stripped by norm; the remainder of uquo's division reaches the sticky bit"})
}

// ---------------------------------------------------------------- CARRY

var carryKernels = map[string]bool{"add10VV": true, "sub10VV": true, "add10VW": true, "sub10VW": true, "shl10VU": true, "shr10VU": true, "mulAdd10VWW": true, "addMul10VVW": true, "div10VWW": true}

// (enclosing function, kernel) -> allowed number of discarded results, with the reason.
var carryTable = map[string]struct {
	n   int
	why string
}{
	"dec.divLarge/mulAdd10VWW":     {1, "normalisation factor d <= base/(v1+1): v*d < base^n, no carry out"},
	"dec.shr/shr10VU":              {1, "the digits shifted out are dropped by definition"},
	"decBasicSqr/add10VV":          {1, "z+t is the 2n-word square and cannot carry"},
	"decKaratsubaSqr/sub10VV":      {1, "|a-b| after the first subtraction's borrow told the order"},
	"decKaratsuba/sub10VV":         {2, "|a-b| after the first subtraction's borrow told the order (x and y halves)"},
	"dec.divRecursiveStep/sub10VW": {5, "q̂ > 0 and q̂·v̂ >= v̂ when the comparison said too large; borrows propagate into words that absorb them"},
	"decAddAt/add10VW":             {1, "the result buffer is sized for the full product"},
	"decKaratsubaAdd/add10VW":      {1, "the result buffer is sized for the full product"},
	"decKaratsubaSub/sub10VW":      {1, "the result buffer is sized for the full product"},
	"dnorm/shl10VU":                {1, "shifting by the number of leading zero digits cannot shift a digit out (checked only under debugDecimal)"},
	"dec.divBasic/add10VW":         {1, "add-back: the carry into u[j+n] cancels the borrow of the preceding subtraction; the one-word add wraps modulo the base by design"},
}

// carryShapeOK recognises the two shapes of a discarded result that are accepted wherever they
// occur (so that moving the code into or out of a helper changes nothing):
//
//	(P) in-place propagation  k10VW(s, s, c)  where c is the carry/borrow result of another
//	    kernel call: the carry of a preceding vector operation is pushed into the rest of the same
//	    buffer, which the caller sized for the full result;
//	(D) in-place decrement/increment by the constant 1  k10VW(s, s, 1)  (q̂-- in the division).
//
// Everything else (a dropped primary carry of a VV kernel, a VW whose source and destination
// differ, a scalar that is not a carry) stays subject to the per-function table.
func carryShapeOK(m *model.Model, call *ssa.Call) string {
	cal := model.Unthunk(call.Call.StaticCallee())
	if cal != nil && cal.Name() == "sub10VV" && len(call.Call.Args) == 3 {
		// (R) |a-b|: `if sub10VV(d, a, b) != 0 { sub10VV(d, b, a) }` — the first subtraction's borrow
		// said b > a, so the swapped one cannot borrow
		fn := call.Parent()
		for _, gb := range fn.Blocks {
			if len(gb.Instrs) == 0 {
				continue
			}
			ifi, ok := gb.Instrs[len(gb.Instrs)-1].(*ssa.If)
			if !ok {
				continue
			}
			bo, ok := ifi.Cond.(*ssa.BinOp)
			if !ok || (bo.Op != token.NEQ && bo.Op != token.GTR && bo.Op != token.EQL) {
				continue
			}
			borrowed := 0 // the edge on which the first subtraction borrowed
			if bo.Op == token.EQL {
				borrowed = 1
			}
			first, ok := stripConv(bo.X).(*ssa.Call)
			if !ok || model.Unthunk(first.Call.StaticCallee()) != cal || len(first.Call.Args) != 3 {
				continue
			}
			if z, ok := model.ConstInt(bo.Y); !ok || z != 0 {
				continue
			}
			if !m.EdgeDominates(gb, borrowed, call.Block()) {
				continue
			}
			eq := func(a, b ssa.Value) bool { return stripConv(a) == stripConv(b) || sameSliceExpr(a, b) }
			if eq(first.Call.Args[0], call.Call.Args[0]) && eq(first.Call.Args[1], call.Call.Args[2]) && eq(first.Call.Args[2], call.Call.Args[1]) {
				return "retry with the operands swapped after the first subtraction borrowed"
			}
		}
		return ""
	}
	if cal != nil && cal.Name() == "div10VWW" && len(call.Call.Args) == 4 && sameSliceExpr(call.Call.Args[0], call.Call.Args[1]) {
		// (U) un-scaling: the buffer is divided in place by the very factor it was multiplied with
		// earlier (mulAdd10VWW(buf', src, d, 0) with buf' the same storage, dominating): the division
		// is exact, the remainder is 0
		if k, ok := model.ConstInt(call.Call.Args[3]); ok && k == 0 {
			d := stripConv(call.Call.Args[2])
			fn := call.Parent()
			for _, b := range fn.Blocks {
				for _, in := range b.Instrs {
					c2, ok := in.(*ssa.Call)
					if !ok || model.Unthunk(c2.Call.StaticCallee()) == nil || model.Unthunk(c2.Call.StaticCallee()).Name() != "mulAdd10VWW" || len(c2.Call.Args) != 4 {
						continue
					}
					if stripConv(c2.Call.Args[2]) != d || !m.InstrDominates(c2, call) {
						continue
					}
					if k2, ok := model.ConstInt(c2.Call.Args[3]); !ok || k2 != 0 {
						continue
					}
					ra, rb := m.RootsOf(c2.Call.Args[0]), m.RootsOf(call.Call.Args[0])
					for l := range ra {
						if rb[l] && l != "nil" {
							return "the buffer is divided by the factor it was multiplied with: exact"
						}
					}
				}
			}
		}
		return ""
	}
	if cal != nil && cal.Name() == "shr10VU" {
		// (S) a right shift drops the digits it shifts out: that is its purpose
		return "digits shifted out to the right are dropped by definition"
	}
	if cal != nil && cal.Name() == "shl10VU" && len(call.Call.Args) == 3 && sameSliceExpr(call.Call.Args[0], call.Call.Args[1]) {
		// (N) in-place left shift by the number of leading zero digits of the top word: nothing
		// can be shifted out (what dnorm does)
		if c, ok := stripConv(call.Call.Args[2]).(*ssa.Call); ok {
			if c2 := model.Unthunk(c.Call.StaticCallee()); c2 != nil && c2.Name() == "nlz10" {
				return "in-place shift by nlz10 of the top word"
			}
		}
		if ph, ok := stripConv(call.Call.Args[2]).(*ssa.Phi); ok {
			all := len(ph.Edges) > 0
			for _, e := range ph.Edges {
				c, ok := stripConv(e).(*ssa.Call)
				if !ok || model.Unthunk(c.Call.StaticCallee()) == nil || model.Unthunk(c.Call.StaticCallee()).Name() != "nlz10" {
					all = false
				}
			}
			if all {
				return "in-place shift by nlz10 of the top word"
			}
		}
		return ""
	}
	if cal == nil || !strings.HasSuffix(cal.Name(), "VW") || len(call.Call.Args) != 3 {
		return ""
	}
	if !sameSliceExpr(call.Call.Args[0], call.Call.Args[1]) {
		return ""
	}
	y := stripConv(call.Call.Args[2])
	if k, ok := model.ConstInt(y); ok && k == 1 {
		return "in-place ±1"
	}
	var isCarry func(v ssa.Value, d int) bool
	isCarry = func(v ssa.Value, d int) bool {
		if d == 0 {
			return false
		}
		switch x := stripConv(v).(type) {
		case *ssa.Call:
			c2 := model.Unthunk(x.Call.StaticCallee())
			return c2 != nil && m.InDecimalPkg(c2) && carryKernels[c2.Name()]
		case *ssa.Phi:
			for _, e := range x.Edges {
				if !isCarry(e, d-1) {
					return false
				}
			}
			return true
		}
		return false
	}
	if isCarry(y, 4) {
		// … into a window that is more than the one word the carry lands on: a destination
		// z[j:j+1] absorbs the carry only if that word is not all nines, and the carry out of it is
		// what is being thrown away
		if sl, ok := stripConv(call.Call.Args[0]).(*ssa.Slice); ok && sl.High != nil {
			lo := sxC(0)
			if sl.Low != nil {
				lo = linSx(sl.Low, 6)
			}
			if d := sxAdd(linSx(sl.High, 6), sxNeg(lo)); d.isC() && d.k == 1 {
				return "!a carry is propagated into a destination window of exactly one word and the carry out of that word is discarded: the word may be all nines"
			}
		}
		return "in-place propagation of a kernel's carry"
	}
	return ""
}

// linSx: an integer SSA value as a canonical sum (see asmsym.go): +, − and multiplication by a
// constant are looked through, everything else is an atom named by its SSA identity.
func linSx(v ssa.Value, depth int) *sx {
	if k, ok := model.ConstInt(v); ok {
		return sxC(uint64(k))
	}
	if depth > 0 {
		switch x := v.(type) {
		case *ssa.BinOp:
			switch x.Op {
			case token.ADD:
				return sxAdd(linSx(x.X, depth-1), linSx(x.Y, depth-1))
			case token.SUB:
				return sxAdd(linSx(x.X, depth-1), sxNeg(linSx(x.Y, depth-1)))
			case token.MUL:
				if k, ok := model.ConstInt(x.Y); ok {
					return sxMulC(linSx(x.X, depth-1), uint64(k))
				}
				if k, ok := model.ConstInt(x.X); ok {
					return sxMulC(linSx(x.Y, depth-1), uint64(k))
				}
			case token.SHL:
				if k, ok := model.ConstInt(x.Y); ok && k >= 0 && k < 62 {
					return sxMulC(linSx(x.X, depth-1), uint64(1)<<uint(k))
				}
			}
		case *ssa.Convert:
			return linSx(x.X, depth-1)
		case *ssa.ChangeType:
			return linSx(x.X, depth-1)
		}
	}
	return sxLeaf(fmt.Sprintf("v:%s@%p", v.Name(), v))
}

// sameSliceExpr: a and b start at the same element of the same buffer (their lengths may differ).
func sameSliceExpr(a, b ssa.Value) bool {
	a, b = stripConv(a), stripConv(b)
	if a == b {
		return true
	}
	// two loads of the same field of the same object (z.mant, z.mant)
	if la, ok := a.(*ssa.UnOp); ok && la.Op == token.MUL {
		if lb, ok := b.(*ssa.UnOp); ok && lb.Op == token.MUL {
			fa, ok1 := la.X.(*ssa.FieldAddr)
			fb, ok2 := lb.X.(*ssa.FieldAddr)
			if ok1 && ok2 && fa.Field == fb.Field && fa.X == fb.X {
				return true
			}
		}
	}
	sa, ok1 := a.(*ssa.Slice)
	sb, ok2 := b.(*ssa.Slice)
	if !ok1 || !ok2 || sa.X != sb.X {
		return false
	}
	eq := func(x, y ssa.Value) bool {
		if x == nil || y == nil {
			return x == nil && y == nil
		}
		return structEq(x, y, 5)
	}
	return eq(sa.Low, sb.Low)
}

func liveReferrers(m *model.Model, v ssa.Value) int {
	if v.Referrers() == nil {
		return 0
	}
	n := 0
	for _, u := range *v.Referrers() {
		if _, ok := u.(*ssa.DebugRef); ok {
			continue
		}
		if !m.Live(u.Parent())[u.Block().Index] {
			continue
		}
		n++
	}
	return n
}

func runCarry(m *model.Model, s *ob.Set) {
	const R = "CARRY"
	disc := map[string][]string{}
	shaped := map[string][]string{}
	used := map[string]int{}
	var forced [][3]string
	oneWordAddBack := 0
	defer func() {
		for _, f := range forced {
			s.Bad(R, f[0]+"/window", f[1], f[2])
		}
	}()
	for _, fn := range m.Funcs {
		if !m.InDecimalPkg(fn) || inKernelLayer(m, fn) {
			continue
		}
		live := m.Live(fn)
		for _, b := range fn.Blocks {
			if !live[b.Index] {
				continue
			}
			for _, in := range b.Instrs {
				call, ok := in.(*ssa.Call)
				if !ok {
					continue
				}
				cal := model.Unthunk(call.Call.StaticCallee())
				if cal == nil || !m.InDecimalPkg(cal) || !carryKernels[cal.Name()] {
					continue
				}
				key := m.FuncName(fn) + "/" + cal.Name()
				if liveReferrers(m, call) == 0 {
					if why := carryShapeOK(m, call); strings.HasPrefix(why, "!") {
						if m.FuncName(fn) == "dec.divBasic" && cal.Name() == "add10VW" && oneWordAddBack == 0 {
							// Knuth D6, add back: the carry out of u[j+n] cancels the borrow the
							// multiply-and-subtract step took from the same word (tabled, one site)
							oneWordAddBack++
							shaped[key] = append(shaped[key], "add-back into the one word the borrow came from (Knuth D6; tabled)")
							continue
						}
						forced = append(forced, [3]string{key, m.InstrPos(call), why[1:]})
						continue
					} else if why != "" {
						shaped[key] = append(shaped[key], why)
						continue
					}
					disc[key] = append(disc[key], m.InstrPos(call))
				} else {
					used[key]++
				}
			}
		}
	}
	keys := map[string]bool{}
	for k := range disc {
		keys[k] = true
	}
	for k := range used {
		keys[k] = true
	}
	for k := range shaped {
		keys[k] = true
	}
	var ks []string
	for k := range keys {
		ks = append(ks, k)
	}
	sort.Strings(ks)
	for _, k := range ks {
		d := disc[k]
		t, tabled := carryTable[k]
		switch {
		case len(d) == 0 && len(shaped[k]) > 0:
			s.Ok(R, k, "-", fmt.Sprintf("%d call(s) consumed; %d discard(s) of an in-place propagation/decrement (%s)", used[k], len(shaped[k]), shaped[k][0]))
		case len(d) == 0:
			s.Ok(R, k, "-", fmt.Sprintf("%d call(s), every result consumed", used[k]))
		case tabled && len(d) <= t.n:
			s.Ok(R, k, d[0], fmt.Sprintf("%d discarded (table allows %d: %s), %d consumed", len(d), t.n, t.why, used[k]))
		default:
			allow := 0
			if tabled {
				allow = t.n
			}
			s.Bad(R, k, d[0], fmt.Sprintf("%d carry/borrow/remainder result(s) discarded, the table allows %d", len(d), allow), d...)
		}
	}
}

// ---------------------------------------------------------------- POOL

func runPool(m *model.Model, s *ob.Set) {
	const R = "POOL"
	runPoolEscape(m, s)
	getDec, putDec := m.Lookup("getDec"), m.Lookup("putDec")
	nsites := 0
	for _, fn := range m.Funcs {
		if !m.InDecimalPkg(fn) || fn == getDec || fn == putDec {
			continue
		}
		live := m.Live(fn)
		var gets []*ssa.Call
		for _, b := range fn.Blocks {
			if !live[b.Index] {
				continue
			}
			for _, in := range b.Instrs {
				if c, ok := in.(*ssa.Call); ok && model.Unthunk(c.Call.StaticCallee()) == getDec {
					gets = append(gets, c)
				}
			}
		}
		for gi, g := range gets {
			nsites++
			c := fmt.Sprintf("%s/getDec#%d", m.FuncName(fn), gi+1)
			if len(gets) == 1 {
				c = m.FuncName(fn) + "/getDec"
			}
			// is this buffer handed to the temps slice (released by the owner)?
			stored := false
			if g.Referrers() != nil {
				for _, u := range *g.Referrers() {
					if st, ok := u.(*ssa.Store); ok && st.Val == ssa.Value(g) {
						stored = true
					}
				}
			}
			if stored {
				ok := m.FuncName(fn) == "dec.divRecursiveStep"
				s.Check(ok, R, c, m.InstrPos(g), "stored in temps[depth]; released by the owner dec.divRecursive (tabled)", "a pooled buffer is stored away in "+m.FuncName(fn)+"; only divRecursiveStep -> temps[depth] is tabled")
				continue
			}
			// forward analysis: number of puts of g so far (0,1,2)
			isPut := func(in ssa.Instruction) bool {
				cal, cc := model.Callee(in)
				return cal == putDec && cc.Args[0] == ssa.Value(g)
			}
			usesBuf := func(in ssa.Instruction) bool {
				if isPut(in) {
					return false
				}
				var ops []*ssa.Value
				ops = in.Operands(ops)
				for _, o := range ops {
					if *o == nil {
						continue
					}
					if *o == ssa.Value(g) {
						return true
					}
					if m.IsWordSlice((*o).Type()) && len(gets) == 1 && m.RootsOf(*o)["pool"] {
						return true
					}
				}
				return false
			}
			n := len(fn.Blocks)
			in := make([]int, n)
			for i := range in {
				in[i] = -1
			}
			in[g.Block().Index] = 0
			work := []int{g.Block().Index}
			var dbl, uap string
			step := func(b *ssa.BasicBlock, st int, rec bool) int {
				started := b != g.Block()
				for _, ins := range b.Instrs {
					if ins == ssa.Instruction(g) {
						started = true
						st = 0
						continue
					}
					if !started {
						continue
					}
					if isPut(ins) {
						if st >= 1 && rec && dbl == "" {
							dbl = m.InstrPos(ins)
						}
						st++
						if st > 2 {
							st = 2
						}
						continue
					}
					if st >= 1 && rec && uap == "" && usesBuf(ins) {
						uap = m.InstrPos(ins)
					}
				}
				return st
			}
			for len(work) > 0 {
				bi := work[len(work)-1]
				work = work[:len(work)-1]
				out := step(fn.Blocks[bi], in[bi], false)
				for _, ed := range model.LiveSuccs(fn.Blocks[bi]) {
					if ed.To == g.Block() {
						continue // the next iteration obtains a new buffer
					}
					if out > in[ed.To.Index] {
						in[ed.To.Index] = out
						work = append(work, ed.To.Index)
					}
				}
			}
			for bi, b := range fn.Blocks {
				if in[bi] >= 0 && live[bi] {
					step(b, in[bi], true)
				}
			}
			switch {
			case dbl != "":
				s.Bad(R, c, m.InstrPos(g), "the buffer can be put back into the pool twice (second put at "+dbl+"): two goroutines could be handed the same array")
			case uap != "":
				s.Bad(R, c, m.InstrPos(g), "the buffer (or a slice of it) is used at "+uap+" after it was returned to the pool")
			default:
				s.Ok(R, c, m.InstrPos(g), "at most one put on every path; no use after put")
			}
		}
		// no pooled memory in results
		for i := 0; i < fn.Signature.Results().Len(); i++ {
			if m.IsWordSlice(fn.Signature.Results().At(i).Type()) && m.RetRoots(fn, i)["pool"] && len(gets) > 0 {
				s.Bad(R, fmt.Sprintf("%s/result#%d", m.FuncName(fn), i), m.Pos(fn.Pos()), "a slice backed by a pooled buffer obtained here is returned to the caller")
			}
		}
	}
	// divRecursive releases temps
	{
		fn := m.Lookup("dec.divRecursive")
		rel := false
		for _, b := range fn.Blocks {
			for _, in := range b.Instrs {
				if cal, c := model.Callee(in); cal == putDec {
					if _, isCall := c.Args[0].(*ssa.Call); !isCall {
						rel = true // putDec of a value read from temps
					}
				}
			}
		}
		s.Check(rel, R, "dec.divRecursive/temps", m.Pos(fn.Pos()), "releases the temporaries collected by divRecursiveStep", "divRecursive no longer releases the temps slice")
	}
	if nsites < 2 {
		m.Blind("POOL: only %d getDec sites found", nsites)
	}
}

// ---------------------------------------------------------------- ALIASGUARD

// The routines that read their operands at other positions than the one they are writing
// (schoolbook and Karatsuba products, the long divisions): they must never be handed a destination
// that overlaps an operand. Found by shape — a plain function (no receiver) of the dec layer that is
// not an element-wise kernel, takes a destination and at least one more word slice, and writes
// through the destination — plus the two division methods, which are named.
var nonElementwiseNamed = map[string]bool{"dec.divBasic": true, "dec.divRecursive": true}

func isNonElementwise(m *model.Model, fn *ssa.Function) bool {
	if fn == nil {
		return false
	}
	if nonElementwiseNamed[m.FuncName(fn)] {
		return true
	}
	if fn.Signature.Recv() != nil || len(fn.Blocks) == 0 || !m.InDecimalPkg(fn) || inKernelLayer(m, fn) || carryKernels[fn.Name()] {
		return false
	}
	if len(fn.Params) < 2 || !m.IsWordSlice(fn.Params[0].Type()) {
		return false
	}
	// (z, x, y dec) or (z, x dec) with further operands: products and squares; helpers with an
	// integer position argument (decAddAt(z, x, i), the Karatsuba add/sub steps) are element-wise
	nslices := 0
	for _, p := range fn.Params {
		if m.IsWordSlice(p.Type()) {
			nslices++
		} else {
			return false
		}
	}
	if !(nslices >= 2 && m.ElemWrites(fn)["P0"]) {
		return false
	}
	// a routine that tests its own destination for overlap (alias(z, …) on parameter 0) looks after
	// itself: its callers need no guard of their own
	for _, b := range fn.Blocks {
		for _, in := range b.Instrs {
			if cal, c := model.Callee(in); cal != nil && m.InDecimalPkg(cal) && (cal.Name() == "alias" || cal.Name() == "same") && len(c.Args) == 2 {
				if m.RootsOf(c.Args[0])["P0"] || m.RootsOf(c.Args[1])["P0"] {
					return false
				}
			}
		}
	}
	return true
}

func runAliasGuard(m *model.Model, s *ob.Set) {
	const R = "ALIASGUARD"
	runAliasSkip(m, s)
	aliasFn := m.Lookup("alias")
	aliasLenBlind(m, s, aliasFn)
	for _, fn := range m.Funcs {
		if !m.InDecimalPkg(fn) || inKernelLayer(m, fn) || len(fn.Params) == 0 || !m.IsWordSlice(fn.Params[0].Type()) {
			continue
		}
		if isNonElementwise(m, fn) || m.FuncName(fn) == "dec.divRecursiveStep" {
			continue // these take pre-allocated, caller-guarded buffers
		}
		live := m.Live(fn)
		need := map[int]string{} // source param index -> position of the first non-elementwise call
		needAt := map[int][]ssa.Instruction{}
		for _, b := range fn.Blocks {
			if !live[b.Index] {
				continue
			}
			for _, in := range b.Instrs {
				cal, c := model.Callee(in)
				if cal == nil || !isNonElementwise(m, cal) {
					continue
				}
				// the routine's destination and sources (receiver/first arg = dest)
				if !m.RootsOf(c.Args[0])["P0"] {
					continue
				}
				for _, a := range c.Args[1:] {
					if !m.IsWordSlice(a.Type()) {
						continue
					}
					for l := range m.RootsOf(a) {
						if strings.HasPrefix(l, "P") && !strings.Contains(l, ".") && l != "P0" {
							var j int
							fmt.Sscanf(l, "P%d", &j)
							if _, ok := need[j]; !ok {
								need[j] = m.InstrPos(in)
							}
							needAt[j] = append(needAt[j], in)
						}
					}
				}
			}
		}
		var js []int
		for j := range need {
			js = append(js, j)
		}
		sort.Ints(js)
		for _, j := range js {
			c := fmt.Sprintf("%s/(%s,%s)", m.FuncName(fn), fn.Params[0].Name(), fn.Params[j].Name())
			// the guard: alias(a, b) with roots P0 / Pj used as a branch condition whose true edge
			// replaces the result buffer (a φ of the buffer value with nil)
			guard := false
			unguardedAt := ""
			for _, b := range fn.Blocks {
				if !live[b.Index] {
					continue
				}
				for _, in := range b.Instrs {
					call, ok := in.(*ssa.Call)
					if !ok || model.Unthunk(call.Call.StaticCallee()) != aliasFn {
						continue
					}
					r0, r1 := m.RootsOf(call.Call.Args[0]), m.RootsOf(call.Call.Args[1])
					pj := fmt.Sprintf("P%d", j)
					if !((r0["P0"] && r1[pj]) || (r1["P0"] && r0[pj])) {
						continue
					}
					// used as the condition of a branch in its block
					ifi, ok := call.Block().Instrs[len(call.Block().Instrs)-1].(*ssa.If)
					if !ok || ifi.Cond != ssa.Value(call) {
						continue
					}
					// the true edge rebinds the buffer: some φ over the buffer takes nil from a block
					// dominated by (or equal to) the true successor
					tb := call.Block().Succs[0]
					for _, pb := range fn.Blocks {
						for _, pin := range pb.Instrs {
							ph, ok := pin.(*ssa.Phi)
							if !ok {
								break
							}
							if !m.IsWordSlice(ph.Type()) {
								continue
							}
							for ei, ed := range ph.Edges {
								if k, ok := ed.(*ssa.Const); ok && k.IsNil() && m.Dominates(tb, pb.Preds[ei]) {
									// … and the test stands in front of every such call (a guard inside
									// one branch does not protect the call in the other)
									all := true
									for _, site := range needAt[j] {
										// the join that carries the dropped buffer stands in front of the
										// call, and whatever else comes into it has seen the test fail
										// (alias(z, x) || alias(z, y): the second test is not on every way,
										// but every way into the join is past a failed test or the drop)
										okSite := m.Dominates(pb, site.Block())
										for e2, ed2 := range ph.Edges {
											if k2, isNil := ed2.(*ssa.Const); isNil && k2.IsNil() {
												continue
											}
											pr := pb.Preds[e2]
											past := (pr == call.Block() && call.Block().Succs[1] == pb) || m.EdgeDominates(call.Block(), 1, pr)
											if !past {
												okSite = false
											}
										}
										if !okSite && !m.Dominates(call.Block(), site.Block()) {
											all = false
											unguardedAt = m.InstrPos(site)
										}
									}
									if all {
										guard = true
									}
								}
							}
						}
					}
				}
			}
			if !guard && unguardedAt != "" {
				s.Bad(R, c, need[j], fmt.Sprintf("the alias test of %s and %s does not stand in front of the non-elementwise call at %s: on that way overlapping operands are overwritten while still being read", fn.Params[0].Name(), fn.Params[j].Name(), unguardedAt))
				continue
			}
			s.Check(guard, R, c, need[j], "alias test present; the aliased buffer is dropped", fmt.Sprintf("%s hands its own buffer %s to a non-elementwise routine that reads %s (at %s) without first testing alias(%s, %s) and dropping the buffer: overlapping operands would be overwritten while still being read", m.FuncName(fn), fn.Params[0].Name(), fn.Params[j].Name(), need[j], fn.Params[0].Name(), fn.Params[j].Name()))
		}
	}
}

// runAliasSkip: `if !alias(z, w) { copy(z..., s...) }` — leaving a copy out when the destination
// shares its array with w says "the words are there already", which can only be meant of w: the
// source of the copy that is skipped must be w. A copy into z from x that is skipped when z
// aliases y (z.sub(x, z) in usub) leaves the previous contents of z in the result.
func runAliasSkip(m *model.Model, s *ob.Set) {
	const R = "ALIASGUARD"
	aliasFn := m.Lookup("alias")
	setFn := m.TryLookup("dec.set")
	overlap := func(a, b model.RootSet) bool {
		for l := range a {
			if b[l] {
				return true
			}
		}
		return false
	}
	n := 0
	for _, fn := range m.Funcs {
		if !m.InDecimalPkg(fn) || len(fn.Blocks) == 0 || fn.Synthetic != "" {
			continue
		}
		live := m.Live(fn)
		type test struct {
			b    *ssa.BasicBlock
			si   int // the edge on which the operands do not alias
			a, c model.RootSet
			pos  string
		}
		var tests []test
		k := 0
		for _, b := range fn.Blocks {
			if !live[b.Index] || len(b.Instrs) == 0 {
				continue
			}
			ifi, ok := b.Instrs[len(b.Instrs)-1].(*ssa.If)
			if !ok {
				continue
			}
			cond, si := ifi.Cond, 1
			if u, ok := cond.(*ssa.UnOp); ok && u.Op == token.NOT {
				cond, si = u.X, 0
			}
			call, ok := cond.(*ssa.Call)
			if !ok || model.Unthunk(call.Call.StaticCallee()) != aliasFn {
				continue
			}
			tests = append(tests, test{b, si, m.RootsOf(call.Call.Args[0]), m.RootsOf(call.Call.Args[1]), m.InstrPos(call)})
		}
		if len(tests) == 0 {
			continue
		}
		for _, b := range fn.Blocks {
			if !live[b.Index] {
				continue
			}
			for _, in := range b.Instrs {
				call, ok := in.(*ssa.Call)
				if !ok {
					continue
				}
				var dst, src ssa.Value
				switch {
				case model.BuiltinName(&call.Call) == "copy" && m.IsWordSlice(call.Call.Args[0].Type()):
					dst, src = call.Call.Args[0], call.Call.Args[1]
				case setFn != nil && model.Unthunk(call.Call.StaticCallee()) == setFn:
					dst, src = call.Call.Args[0], call.Call.Args[1]
				default:
					continue
				}
				rd, rs := m.RootsOf(dst), m.RootsOf(src)
				about, matched := "", false
				for _, t := range tests {
					if !m.EdgeDominates(t.b, t.si, b) {
						continue
					}
					// the edge on which they do alias must not lead here as well
					switch {
					case overlap(rd, t.a):
						if overlap(rs, t.c) {
							matched = true
						} else {
							about = t.pos
						}
					case overlap(rd, t.c):
						if overlap(rs, t.a) {
							matched = true
						} else {
							about = t.pos
						}
					}
				}
				if about == "" && !matched {
					continue
				}
				n++
				k++
				c := fmt.Sprintf("%s/alias-skip#%d", m.FuncName(fn), k)
				s.Check(matched, R, c, m.InstrPos(in), "a copy left out when the destination aliases its own source", fmt.Sprintf("this copy is left out when the destination shares its array with another operand (test at %s), but the words it would write come from a different one: the destination then keeps what it held before", about))
			}
		}
	}
	if n == 0 {
		s.Note(R, "alias-skip", "-", "no copy guarded by an alias test in this tree")
	}
}

// ---------------------------------------------------------------- GUARD

func runGuard(m *model.Model, s *ob.Set) {
	const R = "GUARD"
	usub := m.Lookup("(*Decimal).usub")
	ucmp := m.Lookup("(*Decimal).ucmp")
	type rel struct {
		b  *ssa.BasicBlock
		si int
		p  model.Ref
		q  model.Ref // established: |p| >= |q|
	}
	for _, fn := range m.Funcs {
		if !m.InDecimalPkg(fn) {
			continue
		}
		live := m.Live(fn)
		var rels []rel
		for _, b := range fn.Blocks {
			if !live[b.Index] || len(b.Instrs) == 0 {
				continue
			}
			ifi, ok := b.Instrs[len(b.Instrs)-1].(*ssa.If)
			if !ok {
				continue
			}
			bo, ok := ifi.Cond.(*ssa.BinOp)
			if !ok {
				continue
			}
			call, ok := bo.X.(*ssa.Call)
			if !ok || model.Unthunk(call.Call.StaticCallee()) != ucmp {
				continue
			}
			if k, ok := model.ConstInt(bo.Y); !ok || k != 0 {
				continue
			}
			p, q := m.RefOf(call.Call.Args[0]), m.RefOf(call.Call.Args[1])
			// ucmp(p,q) OP 0
			switch bo.Op {
			case token.GTR, token.GEQ: // true: |p| >(=) |q|; false: |p| <(=) |q|
				rels = append(rels, rel{b, 0, p, q})
				rels = append(rels, rel{b, 1, q, p})
			case token.LSS, token.LEQ:
				rels = append(rels, rel{b, 0, q, p})
				rels = append(rels, rel{b, 1, p, q})
			}
		}
		n := 0
		for _, b := range fn.Blocks {
			if !live[b.Index] {
				continue
			}
			for _, in := range b.Instrs {
				call, ok := in.(*ssa.Call)
				if !ok || model.Unthunk(call.Call.StaticCallee()) != usub {
					continue
				}
				n++
				a, c2 := m.RefOf(call.Call.Args[1]), m.RefOf(call.Call.Args[2])
				same := func(x, y model.Ref) bool {
					i, ok1 := x.IsSingleParam()
					j, ok2 := y.IsSingleParam()
					return ok1 && ok2 && i == j
				}
				ok2 := false
				for _, r := range rels {
					if same(r.p, a) && same(r.q, c2) && m.EdgeDominates(r.b, r.si, b) {
						ok2 = true
					}
				}
				c := fmt.Sprintf("%s/usub#%d", m.FuncName(fn), n)
				s.Check(ok2, R, c, m.InstrPos(call), "dominated by a ucmp edge implying |minuend| >= |subtrahend|", "z.usub(a, b) is not dominated by a comparison establishing |a| >= |b|: dec.sub would panic(\"underflow\") or the sign would be wrong")
			}
		}
	}
}

// ---------------------------------------------------------------- SIGN

// reachesRound: fn may call round on its parameter k.
func reachesRound(m *model.Model) map[*ssa.Function]map[int]bool {
	reach := map[*ssa.Function]map[int]bool{}
	for _, fn := range m.Funcs {
		reach[fn] = map[int]bool{}
	}
	reach[m.Lookup("(*Decimal).round")][0] = true
	for ch := true; ch; {
		ch = false
		for _, fn := range m.Funcs {
			live := m.Live(fn)
			for _, b := range fn.Blocks {
				if !live[b.Index] {
					continue
				}
				for _, in := range b.Instrs {
					cal, c := model.Callee(in)
					if cal == nil || reach[cal] == nil {
						continue
					}
					for ai, a := range c.Args {
						if !m.IsDecPtr(a.Type()) || !reach[cal][ai] {
							continue
						}
						r := m.RefOf(a)
						for k := range fn.Params {
							if r.MayBeParam(k) && !reach[fn][k] {
								reach[fn][k] = true
								ch = true
							}
						}
					}
				}
			}
		}
	}
	return reach
}

func runSign(m *model.Model, s *ob.Set) {
	const R = "SIGN"
	reach := reachesRound(m)
	allowed := map[string]string{"(*Decimal).Neg": "documented: rounds, then negates", "(*Decimal).Abs": "documented: rounds, then clears the sign"}
	zeroC, _ := model.ConstInt(ssa.NewConst(m.PkgConst("zero"), nil))
	_ = zeroC
	for _, fn := range m.Funcs {
		if !m.InDecimalPkg(fn) {
			continue
		}
		live := m.Live(fn)
		for k, p := range fn.Params {
			if !m.IsDecPtr(p.Type()) {
				continue
			}
			// forward may-analysis: has a call that may round object k happened?
			n := len(fn.Blocks)
			in := make([]int, n) // 0 unset, 1 no, 2 maybe
			in[0] = 1
			work := []int{0}
			type hit struct {
				st  *ssa.Store
				pos string
			}
			var hits []hit
			nstores := 0
			rounds := func(ins ssa.Instruction) bool {
				cal, c := model.Callee(ins)
				if cal == nil || reach[cal] == nil {
					return false
				}
				for ai, a := range c.Args {
					if m.IsDecPtr(a.Type()) && reach[cal][ai] && m.RefOf(a).MayBeParam(k) {
						return true
					}
				}
				return false
			}
			step := func(b *ssa.BasicBlock, st int, rec bool) int {
				for _, ins := range b.Instrs {
					if sto, ok := ins.(*ssa.Store); ok {
						if fa, ok := m.DecField(sto.Addr); ok && fa.Field == m.F.Neg && m.RefOf(fa.X).MayBeParam(k) {
							if rec {
								nstores++
								if st == 2 {
									hits = append(hits, hit{sto, m.InstrPos(sto)})
								}
							}
						}
					}
					if rounds(ins) {
						st = 2
					}
				}
				return st
			}
			for len(work) > 0 {
				bi := work[len(work)-1]
				work = work[:len(work)-1]
				if !live[bi] {
					continue
				}
				out := step(fn.Blocks[bi], in[bi], false)
				for _, ed := range model.LiveSuccs(fn.Blocks[bi]) {
					if out > in[ed.To.Index] {
						in[ed.To.Index] = out
						work = append(work, ed.To.Index)
					}
				}
			}
			for bi, b := range fn.Blocks {
				if in[bi] != 0 && live[bi] {
					step(b, in[bi], true)
				}
			}
			if nstores == 0 {
				continue
			}
			c := fmt.Sprintf("%s/%s.neg", m.FuncName(fn), p.Name())
			var bad []string
			for _, h := range hits {
				if _, ok := allowed[m.FuncName(fn)]; ok {
					continue
				}
				// exact-zero fix-up: dominated by the true edge of o.form == zero
				guarded := false
				for _, gb := range fn.Blocks {
					if len(gb.Instrs) == 0 {
						continue
					}
					ifi, ok := gb.Instrs[len(gb.Instrs)-1].(*ssa.If)
					if !ok {
						continue
					}
					bo, ok := ifi.Cond.(*ssa.BinOp)
					if !ok || (bo.Op != token.EQL && bo.Op != token.NEQ) {
						continue
					}
					lf, ok := m.LoadOfDecField(bo.X)
					if !ok || lf.Field != m.F.Form || !m.RefOf(lf.X).MayBeParam(k) {
						continue
					}
					kz, ok := bo.Y.(*ssa.Const)
					if !ok || kz.Value == nil || kz.Value.ExactString() != m.PkgConst("zero").ExactString() {
						continue
					}
					// the edge on which the form is zero: true edge of ==, false edge of != (an
					// early return for everything else)
					zeroEdge := 0
					if bo.Op == token.NEQ {
						zeroEdge = 1
					}
					if m.EdgeDominates(gb, zeroEdge, h.st.Block()) {
						guarded = true
					}
				}
				if !guarded {
					bad = append(bad, h.pos+": the sign is written after the value may already have been rounded (directed rounding modes and the accuracy depend on the sign)")
				}
			}
			if len(bad) == 0 {
				d := fmt.Sprintf("%d sign store(s); none after rounding", nstores)
				if w, ok := allowed[m.FuncName(fn)]; ok && len(hits) > 0 {
					d = "sign changed after rounding — " + w
				} else if len(hits) > 0 {
					d = fmt.Sprintf("%d sign store(s); those after rounding only fix the sign of an exact zero", nstores)
				}
				s.Ok(R, c, m.Pos(fn.Pos()), d)
			} else {
				s.Bad(R, c, m.Pos(fn.Pos()), bad[0], bad[1:]...)
			}
		}
	}
	// (b) Neg/Abs are not building blocks inside the package
	for _, fn := range m.Funcs {
		if !m.InDecimalPkg(fn) {
			continue
		}
		live := m.Live(fn)
		for _, b := range fn.Blocks {
			if !live[b.Index] {
				continue
			}
			for _, in := range b.Instrs {
				cal, _ := model.Callee(in)
				if cal == nil {
					continue
				}
				if n := m.FuncName(cal); n == "(*Decimal).Neg" || n == "(*Decimal).Abs" {
					s.Bad(R+"(b)", m.FuncName(fn)+"/"+cal.Name(), m.InstrPos(in), m.FuncName(fn)+" builds on "+n+", which rounds its operand under the operand's sign and flips it afterwards: directed modes round the wrong way and the accuracy is inverted")
				}
			}
		}
	}
	s.Ok(R+"(b)", "package decimal", "-", "Neg/Abs (round-then-sign) are called from no other function of the package (violations are listed individually)")
}

// ---------------------------------------------------------------- CMPSYM

func exprKey(m *model.Model, v ssa.Value, depth int) string {
	if depth == 0 {
		return v.Name()
	}
	switch x := v.(type) {
	case *ssa.Parameter:
		return "P:" + x.Name()
	case *ssa.Const:
		if x.Value == nil {
			return "nil"
		}
		return x.Value.ExactString()
	case *ssa.UnOp:
		if x.Op == token.MUL {
			switch a := x.X.(type) {
			case *ssa.FieldAddr:
				if fa, ok := m.DecField(a); ok {
					return exprKey(m, fa.X, depth-1) + "." + m.FieldN[fa.Field]
				}
			case *ssa.IndexAddr:
				return exprKey(m, a.X, depth-1) + "[" + exprKey(m, a.Index, depth-1) + "]"
			}
		}
	case *ssa.BinOp:
		return "(" + exprKey(m, x.X, depth-1) + x.Op.String() + exprKey(m, x.Y, depth-1) + ")"
	case *ssa.Call:
		if n := model.BuiltinName(&x.Call); n != "" {
			var a []string
			for _, ar := range x.Call.Args {
				a = append(a, exprKey(m, ar, depth-1))
			}
			return n + "(" + strings.Join(a, ",") + ")"
		}
		if cal := model.Unthunk(x.Call.StaticCallee()); cal != nil {
			var a []string
			for _, ar := range x.Call.Args {
				a = append(a, exprKey(m, ar, depth-1))
			}
			return cal.Name() + "(" + strings.Join(a, ",") + ")"
		}
	case *ssa.ChangeType:
		return exprKey(m, x.X, depth-1)
	case *ssa.Phi:
		if x.Comment != "" {
			return "φ" + x.Comment
		}
		return "φ"
	}
	return "·"
}

// constResultOnEdge: taking edge si out of b makes the function return a constant.
func constResultOnEdge(b *ssa.BasicBlock, si int) (int64, bool) {
	t := b.Succs[si]
	for hops := 0; hops < 3; hops++ {
		last := t.Instrs[len(t.Instrs)-1]
		if r, ok := last.(*ssa.Return); ok && len(r.Results) == 1 {
			if k, ok := model.ConstInt(r.Results[0]); ok && len(t.Instrs) == 1 {
				return k, true
			}
			// return of a φ in this block fed by a constant from the edge's source
			if ph, ok := r.Results[0].(*ssa.Phi); ok && ph.Block() == t {
				from := b
				for i, p := range t.Preds {
					if p == from {
						if k, ok := model.ConstInt(ph.Edges[i]); ok {
							return k, true
						}
					}
				}
			}
			return 0, false
		}
		if _, ok := last.(*ssa.Jump); ok && len(t.Instrs) == 1 {
			b = t
			t = t.Succs[0]
			continue
		}
		return 0, false
	}
	return 0, false
}

func runCmpSym(m *model.Model, s *ob.Set) {
	const R = "CMPSYM"
	for _, n := range []string{"(*Decimal).Cmp", "(*Decimal).ucmp", "dec.cmp"} {
		fn := m.Lookup(n)
		live := m.Live(fn)
		type ent struct {
			res int64
			pos string
			blk *ssa.BasicBlock
		}
		lt := map[string]ent{}
		gt := map[string]ent{}
		var nonStrict []string
		for _, b := range fn.Blocks {
			if !live[b.Index] || len(b.Instrs) == 0 {
				continue
			}
			ifi, ok := b.Instrs[len(b.Instrs)-1].(*ssa.If)
			if !ok {
				continue
			}
			bo, ok := ifi.Cond.(*ssa.BinOp)
			if !ok {
				continue
			}
			res, isRes := constResultOnEdge(b, 0)
			if k, _ := cmpOneSided(m, fn, bo); !isRes && k < 0 {
				continue
			}
			key := exprKey(m, bo.X, 5) + " ? " + exprKey(m, bo.Y, 5)
			// `if a != b { if a < b { return -1 }; return +1 }`: under a != b the false edge of
			// a < b is the case a > b
			other := func() (int64, bool) {
				r2, ok := constResultOnEdge(b, 1)
				if !ok {
					return 0, false
				}
				for _, gb := range fn.Blocks {
					if len(gb.Instrs) == 0 {
						continue
					}
					gi, ok := gb.Instrs[len(gb.Instrs)-1].(*ssa.If)
					if !ok {
						continue
					}
					ne, ok := gi.Cond.(*ssa.BinOp)
					if !ok || (ne.Op != token.NEQ && ne.Op != token.EQL) {
						continue
					}
					kx, ky := exprKey(m, bo.X, 5), exprKey(m, bo.Y, 5)
					nx, ny := exprKey(m, ne.X, 5), exprKey(m, ne.Y, 5)
					same := (structEq(ne.X, bo.X, 4) && structEq(ne.Y, bo.Y, 4)) || (structEq(ne.X, bo.Y, 4) && structEq(ne.Y, bo.X, 4)) ||
						(nx == kx && ny == ky) || (nx == ky && ny == kx)
					if !same {
						continue
					}
					edge := 0
					if ne.Op == token.EQL {
						edge = 1
					}
					if m.EdgeDominates(gb, edge, b) {
						return r2, true
					}
				}
				return 0, false
			}
			// one-sided decisions: a non-zero word of one operand alone (the other operand has run
			// out of words, which count as zeros) decides +1 when it is x's and -1 when it is y's
			if k, edge := cmpOneSided(m, fn, bo); k >= 0 {
				if r1, ok := constResultOnEdge(b, edge); ok {
					want := int64(1)
					if k == 1 {
						want = -1
					}
					c := n + "/one-sided:" + fn.Params[k].Name()
					s.Check(r1 == want, R, c, m.InstrPos(ifi), fmt.Sprintf("a non-zero word of %s alone decides %+d", fn.Params[k].Name(), want),
						fmt.Sprintf("a non-zero word that only %s has decides %+d; it must decide %+d (the missing words of the other operand are zeros)", fn.Params[k].Name(), r1, want))
				}
				continue
			}
			switch bo.Op {
			case token.LSS:
				lt[key] = ent{res, m.InstrPos(ifi), b}
				if r2, ok := other(); ok {
					gt[key] = ent{r2, m.InstrPos(ifi), b}
				}
			case token.GTR:
				gt[key] = ent{res, m.InstrPos(ifi), b}
				if r2, ok := other(); ok {
					lt[key] = ent{r2, m.InstrPos(ifi), b}
				}
			case token.LEQ, token.GEQ:
				if res != 0 {
					nonStrict = append(nonStrict, m.InstrPos(ifi)+": non-strict comparison "+bo.Op.String()+" decides the result "+fmt.Sprint(res))
				}
			}
		}
		var keys []string
		for k := range lt {
			keys = append(keys, k)
		}
		for k := range gt {
			if _, ok := lt[k]; !ok {
				keys = append(keys, k)
			}
		}
		sort.Strings(keys)
		for _, k := range keys {
			l, okl := lt[k]
			g, okg := gt[k]
			c := n + "/" + k
			switch {
			case okl && okg && l.res == -1 && g.res == 1:
				s.Ok(R, c, l.pos, "a<b -> -1 and a>b -> +1")
			case okl && okg:
				s.Bad(R, c, l.pos, fmt.Sprintf("a<b yields %d and a>b yields %d; a comparison must answer -1 and +1", l.res, g.res))
			case okl:
				s.Bad(R, c, l.pos, "`<` is handled but the sibling `>` over the same operands is not")
			default:
				s.Bad(R, c, g.pos, "`>` is handled but the sibling `<` over the same operands is not")
			}
		}
		for _, ns := range nonStrict {
			s.Bad(R, n+"/non-strict", m.Pos(fn.Pos()), ns)
		}
		if len(keys) == 0 {
			s.Bad(R, n, m.Pos(fn.Pos()), "no ordered comparison with a constant result found")
		}
		if n == "(*Decimal).ucmp" {
			// exponents before mantissa words
			// every test of the exponents of both operands (written <, >, != or ==, directly or
			// through local copies) and every ordered test of anything else
			var expBs, wordBs []*ssa.BasicBlock
			expField := "." + m.FieldN[m.F.Exp]
			for _, b := range fn.Blocks {
				if !live[b.Index] || len(b.Instrs) == 0 {
					continue
				}
				ifi, ok := b.Instrs[len(b.Instrs)-1].(*ssa.If)
				if !ok {
					continue
				}
				bo, ok := ifi.Cond.(*ssa.BinOp)
				if !ok {
					continue
				}
				kx, ky := exprKey(m, bo.X, 5), exprKey(m, bo.Y, 5)
				if strings.HasSuffix(kx, expField) && strings.HasSuffix(ky, expField) && kx != ky {
					expBs = append(expBs, b)
				}
			}
			for k, e := range lt {
				if !strings.Contains(k, expField) {
					wordBs = append(wordBs, e.blk)
				}
			}
			for k, e := range gt {
				if !strings.Contains(k, expField) {
					wordBs = append(wordBs, e.blk)
				}
			}
			ok := len(expBs) > 0 && len(wordBs) > 0
			for _, wb := range wordBs {
				dom := false
				for _, eb := range expBs {
					if eb != wb && m.Dominates(eb, wb) {
						dom = true
					}
				}
				if !dom {
					ok = false
				}
			}
			s.Check(ok, R, n+"/exponent-first", m.Pos(fn.Pos()), "the exponent comparison dominates the mantissa comparison", "ucmp must decide on the exponents before it looks at mantissa words")
			// "equal" may be answered only when BOTH mantissas are exhausted: the loop conditions that
			// dominate the final `return 0` must depend on len(x.mant) and on len(y.mant) (a loop
			// over one operand's words misses the non-zero low words the longer other operand has)
			cmpBothExhausted(m, s, fn)
		}
	}
}

// ---------------------------------------------------------------- MUSTFLOW

// flowsInto: dst depends on src by data (operands) or by control (a φ selected by a branch on src).
func flowsInto(m *model.Model, src, dst ssa.Value, depth int, seen map[ssa.Value]bool) bool {
	if dst == src {
		return true
	}
	if depth == 0 || seen[dst] {
		return false
	}
	seen[dst] = true
	if ph, ok := dst.(*ssa.Phi); ok {
		for _, e := range ph.Edges {
			if flowsInto(m, src, e, depth-1, seen) {
				return true
			}
		}
		// control dependence: the φ's block is a join of a branch whose condition depends on src
		idom := m.Idom(ph.Parent())
		for d := idom[ph.Block().Index]; d >= 0; d = idom[d] {
			db := ph.Parent().Blocks[d]
			if ifi, ok := db.Instrs[len(db.Instrs)-1].(*ssa.If); ok {
				if flowsInto(m, src, ifi.Cond, depth-1, seen) {
					return true
				}
				break
			}
			if d == 0 {
				break
			}
		}
		return false
	}
	in, ok := dst.(ssa.Instruction)
	if !ok {
		return false
	}
	var ops []*ssa.Value
	ops = in.Operands(ops)
	for _, o := range ops {
		if *o != nil && flowsInto(m, src, *o, depth-1, seen) {
			return true
		}
	}
	return false
}

func runMustFlow(m *model.Model, s *ob.Set) {
	const R = "MUSTFLOW"
	dnorm := m.Lookup("dnorm")
	sear := m.Lookup("(*Decimal).setExpAndRound")
	n := 0
	for _, fn := range m.Funcs {
		if !m.InDecimalPkg(fn) || fn == dnorm {
			continue
		}
		live := m.Live(fn)
		// exponent sinks of this function
		var sinks []ssa.Value
		for _, b := range fn.Blocks {
			if !live[b.Index] {
				continue
			}
			for _, in := range b.Instrs {
				if cal, c := model.Callee(in); cal == sear {
					ei, _ := searArgs(sear)
					sinks = append(sinks, c.Args[ei])
				}
				if st, ok := in.(*ssa.Store); ok {
					if fa, ok := m.DecField(st.Addr); ok && fa.Field == m.F.Exp {
						sinks = append(sinks, st.Val)
					}
				}
				// local accumulators that later reach an exponent (scan: exp10)
			}
		}
		for _, b := range fn.Blocks {
			if !live[b.Index] {
				continue
			}
			for _, in := range b.Instrs {
				call, ok := in.(*ssa.Call)
				if !ok || model.Unthunk(call.Call.StaticCallee()) != dnorm {
					continue
				}
				n++
				ok2 := false
				for _, sk := range sinks {
					if flowsInto(m, call, sk, 12, map[ssa.Value]bool{}) {
						ok2 = true
					}
				}
				c := fmt.Sprintf("%s/dnorm", m.FuncName(fn))
				s.Check(ok2, R, c, m.InstrPos(call), "the shift count reaches the exponent", "dnorm shifts the mantissa left but its result (the number of digits shifted) does not reach the exponent: the value would be off by a power of ten")
			}
		}
	}
	if n < 3 {
		m.Blind("MUSTFLOW: only %d dnorm call sites found", n)
	}
	// SetBitsExp: stripped words
	{
		fn := m.Lookup("(*Decimal).SetBitsExp")
		var arg ssa.Value
		for _, b := range fn.Blocks {
			for _, in := range b.Instrs {
				if cal, c := model.Callee(in); cal == sear {
					ei, _ := searArgs(sear)
					arg = c.Args[ei]
				}
			}
		}
		var lenMant, lenZ bool
		if arg != nil {
			var walk func(v ssa.Value, d int)
			seen := map[ssa.Value]bool{}
			walk = func(v ssa.Value, d int) {
				if d == 0 || seen[v] {
					return
				}
				seen[v] = true
				if c, ok := v.(*ssa.Call); ok && model.BuiltinName(&c.Call) == "len" {
					a := c.Call.Args[0]
					if model.Unwrap(a) == ssa.Value(fn.Params[1]) {
						lenMant = true
					} else if lf, ok := m.LoadOfDecField(a); ok && lf.Field == m.F.Mant {
						lenZ = true
					} else {
						// the slice that was stored into z.mant, kept in a local
						for _, b2 := range fn.Blocks {
							for _, in2 := range b2.Instrs {
								if st, ok := in2.(*ssa.Store); ok {
									if fa, ok := m.DecField(st.Addr); ok && fa.Field == m.F.Mant && sameThroughPhi(st.Val, a) {
										lenZ = true
									}
								}
							}
						}
					}
				}
				if in, ok := v.(ssa.Instruction); ok {
					var ops []*ssa.Value
					for _, o := range in.Operands(ops) {
						if *o != nil {
							walk(*o, d-1)
						}
					}
				}
			}
			walk(arg, 10)
		}
		s.Check(arg != nil && lenMant && lenZ, R, "(*Decimal).SetBitsExp/stripped-words", m.Pos(fn.Pos()), "exponent depends on len(mant) and len(z.mant)", "high zero words stripped by norm() must lower the exponent by the digits they held: the exponent handed to setExpAndRound must depend on both len(mant) and len(z.mant)")
	}
	// uquo: remainder -> sticky bit
	{
		fn := m.Lookup("(*Decimal).uquo")
		var rem ssa.Value
		type sbSite struct {
			v ssa.Value
			b *ssa.BasicBlock
		}
		var sbs []sbSite
		for _, b := range fn.Blocks {
			for _, in := range b.Instrs {
				if cal, c := model.Callee(in); cal != nil {
					if m.FuncName(cal) == "dec.div" {
						if call, ok := in.(*ssa.Call); ok && call.Referrers() != nil {
							for _, u := range *call.Referrers() {
								if ex, ok := u.(*ssa.Extract); ok && ex.Index == 1 {
									rem = ex
								}
							}
						}
					}
					if cal == sear {
						_, si := searArgs(sear)
						sbs = append(sbs, sbSite{c.Args[si], b})
					}
				}
			}
		}
		ok := rem != nil && len(sbs) > 0
		for _, sb := range sbs {
			if !ok {
				break
			}
			if flowsInto(m, rem, sb.v, 10, map[ssa.Value]bool{}) {
				continue
			}
			// the same written as two calls: a constant sticky argument on each side of a test
			// of the remainder's length — 0 only where the remainder is empty
			k, isK := model.ConstInt(sb.v)
			sideOK := false
			if isK {
				isLenRem := func(v ssa.Value) bool {
					c, ok := stripConv(v).(*ssa.Call)
					return ok && model.BuiltinName(&c.Call) == "len" && stripConv(c.Call.Args[0]) == rem
				}
				for _, gb := range fn.Blocks {
					if len(gb.Instrs) == 0 {
						continue
					}
					ifi, ok := gb.Instrs[len(gb.Instrs)-1].(*ssa.If)
					if !ok {
						continue
					}
					bo, ok := ifi.Cond.(*ssa.BinOp)
					if !ok {
						continue
					}
					if e0, ok := zeroOnEdge(bo, isLenRem); ok {
						if k == 0 && m.EdgeDominates(gb, e0, sb.b) {
							sideOK = true
						}
						if k != 0 && m.EdgeDominates(gb, 1-e0, sb.b) {
							sideOK = true
						}
					}
				}
			}
			if !sideOK {
				ok = false
			}
		}
		s.Check(ok, R, "(*Decimal).uquo/remainder->sticky", m.Pos(fn.Pos()), "a non-zero remainder sets the sticky bit", "the remainder of the long division does not reach the sticky argument of setExpAndRound: inexact quotients would be rounded and reported as if exact")
	}
}

// ---------------------------------------------------------------- MODE

func init() {
	Register(&Rule{Name: "MODE", Floor: 2, Run: runModeOrder,
		Doc: "the rounding mode of an object is not written after a call that may round that object (the rounding would have run under the previous mode): mode first, then SetPrec/round. Functions that round under a temporary mode on purpose are tabled with their reason"})
}

func runModeOrder(m *model.Model, s *ob.Set) {
	const R = "MODE"
	reach := reachesRound(m)
	tabled := map[string]string{}
	setMode := m.Lookup("(*Decimal).SetMode")
	n := 0
	for _, fn := range m.Funcs {
		if len(fn.Blocks) == 0 {
			continue
		}
		live := m.Live(fn)
		for k, p := range fn.Params {
			if !m.IsDecPtr(p.Type()) {
				continue
			}
			nb := len(fn.Blocks)
			in := make([]int, nb) // 0 unset, 1 no rounding yet, 2 may have rounded
			in[0] = 1
			work := []int{0}
			var hits []string
			nwrites := 0
			rounds := func(ins ssa.Instruction) bool {
				cal, c := model.Callee(ins)
				if cal == nil || reach[cal] == nil {
					return false
				}
				for ai, a := range c.Args {
					if m.IsDecPtr(a.Type()) && reach[cal][ai] && m.RefOf(a).MayBeParam(k) {
						return true
					}
				}
				return false
			}
			writesMode := func(ins ssa.Instruction) bool {
				if sto, ok := ins.(*ssa.Store); ok {
					if fa, ok := m.DecField(sto.Addr); ok && fa.Field == m.F.Mode && m.RefOf(fa.X).MayBeParam(k) {
						return true
					}
				}
				if cal, c := model.Callee(ins); cal != nil && cal == setMode && len(c.Args) > 0 && m.RefOf(c.Args[0]).MayBeParam(k) {
					return true
				}
				return false
			}
			step := func(b *ssa.BasicBlock, st int, rec bool) int {
				for _, ins := range b.Instrs {
					if writesMode(ins) {
						if rec {
							nwrites++
							if st == 2 {
								hits = append(hits, m.InstrPos(ins))
							}
						}
						continue
					}
					if rounds(ins) {
						st = 2
					}
				}
				return st
			}
			for len(work) > 0 {
				bi := work[len(work)-1]
				work = work[:len(work)-1]
				if !live[bi] {
					continue
				}
				out := step(fn.Blocks[bi], in[bi], false)
				for _, ed := range model.LiveSuccs(fn.Blocks[bi]) {
					if out > in[ed.To.Index] {
						in[ed.To.Index] = out
						work = append(work, ed.To.Index)
					}
				}
			}
			for bi, b := range fn.Blocks {
				if in[bi] != 0 && live[bi] {
					step(b, in[bi], true)
				}
			}
			if nwrites == 0 {
				continue
			}
			n++
			c := fmt.Sprintf("%s/%s.mode", m.FuncName(fn), p.Name())
			if why, ok := tabled[m.FuncName(fn)]; ok {
				s.Ok(R, c, m.Pos(fn.Pos()), "tabled: "+why)
				continue
			}
			if len(hits) == 0 {
				s.Ok(R, c, m.Pos(fn.Pos()), fmt.Sprintf("%d mode write(s), none after a call that may round the object", nwrites))
			} else {
				s.Bad(R, c, m.Pos(fn.Pos()), hits[0]+": the rounding mode is written after the object may already have been rounded: that rounding ran under the previous mode", hits[1:]...)
			}
		}
	}
	if n < 2 {
		m.Blind("MODE: only %d functions writing a rounding mode found", n)
	}
}

// cmpOneSided recognises `w != 0`, `w > 0`, `0 < w`, `w == 0` where w is a mantissa word of one
// operand only; it returns the operand's parameter index and the edge on which w is non-zero.
func cmpOneSided(m *model.Model, fn *ssa.Function, bo *ssa.BinOp) (int, int) {
	v, other := bo.X, bo.Y
	op := bo.Op
	if _, isC := v.(*ssa.Const); isC {
		v, other = other, v
		switch op {
		case token.LSS:
			op = token.GTR
		case token.GTR:
			op = token.LSS
		}
	}
	if z, ok := model.ConstInt(other); !ok || z != 0 {
		return -1, 0
	}
	edge := 0
	switch op {
	case token.NEQ, token.GTR:
	case token.EQL:
		edge = 1
	default:
		return -1, 0
	}
	ld, ok := stripConv(v).(*ssa.UnOp)
	if !ok || ld.Op != token.MUL {
		return -1, 0
	}
	ia, ok := ld.X.(*ssa.IndexAddr)
	if !ok || !m.IsWordSlice(ia.X.Type()) {
		return -1, 0
	}
	base := stripConv(ia.X)
	for hops := 0; hops < 3; hops++ {
		if sl, ok := base.(*ssa.Slice); ok {
			base = stripConv(sl.X)
		}
	}
	for k := 0; k < 2 && k < len(fn.Params); k++ {
		if base == ssa.Value(fn.Params[k]) {
			return k, edge
		}
		if lf, ok := m.LoadOfDecField(base); ok && lf.Field == m.F.Mant && m.RefOf(lf.X).OnlyParam(k) {
			return k, edge
		}
	}
	return -1, 0
}

func cmpBothExhausted(m *model.Model, s *ob.Set, fn *ssa.Function) {
	const R = "CMPSYM"
	live := m.Live(fn)
	// the `return 0` that is not dominated by ... any: take every return of the constant 0
	var lens [2][]ssa.Value
	for _, b := range fn.Blocks {
		for _, in := range b.Instrs {
			c, ok := in.(*ssa.Call)
			if !ok || model.BuiltinName(&c.Call) != "len" {
				continue
			}
			if lf, ok := m.LoadOfDecField(stripConv(c.Call.Args[0])); ok && lf.Field == m.F.Mant {
				for k := 0; k < 2 && k < len(fn.Params); k++ {
					if m.RefOf(lf.X).OnlyParam(k) {
						lens[k] = append(lens[k], c)
					}
				}
			}
		}
	}
	checked, bad := 0, ""
	for _, e := range fn.Blocks {
		if !live[e.Index] {
			continue
		}
		r, ok := e.Instrs[len(e.Instrs)-1].(*ssa.Return)
		if !ok || len(r.Results) != 1 {
			continue
		}
		isZero := false
		if k, ok := model.ConstInt(r.Results[0]); ok && k == 0 {
			isZero = true
		}
		if ph, ok := r.Results[0].(*ssa.Phi); ok {
			for _, ed := range ph.Edges {
				if k, ok := model.ConstInt(ed); ok && k == 0 {
					isZero = true
				}
			}
		}
		if !isZero {
			continue
		}
		// loop conditions dominating this exit
		var conds []ssa.Value
		for _, b := range fn.Blocks {
			if !live[b.Index] || b == e || !m.Dominates(b, e) || !blockReaches(b, b) {
				continue
			}
			if ifi, ok := b.Instrs[len(b.Instrs)-1].(*ssa.If); ok {
				conds = append(conds, ifi.Cond)
			}
		}
		if len(conds) == 0 {
			continue // not the mantissa comparison's exit
		}
		checked++
		for k := 0; k < 2; k++ {
			dep := false
			for _, c := range conds {
				for _, l := range lens[k] {
					if flowsInto(m, l, c, 10, map[ssa.Value]bool{}) {
						dep = true
					}
				}
			}
			if !dep {
				bad = fmt.Sprintf("%s: the loop that ends in `return 0` does not depend on the length of %s's mantissa: words the other operand lacks are taken for equal without being looked at", m.InstrPos(r), fn.Params[k].Name())
			}
		}
	}
	c := m.FuncName(fn) + "/both-exhausted"
	if checked == 0 {
		s.Note(R, c, m.Pos(fn.Pos()), "no loop-guarded `return 0` found (mantissa comparison written without a loop; not decided)")
		return
	}
	s.Check(bad == "", R, c, m.Pos(fn.Pos()), "the `equal` exit is guarded by loop conditions over both mantissa lengths", bad)
}

// searArgs: the positions of the exponent (the 64-bit signed parameter) and of the sticky bit (the
// unsigned one) among the arguments of setExpAndRound, receiver included — by type, not by order.
func searArgs(sear *ssa.Function) (expIdx, sbitIdx int) {
	expIdx, sbitIdx = 1, 2
	if sear == nil {
		return
	}
	for i, p := range sear.Params {
		if i == 0 {
			continue
		}
		if bt, ok := p.Type().Underlying().(*types.Basic); ok {
			switch {
			case bt.Kind() == types.Int64:
				expIdx = i
			case bt.Info()&types.IsUnsigned != 0:
				sbitIdx = i
			}
		}
	}
	return
}

// sameThroughPhi: stored is the slice a, or a join of several ways that all carry a.
func sameThroughPhi(stored, a ssa.Value) bool {
	sv, av := stripConvAny(stored), stripConvAny(a)
	if sv == av {
		return true
	}
	if ph, ok := sv.(*ssa.Phi); ok && len(ph.Edges) > 0 {
		for _, e := range ph.Edges {
			if stripConvAny(e) != av {
				return false
			}
		}
		return true
	}
	return false
}

// aliasLenBlind: the predicate the guards rely on answers for the storage, not for the current length.
// A mantissa of length 0 still owns its array up to cap, and make() hands that array out again; so an
// edge of alias() taken when len(parameter) == 0 must not lead straight to the answer false.
func aliasLenBlind(m *model.Model, s *ob.Set, fn *ssa.Function) {
	const R = "ALIASGUARD"
	if fn == nil || len(fn.Blocks) == 0 {
		return
	}
	lenOfParam := func(v ssa.Value) bool {
		c, ok := stripConv(v).(*ssa.Call)
		if !ok || model.BuiltinName(&c.Call) != "len" || len(c.Call.Args) != 1 {
			return false
		}
		_, isP := stripConvAny(c.Call.Args[0]).(*ssa.Parameter)
		return isP
	}
	bad := ""
	for _, b := range fn.Blocks {
		if len(b.Instrs) == 0 {
			continue
		}
		ifi, ok := b.Instrs[len(b.Instrs)-1].(*ssa.If)
		if !ok {
			continue
		}
		bo, ok := ifi.Cond.(*ssa.BinOp)
		if !ok {
			continue
		}
		x, y, op := bo.X, bo.Y, bo.Op
		if lenOfParam(y) {
			x, y, op = y, x, mirrorOpTok[op]
		}
		k, isK := model.ConstInt(y)
		if !lenOfParam(x) || !isK {
			continue
		}
		// the successor taken when len == 0
		zeroEdge := -1
		switch {
		case (op == token.GTR && k == 0) || (op == token.NEQ && k == 0) || (op == token.GEQ && k == 1):
			zeroEdge = 1
		case (op == token.EQL && k == 0) || (op == token.LEQ && k == 0) || (op == token.LSS && k == 1):
			zeroEdge = 0
		}
		if zeroEdge < 0 || zeroEdge >= len(b.Succs) {
			continue
		}
		t := b.Succs[zeroEdge]
		// the target returns a constant false, or a φ whose edge from b is the constant false
		if len(t.Instrs) == 0 {
			continue
		}
		ret, ok := t.Instrs[len(t.Instrs)-1].(*ssa.Return)
		if !ok || len(ret.Results) != 1 {
			continue
		}
		isFalse := func(v ssa.Value) bool {
			c, ok := v.(*ssa.Const)
			return ok && c.Value != nil && c.Value.Kind() == constant.Bool && !constant.BoolVal(c.Value)
		}
		switch r := ret.Results[0].(type) {
		case *ssa.Const:
			if isFalse(r) {
				bad = m.InstrPos(ifi)
			}
		case *ssa.Phi:
			if r.Block() == t {
				for i, p := range t.Preds {
					if p == b && i < len(r.Edges) && isFalse(r.Edges[i]) {
						bad = m.InstrPos(ifi)
					}
				}
			}
		}
	}
	s.Check(bad == "", R, "alias/length-blind", m.Pos(fn.Pos()), "no test of a parameter's length decides the answer false", bad+": alias() answers false as soon as one slice has length 0; a mantissa of length 0 (a zero, or one re-sliced to [:0]) still owns its array up to cap and make() hands it out again, so the guards that rely on alias() let an operand be overwritten")
}
