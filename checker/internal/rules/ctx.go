package rules

// E8 — CTX: typestate of context.Context (latch the first ErrNaN, return the
// receiver untouched while latched, apply the context's precision and mode).

import (
	"fmt"
	"go/ast"
	"go/token"
	"go/types"
	"strings"

	"golang.org/x/tools/go/ssa"

	"decverif/internal/model"
	"decverif/internal/ob"
)

func init() {
	Register(&Rule{Name: "CTX", Floor: 20, Run: runCtx,
		Doc: "every Context operation tests the latched error first and returns z untouched, applies the context's mode and precision to z before operating, converts exactly an ErrNaN panic into the latched error and re-panics everything else; Err returns and clears; setters and factories store/use the context's attributes"})
}

// mayPanicErrNaN: fixpoint over static callees.
func mayPanicErrNaN(m *model.Model) map[*ssa.Function]bool {
	res := map[*ssa.Function]bool{}
	isNaN := func(v ssa.Value) bool {
		mi, ok := v.(*ssa.MakeInterface)
		if !ok {
			return false
		}
		n, ok := mi.X.Type().(*types.Named)
		return ok && n.Obj().Name() == "ErrNaN" && n.Obj().Pkg() != nil && n.Obj().Pkg().Path() == model.DecPath
	}
	for ch := true; ch; {
		ch = false
		for _, fn := range m.Funcs {
			if res[fn] {
				continue
			}
			live := m.Live(fn)
			for _, b := range fn.Blocks {
				if !live[b.Index] {
					continue
				}
				for _, in := range b.Instrs {
					switch in := in.(type) {
					case *ssa.Panic:
						if isNaN(in.X) {
							res[fn] = true
						}
					case ssa.CallInstruction:
						if _, isDefer := in.(*ssa.Defer); isDefer {
							continue
						}
						if cal := model.Unthunk(in.Common().StaticCallee()); cal != nil && res[cal] {
							res[fn] = true
						}
					}
				}
			}
			if res[fn] {
				ch = true
			}
		}
	}
	return res
}

func ctxField(m *model.Model, addr ssa.Value, name string) (*ssa.FieldAddr, bool) {
	fa, ok := addr.(*ssa.FieldAddr)
	if !ok || !m.IsCtxPtr(fa.X.Type()) {
		return nil, false
	}
	st := m.Context.Underlying().(*types.Struct)
	if st.Field(fa.Field).Name() != name {
		return nil, false
	}
	return fa, true
}

// derivesFromCtxField: v is load(c.<name>) possibly through conversions.
func derivesFromCtxField(m *model.Model, v ssa.Value, name string) bool {
	for i := 0; i < 6; i++ {
		switch x := v.(type) {
		case *ssa.Convert:
			v = x.X
		case *ssa.ChangeType:
			v = x.X
		case *ssa.UnOp:
			if x.Op != token.MUL {
				return false
			}
			_, ok := ctxField(m, x.X, name)
			return ok
		default:
			return false
		}
	}
	return false
}

// ctxApplyFn finds the helper that installs the context's attributes on a Decimal: the unexported
// method of *Context that takes one *Decimal, returns a *Decimal, and calls SetMode and SetPrec
// on its parameter ("apply" in the tree; found by shape so that a rename changes nothing).
func ctxApplyFn(m *model.Model) *ssa.Function {
	var found *ssa.Function
	for _, fn := range m.Funcs {
		if !m.InContextPkg(fn) || fn.Parent() != nil || fn.Signature.Recv() == nil || !m.IsCtxPtr(fn.Signature.Recv().Type()) || ast.IsExported(fn.Name()) {
			continue
		}
		if len(fn.Params) != 2 || !m.IsDecPtr(fn.Params[1].Type()) || fn.Signature.Results().Len() != 1 || !m.IsDecPtr(fn.Signature.Results().At(0).Type()) {
			continue
		}
		hasMode, hasPrec := false, false
		for _, b := range fn.Blocks {
			for _, in := range b.Instrs {
				if cal, _ := model.Callee(in); cal != nil {
					switch m.FuncName(cal) {
					case "(*Decimal).SetMode":
						hasMode = true
					case "(*Decimal).SetPrec":
						hasPrec = true
					}
				}
			}
		}
		if hasMode || hasPrec {
			if found == nil || fn.Name() == "apply" {
				found = fn
			}
		}
	}
	return found
}

func runCtx(m *model.Model, s *ob.Set) {
	const R = "CTX"
	nan := mayPanicErrNaN(m)
	applyFn := ctxApplyFn(m)
	var ctxFns []*ssa.Function
	for _, fn := range m.Funcs {
		if m.InContextPkg(fn) && fn.Parent() == nil {
			ctxFns = append(ctxFns, fn)
		}
	}
	nOps := 0
	for _, fn := range ctxFns {
		if fn.Signature.Recv() == nil || !m.IsCtxPtr(fn.Signature.Recv().Type()) {
			continue
		}
		name := m.FuncName(fn)
		pos := m.Pos(fn.Pos())
		// operator methods: first non-receiver parameter z *decimal.Decimal
		if len(fn.Params) >= 2 && fn.Params[1].Name() == "z" && m.IsDecPtr(fn.Params[1].Type()) && fn != applyFn && ast.IsExported(fn.Name()) {
			nOps++
			ctxOperator(m, s, fn, nan)
			continue
		}
		if fn == applyFn {
			ctxApply(m, s, fn)
			continue
		}
		switch fn.Name() {
		case "Err":
			ok, why := ctxErr(m, fn)
			s.Check(ok, R+"(T5)", name, pos, "returns the latched error and clears it", why)
		case "SetMode", "SetPrec":
			f := map[string]string{"SetMode": "mode", "SetPrec": "prec"}[fn.Name()]
			ok := false
			for _, b := range fn.Blocks {
				for _, in := range b.Instrs {
					if st, isst := in.(*ssa.Store); isst {
						if _, isf := ctxField(m, st.Addr, f); isf && dependsOnParam(st.Val, fn.Params[1], 4) {
							ok = true
						}
					}
				}
			}
			s.Check(ok, R+"(T7)", name, pos, "stores its argument into c."+f, "the setter does not store (the clamped form of) its argument into c."+f)
		case "New":
			// new(Decimal).SetMode(c.mode).SetPrec(uint(c.prec))
			okM, okP := false, false
			for _, b := range fn.Blocks {
				for _, in := range b.Instrs {
					cal, c := model.Callee(in)
					if cal == nil {
						continue
					}
					switch m.FuncName(cal) {
					case "(*Decimal).SetMode":
						okM = okM || derivesFromCtxField(m, c.Args[1], "mode")
					case "(*Decimal).SetPrec":
						okP = okP || derivesFromCtxField(m, c.Args[1], "prec")
					}
					// c.apply(new(Decimal)): apply is what gives a Decimal the context's mode and
					// precision (its own obligation, CTX apply/…)
					if cal == applyFn && len(c.Args) == 2 && m.RefOf(c.Args[1]).Fresh && !m.RefOf(c.Args[1]).Unknown && m.RefOf(c.Args[1]).Params == 0 {
						okM, okP = true, true
					}
				}
			}
			s.Check(okM && okP, R+"(T6)", name, pos, "fresh Decimal with the context's mode and precision", "c.New() must return a Decimal carrying c.mode and c.prec")
		default:
			if strings.HasPrefix(fn.Name(), "New") {
				// factories go through c.New()
				ok := false
				for _, b := range fn.Blocks {
					for _, in := range b.Instrs {
						cal, c := model.Callee(in)
						if cal != nil && m.IsDecMethod(cal) && len(c.Args) > 0 {
							if call, isc := c.Args[0].(*ssa.Call); isc {
								if c2 := model.Unthunk(call.Call.StaticCallee()); c2 != nil && m.FuncName(c2) == "context.(*Context).New" {
									ok = true
								}
							}
						}
					}
				}
				s.Check(ok, R+"(T6)", name, pos, "the setter's receiver is c.New()", "factory does not build its result from c.New(): the context's precision/mode would not apply")
				// … and on every way out: NewX(x) is c.New().SetX(x) with the very x it was given. A
				// shortcut through another setter (an integral float64 through int64, say) converts
				// the argument first, and the conversion has its own range
				if ok && len(fn.Params) == 2 {
					want := "Set" + strings.TrimPrefix(fn.Name(), "New")
					var setters []*ssa.Call
					for _, b := range fn.Blocks {
						for _, in := range b.Instrs {
							call, isc := in.(*ssa.Call)
							if !isc {
								continue
							}
							cal := model.Unthunk(call.Call.StaticCallee())
							if cal == nil || !m.IsDecMethod(cal) || cal.Name() != want || len(call.Call.Args) != 2 {
								continue
							}
							if call.Call.Args[1] == ssa.Value(fn.Params[1]) {
								setters = append(setters, call)
							}
						}
					}
					bad := ""
					live := m.Live(fn)
					for _, b := range fn.Blocks {
						if !live[b.Index] || len(b.Instrs) == 0 {
							continue
						}
						r, isr := b.Instrs[len(b.Instrs)-1].(*ssa.Return)
						if !isr {
							continue
						}
						behind := false
						for _, sc := range setters {
							if m.InstrDominates(sc, r) {
								behind = true
							}
						}
						if !behind {
							bad = m.InstrPos(r) + ": a result is returned on a path that does not go through " + want + " of the argument itself"
						}
					}
					if len(setters) > 0 || bad != "" {
						s.Check(bad == "", R+"(T6)", name+"/argument", pos, "every result is "+want+"(x) of the argument as given", bad)
					}
				}
			} else if fn.Name() == "ParseDecimal" {
				ok := false
				for _, b := range fn.Blocks {
					for _, in := range b.Instrs {
						cal, c := model.Callee(in)
						if cal != nil && m.FuncName(cal) == "ParseDecimal" && len(c.Args) == 4 {
							ok = derivesFromCtxField(m, c.Args[2], "prec") && derivesFromCtxField(m, c.Args[3], "mode")
						}
					}
				}
				s.Check(ok, R+"(T6)", name, pos, "parses with c.prec and c.mode", "ParseDecimal must pass the context's precision and mode")
			}
		}
	}
	// package-level constructor New(prec, mode)
	if fn := m.TryLookup("context.New"); fn != nil {
		ok := 0
		for _, b := range fn.Blocks {
			for _, in := range b.Instrs {
				if st, isst := in.(*ssa.Store); isst {
					if fa, isf := st.Addr.(*ssa.FieldAddr); isf {
						stt, _ := fa.X.Type().Underlying().(*types.Pointer)
						if stt != nil {
							if n, isn := stt.Elem().(*types.Named); isn && n.Obj() == m.Context.Obj() {
								fname := m.Context.Underlying().(*types.Struct).Field(fa.Field).Name()
								if fname == "prec" && dependsOnParam(st.Val, fn.Params[0], 4) {
									ok++
								}
								if fname == "mode" && dependsOnParam(st.Val, fn.Params[1], 4) {
									ok++
								}
							}
						}
					}
				}
			}
		}
		s.Check(ok == 2, R+"(T7)", "context.New", m.Pos(fn.Pos()), "stores prec and mode", "context.New must store (the clamped form of) both arguments")
	}
	// T5: the only stores to Context.err are the latch in the recover handlers and the nil in Err
	deferredHandlers := map[*ssa.Function]bool{}
	for _, fn := range ctxFns {
		for _, b := range fn.Blocks {
			for _, in := range b.Instrs {
				if d, ok := in.(*ssa.Defer); ok {
					if cal := model.Unthunk(d.Call.StaticCallee()); cal != nil && m.InContextPkg(cal) {
						deferredHandlers[cal] = true
					}
				}
			}
		}
	}
	// a named handler must be used as a deferred handler only
	for h := range deferredHandlers {
		for _, fn := range ctxFns {
			for _, b := range fn.Blocks {
				for _, in := range b.Instrs {
					if c, ok := in.(*ssa.Call); ok && model.Unthunk(c.Call.StaticCallee()) == h {
						delete(deferredHandlers, h)
					}
				}
			}
		}
	}
	for _, fn := range m.Funcs {
		if !m.InContextPkg(fn) {
			continue
		}
		for _, b := range fn.Blocks {
			for _, in := range b.Instrs {
				st, ok := in.(*ssa.Store)
				if !ok {
					continue
				}
				if _, isf := ctxField(m, st.Addr, "err"); !isf {
					continue
				}
				c := fmt.Sprintf("%s/store-to-err", m.FuncName(fn))
				switch {
				case fn.Parent() != nil || deferredHandlers[fn]:
					// checked by T3 below (must be the guarded latch)
					s.Ok(R+"(T5)", c, m.InstrPos(st), "latch inside a recover handler (checked by T3)")
				case fn.Name() == "Err":
					s.Ok(R+"(T5)", c, m.InstrPos(st), "clearing store in Err")
				default:
					s.Bad(R+"(T5)", c, m.InstrPos(st), "the latched error is written outside Err and the recover handlers")
				}
			}
		}
	}
	if nOps < 3 {
		m.Blind("CTX: only %d operator methods with a z parameter found", nOps)
	}
}

func dependsOnParam(v ssa.Value, p *ssa.Parameter, depth int) bool {
	if v == p {
		return true
	}
	if depth == 0 {
		return false
	}
	switch x := v.(type) {
	case *ssa.Convert:
		return dependsOnParam(x.X, p, depth-1)
	case *ssa.ChangeType:
		return dependsOnParam(x.X, p, depth-1)
	case *ssa.Call:
		for _, a := range x.Call.Args {
			if dependsOnParam(a, p, depth-1) {
				return true
			}
		}
	case *ssa.Phi:
		for _, e := range x.Edges {
			if dependsOnParam(e, p, depth-1) {
				return true
			}
		}
	}
	return false
}

func ctxErr(m *model.Model, fn *ssa.Function) (bool, string) {
	var load *ssa.UnOp
	var store *ssa.Store
	var ret *ssa.Return
	for _, b := range fn.Blocks {
		for _, in := range b.Instrs {
			switch in := in.(type) {
			case *ssa.UnOp:
				if in.Op == token.MUL {
					if _, ok := ctxField(m, in.X, "err"); ok && load == nil {
						load = in
					}
				}
			case *ssa.Store:
				if _, ok := ctxField(m, in.Addr, "err"); ok {
					store = in
				}
			case *ssa.Return:
				ret = in
			}
		}
	}
	if load == nil || store == nil || ret == nil {
		return false, "Err must load c.err, clear it and return the loaded value"
	}
	if c, ok := store.Val.(*ssa.Const); !ok || !c.IsNil() {
		return false, "Err must re-arm the context by storing nil into c.err"
	}
	if !m.InstrDominates(load, store) {
		return false, "Err clears c.err before reading it"
	}
	if len(ret.Results) != 1 || ret.Results[0] != ssa.Value(load) {
		return false, "Err must return the error that was latched (the value loaded before clearing)"
	}
	return true, ""
}

func ctxApply(m *model.Model, s *ob.Set, fn *ssa.Function) {
	const R = "CTX(T2)"
	name := m.FuncName(fn)
	// must-analysis: on every path to a return, SetMode(c.mode) was called on z, and either
	// SetPrec(c.prec) was called or z.Prec() was found equal to c.prec
	n := len(fn.Blocks)
	type st struct{ mode, prec bool }
	in := make([]*st, n)
	in[0] = &st{}
	work := []int{0}
	okRet := true
	okOrder := true
	var retPos, orderPos string
	isZ := func(v ssa.Value) bool { return m.RefOf(v).OnlyParam(1) }
	step := func(b *ssa.BasicBlock, cur st, rec bool) st {
		for _, insn := range b.Instrs {
			switch x := insn.(type) {
			case ssa.CallInstruction:
				cal, c := model.Callee(x)
				if cal == nil || len(c.Args) < 2 || !isZ(c.Args[0]) {
					continue
				}
				switch m.FuncName(cal) {
				case "(*Decimal).SetMode":
					if derivesFromCtxField(m, c.Args[1], "mode") {
						cur.mode = true
					}
				case "(*Decimal).SetPrec":
					// SetPrec rounds: the context's mode must already be in force
					if rec && !cur.mode {
						okOrder = false
						orderPos = m.InstrPos(x)
					}
					if derivesFromCtxField(m, c.Args[1], "prec") {
						cur.prec = true
					}
				}
			case *ssa.Return:
				if rec && (!cur.mode || !cur.prec) {
					okRet = false
					retPos = m.InstrPos(x)
				}
				if rec && (len(x.Results) != 1 || !isZ(x.Results[0])) {
					okRet = false
					retPos = m.InstrPos(x)
				}
			}
		}
		return cur
	}
	edge := func(b *ssa.BasicBlock, si int, cur st) st {
		ifi, ok := b.Instrs[len(b.Instrs)-1].(*ssa.If)
		if !ok {
			return cur
		}
		bo, ok := ifi.Cond.(*ssa.BinOp)
		if !ok || (bo.Op != token.EQL && bo.Op != token.NEQ) {
			return cur
		}
		isPrecOfZ := func(v ssa.Value) bool {
			call, ok := v.(*ssa.Call)
			if !ok {
				return false
			}
			cal := model.Unthunk(call.Call.StaticCallee())
			return cal != nil && m.FuncName(cal) == "(*Decimal).Prec" && isZ(call.Call.Args[0])
		}
		if (isPrecOfZ(bo.X) && derivesFromCtxField(m, bo.Y, "prec")) || (isPrecOfZ(bo.Y) && derivesFromCtxField(m, bo.X, "prec")) {
			eq := 0
			if bo.Op == token.NEQ {
				eq = 1
			}
			if si == eq {
				cur.prec = true
			}
		}
		return cur
	}
	for len(work) > 0 {
		bi := work[len(work)-1]
		work = work[:len(work)-1]
		b := fn.Blocks[bi]
		out := step(b, *in[bi], false)
		for _, ed := range model.LiveSuccs(b) {
			o := edge(b, ed.Si, out)
			ti := ed.To.Index
			if in[ti] == nil {
				c := o
				in[ti] = &c
				work = append(work, ti)
			} else {
				j := st{in[ti].mode && o.mode, in[ti].prec && o.prec}
				if j != *in[ti] {
					*in[ti] = j
					work = append(work, ti)
				}
			}
		}
	}
	for bi, b := range fn.Blocks {
		if in[bi] != nil {
			step(b, *in[bi], true)
		}
	}
	s.Check(okRet, R, name, m.Pos(fn.Pos()), "every exit has z.SetMode(c.mode) and z.Prec()==c.prec, and returns z", "apply must leave z with the context's mode and precision on every path and return z (offending exit "+retPos+")")
	s.Check(okOrder, R, name+"/mode-before-rounding", m.Pos(fn.Pos()), "z.SetMode(c.mode) precedes z.SetPrec on every path", "apply calls z.SetPrec (which rounds z to the context's precision) at "+orderPos+" on a path where the context's rounding mode has not been installed yet: the rounding runs under z's previous mode (observable through Context.Set/Neg/... whose z already holds the value)")
}

func ctxOperator(m *model.Model, s *ob.Set, fn *ssa.Function, nan map[*ssa.Function]bool) {
	name := m.FuncName(fn)
	pos := m.Pos(fn.Pos())
	live := m.Live(fn)
	// ---- T1: the latch test
	var latch *ssa.If
	latchEdge := -1
	for _, b := range fn.Blocks {
		if !live[b.Index] || len(b.Instrs) == 0 {
			continue
		}
		ifi, ok := b.Instrs[len(b.Instrs)-1].(*ssa.If)
		if !ok {
			continue
		}
		bo, ok := ifi.Cond.(*ssa.BinOp)
		if !ok || (bo.Op != token.NEQ && bo.Op != token.EQL) {
			continue
		}
		isErrLoad := func(v ssa.Value) bool {
			u, ok := v.(*ssa.UnOp)
			if !ok || u.Op != token.MUL {
				return false
			}
			_, ok = ctxField(m, u.X, "err")
			return ok
		}
		isNil := func(v ssa.Value) bool { c, ok := v.(*ssa.Const); return ok && c.IsNil() }
		if (isErrLoad(bo.X) && isNil(bo.Y)) || (isErrLoad(bo.Y) && isNil(bo.X)) {
			latch = ifi
			latchEdge = 0
			if bo.Op == token.EQL {
				latchEdge = 1
			}
			break
		}
	}
	t1 := ""
	if latch == nil {
		t1 = "no test of c.err: a latched context would keep operating"
	} else {
		// the latched edge returns z from a block without calls
		lb := latch.Block().Succs[latchEdge]
		lastStore := map[ssa.Value]ssa.Value{} // local variable -> value last stored in this block
		for _, in := range lb.Instrs {
			switch x := in.(type) {
			case *ssa.Return:
				ok := len(x.Results) == 1
				if ok {
					v := x.Results[0]
					if u, isu := v.(*ssa.UnOp); isu && u.Op == token.MUL {
						if sv, has := lastStore[u.X]; has {
							v = sv
						}
					}
					ok = m.RefOf(v).OnlyParam(1)
				}
				if !ok {
					t1 = "while latched the operation must return its z parameter"
				}
			case *ssa.Store:
				if _, isAlloc := x.Addr.(*ssa.Alloc); isAlloc {
					lastStore[x.Addr] = x.Val // named result spilled because a closure captures it
				} else {
					t1 = "while latched the operation must return z untouched (found a store at " + m.InstrPos(x) + ")"
				}
			case *ssa.UnOp:
				if _, isAlloc := x.X.(*ssa.Alloc); !isAlloc || x.Op != token.MUL {
					t1 = "while latched the operation must return z untouched"
				}
			case *ssa.RunDefers, *ssa.DebugRef:
			default:
				t1 = "while latched the operation must return z untouched (found " + strings.TrimPrefix(fmt.Sprintf("%T", in), "*ssa.") + ")"
			}
		}
		if _, ok := lb.Instrs[len(lb.Instrs)-1].(*ssa.Return); !ok {
			t1 = "the latched branch does not return immediately"
		}
		// every call / defer / heap store is dominated by the not-latched edge
		for _, b := range fn.Blocks {
			if !live[b.Index] || t1 != "" || b == lb {
				continue
			}
			for _, in := range b.Instrs {
				switch x := in.(type) {
				case *ssa.Store:
					if _, isAlloc := x.Addr.(*ssa.Alloc); isAlloc {
						continue // spill of a parameter / named result
					}
					if !m.EdgeDominates(latch.Block(), 1-latchEdge, b) {
						t1 = "an effect at " + m.InstrPos(in) + " is reachable without passing the c.err test"
					}
				case *ssa.Call, *ssa.Defer, *ssa.Go:
					if !m.EdgeDominates(latch.Block(), 1-latchEdge, b) {
						t1 = "an effect at " + m.InstrPos(in) + " is reachable without passing the c.err test"
					}
				}
			}
		}
	}
	s.Check(t1 == "", "CTX(T1)", name, pos, "c.err is tested first; latched -> return z untouched", t1)

	// ---- T2: the operation is applied to c.apply(z)
	var op *ssa.Function
	t2 := "no decimal operation on c.apply(z) found"
	for _, b := range fn.Blocks {
		if !live[b.Index] {
			continue
		}
		for _, in := range b.Instrs {
			call, ok := in.(*ssa.Call)
			if !ok {
				continue
			}
			cal := model.Unthunk(call.Call.StaticCallee())
			if cal == nil || !m.IsDecMethod(cal) || !m.InDecimalPkg(cal) {
				continue
			}
			if ac, ok := call.Call.Args[0].(*ssa.Call); ok {
				if c2 := model.Unthunk(ac.Call.StaticCallee()); c2 != nil && c2 == ctxApplyFn(m) {
					// argument of apply: z, or z.Copy(x) for Set
					a := ac.Call.Args[1]
					if m.RefOf(a).OnlyParam(1) {
						op = cal
						t2 = ""
						// the result of the operation is what the method returns
					}
				}
			}
			// Set: c.apply(z.Copy(x)) - the decimal op is Copy and apply is the outer call
			if m.FuncName(cal) == "(*Decimal).Copy" && m.RefOf(call.Call.Args[0]).OnlyParam(1) {
				if call.Referrers() != nil {
					for _, u := range *call.Referrers() {
						if oc, ok := u.(*ssa.Call); ok {
							if c2 := model.Unthunk(oc.Call.StaticCallee()); c2 != nil && c2 == ctxApplyFn(m) {
								op = cal
								t2 = ""
							}
						}
					}
				}
			}
		}
	}
	// apply written out in front of the operation: z.SetMode(c.mode), then SetPrec(c.prec) —
	// always, or behind the test that z's precision differs — and the operation on z itself
	if op == nil {
		for _, b := range fn.Blocks {
			if !live[b.Index] {
				continue
			}
			for _, in := range b.Instrs {
				call, ok := in.(*ssa.Call)
				if !ok {
					continue
				}
				cal := model.Unthunk(call.Call.StaticCallee())
				if cal == nil || !m.IsDecMethod(cal) || !m.InDecimalPkg(cal) || len(call.Call.Args) == 0 || !m.RefOf(call.Call.Args[0]).OnlyParam(1) {
					continue
				}
				switch cal.Name() {
				case "SetMode", "SetPrec", "Prec", "Mode":
					continue
				}
				modeOK, precOK := false, false
				for _, b2 := range fn.Blocks {
					for _, in2 := range b2.Instrs {
						c2, ok := in2.(*ssa.Call)
						if !ok || model.Unthunk(c2.Call.StaticCallee()) == nil || len(c2.Call.Args) != 2 || !m.RefOf(c2.Call.Args[0]).OnlyParam(1) {
							continue
						}
						switch m.FuncName(model.Unthunk(c2.Call.StaticCallee())) {
						case "(*Decimal).SetMode":
							if derivesFromCtxField(m, c2.Call.Args[1], "mode") && m.InstrDominates(c2, call) {
								modeOK = true
							}
						case "(*Decimal).SetPrec":
							if !derivesFromCtxField(m, c2.Call.Args[1], "prec") {
								continue
							}
							if m.InstrDominates(c2, call) {
								precOK = true
								continue
							}
							// behind `z.Prec() != c.prec`, the test dominating the operation
							for _, gb := range fn.Blocks {
								if len(gb.Instrs) == 0 {
									continue
								}
								ifi, ok := gb.Instrs[len(gb.Instrs)-1].(*ssa.If)
								if !ok {
									continue
								}
								bo, ok := ifi.Cond.(*ssa.BinOp)
								if !ok || (bo.Op != token.NEQ && bo.Op != token.EQL) {
									continue
								}
								isPrecOfZ := func(v ssa.Value) bool {
									pc, ok := stripConv(v).(*ssa.Call)
									return ok && model.Unthunk(pc.Call.StaticCallee()) != nil && m.FuncName(model.Unthunk(pc.Call.StaticCallee())) == "(*Decimal).Prec" && m.RefOf(pc.Call.Args[0]).OnlyParam(1)
								}
								if !((isPrecOfZ(bo.X) && derivesFromCtxField(m, bo.Y, "prec")) || (isPrecOfZ(bo.Y) && derivesFromCtxField(m, bo.X, "prec"))) {
									continue
								}
								diff := 0
								if bo.Op == token.EQL {
									diff = 1
								}
								if m.EdgeDominates(gb, diff, c2.Block()) && gb != call.Block() && m.Dominates(gb, call.Block()) {
									precOK = true
								}
							}
						}
					}
				}
				if modeOK && precOK {
					op = cal
					t2 = ""
				}
			}
		}
	}
	// the operation handed as a closure to a helper of the package that runs it under its own
	// deferred handler:  return c.quiet(z, func() *Decimal { return c.apply(z).Mul(x, y) })
	var wrapCalls []*ssa.Call
	var wrapper *ssa.Function
	if op == nil {
		resolveFV := func(v ssa.Value, mc *ssa.MakeClosure) ssa.Value {
			u, ok := v.(*ssa.UnOp)
			if !ok || u.Op != token.MUL {
				return v
			}
			fv, ok := u.X.(*ssa.FreeVar)
			if !ok {
				return v
			}
			cl := mc.Fn.(*ssa.Function)
			for i, f := range cl.FreeVars {
				if f != fv || i >= len(mc.Bindings) {
					continue
				}
				al, ok := mc.Bindings[i].(*ssa.Alloc)
				if !ok || al.Referrers() == nil {
					return v
				}
				var stored ssa.Value
				n := 0
				for _, r := range *al.Referrers() {
					if st, ok := r.(*ssa.Store); ok && st.Addr == ssa.Value(al) {
						stored = st.Val
						n++
					}
				}
				if n == 1 {
					return stored
				}
			}
			return v
		}
		for _, b := range fn.Blocks {
			if !live[b.Index] {
				continue
			}
			for _, in := range b.Instrs {
				call, ok := in.(*ssa.Call)
				if !ok {
					continue
				}
				h := model.Unthunk(call.Call.StaticCallee())
				if h == nil || !m.InContextPkg(h) || len(h.Blocks) == 0 || h == ctxApplyFn(m) {
					continue
				}
				for ai, a := range call.Call.Args {
					mc, ok := a.(*ssa.MakeClosure)
					if !ok || ai >= len(h.Params) {
						continue
					}
					// the helper calls that parameter and hands its result back
					callsParam := false
					for _, hb := range h.Blocks {
						for _, hin := range hb.Instrs {
							if hc, ok := hin.(*ssa.Call); ok && hc.Call.Value == ssa.Value(h.Params[ai]) {
								callsParam = true
							}
						}
					}
					// the receiver handed to the helper is z
					zOK := false
					for _, a2 := range call.Call.Args {
						if m.IsDecPtr(a2.Type()) {
							v := a2
							if u, isU := v.(*ssa.UnOp); isU && u.Op == token.MUL {
								if al, isAl := u.X.(*ssa.Alloc); isAl && al.Referrers() != nil {
									for _, r := range *al.Referrers() {
										if st, ok := r.(*ssa.Store); ok && st.Addr == ssa.Value(al) {
											v = st.Val
										}
									}
								}
							}
							if m.RefOf(v).OnlyParam(1) {
								zOK = true
							}
						}
					}
					if !callsParam || !zOK {
						continue
					}
					cl := mc.Fn.(*ssa.Function)
					for _, cb := range cl.Blocks {
						for _, cin := range cb.Instrs {
							oc, ok := cin.(*ssa.Call)
							if !ok {
								continue
							}
							cal := model.Unthunk(oc.Call.StaticCallee())
							if cal == nil || !m.IsDecMethod(cal) || !m.InDecimalPkg(cal) {
								continue
							}
							if ac, ok := oc.Call.Args[0].(*ssa.Call); ok {
								if c2 := model.Unthunk(ac.Call.StaticCallee()); c2 != nil && c2 == ctxApplyFn(m) {
									if m.RefOf(resolveFV(ac.Call.Args[1], mc)).OnlyParam(1) {
										op = cal
										t2 = ""
										wrapper = h
										wrapCalls = append(wrapCalls, call)
									}
								}
							}
						}
					}
				}
			}
		}
	}
	// … on every path that is not the latched one: each return other than the latched return is
	// behind that call (a shortcut that hands back a value computed some other way — c.Set(z, x)
	// for the "easy" operands of Sqrt — skips the operation's own special cases, the invalid ones
	// included), and the operation is the one the method is named after
	if t2 == "" && op != nil {
		var opCalls []*ssa.Call
		for _, b := range fn.Blocks {
			for _, in := range b.Instrs {
				if call, ok := in.(*ssa.Call); ok && model.Unthunk(call.Call.StaticCallee()) == op {
					opCalls = append(opCalls, call)
				}
			}
		}
		opCalls = append(opCalls, wrapCalls...)
		var latchedBlock *ssa.BasicBlock
		if latch != nil {
			latchedBlock = latch.Block().Succs[latchEdge]
		}
		for _, b := range fn.Blocks {
			if !live[b.Index] || b == latchedBlock || b == fn.Recover || len(b.Instrs) == 0 {
				continue // (fn.Recover: where a recovered panic resumes — it returns the named result)
			}
			r, ok := b.Instrs[len(b.Instrs)-1].(*ssa.Return)
			if !ok {
				continue
			}
			behind := false
			for _, oc := range opCalls {
				if m.InstrDominates(oc, r) {
					behind = true
				}
			}
			if !behind {
				t2 = m.InstrPos(r) + ": a result is returned on a path that does not go through the decimal operation " + m.FuncName(op)
			}
		}
		if fn.Name() != "Set" && op.Name() != fn.Name() && t2 == "" {
			t2 = "the decimal operation applied is " + m.FuncName(op) + ", not the one the method is named after"
		}
		// Set is the one operator that is safe for z == x: it copies x into z (all digits) and
		// lets apply do the one rounding. apply(z).Set(x) rounds z — which may be x — first, and
		// the self-assignment that follows reports the result Exact
		if fn.Name() == "Set" && op.Name() != "Copy" && t2 == "" {
			t2 = "Set rounds z through apply before x is read (" + m.FuncName(op) + " after apply): for z == x the operand is rounded first and the accuracy of that rounding is overwritten; the alias-safe form is c.apply(z.Copy(x))"
		}
	}
	s.Check(t2 == "", "CTX(T2)", name, pos, "operates on c.apply(z)", t2)
	// … and with the context's precision, nothing else: a SetPrec in the operation itself is given
	// the context's precision as it is (apply written out), not one computed from it — taking the
	// result at prec+2 and cutting it back with a second SetPrec rounds twice
	{
		bad := ""
		for _, b := range fn.Blocks {
			if !live[b.Index] {
				continue
			}
			for _, in := range b.Instrs {
				call, ok := in.(*ssa.Call)
				if !ok || len(call.Call.Args) != 2 {
					continue
				}
				cal := model.Unthunk(call.Call.StaticCallee())
				if cal == nil || m.FuncName(cal) != "(*Decimal).SetPrec" {
					continue
				}
				if r := m.RefOf(call.Call.Args[0]); r.Fresh && r.Params == 0 && !r.Unknown {
					continue // a temporary of the operation's own
				}
				if !derivesFromCtxField(m, call.Call.Args[1], "prec") {
					bad = m.InstrPos(in) + ": the result variable is given a precision that is not the context's own (computed from it, or from elsewhere): the operation then rounds to another precision than the context's, and bringing it back afterwards is a second rounding"
				}
			}
		}
		if bad != "" {
			s.Bad("CTX(T2)", name+"/precision", pos, bad)
		}
	}

	// ---- T3 / T4
	var closure *ssa.Function
	hfn := fn
	if wrapper != nil {
		hfn = wrapper // the handler is the helper's
	}
	for _, b := range hfn.Blocks {
		for _, in := range b.Instrs {
			if d, ok := in.(*ssa.Defer); ok {
				if mc, ok := d.Call.Value.(*ssa.MakeClosure); ok {
					closure = mc.Fn.(*ssa.Function)
				} else if cal := model.Unthunk(d.Call.StaticCallee()); cal != nil && m.InContextPkg(cal) && len(cal.Blocks) > 0 {
					// a named handler (method or function) deferred directly
					closure = cal
				}
			}
		}
	}
	if op != nil && !nan[op] && closure == nil {
		s.Ok("CTX(T4)", name, pos, m.FuncName(op)+" cannot panic with ErrNaN; no handler needed")
		return
	}
	if closure == nil {
		opn := "<none>"
		if op != nil {
			opn = m.FuncName(op)
		}
		s.Bad("CTX(T3)", name, pos, opn+" may panic with ErrNaN but the method defers no recover handler: the NaN would escape the Context")
		return
	}
	t3 := ctxHandler(m, closure)
	s.Check(t3 == "", "CTX(T3)", name, pos, "handler latches exactly ErrNaN, re-panics anything else, returns z", t3)
}

// ctxHandler checks the deferred closure of an operator method.
func ctxHandler(m *model.Model, cl *ssa.Function) string {
	var rec *ssa.Call
	for _, b := range cl.Blocks {
		for _, in := range b.Instrs {
			if c, ok := in.(*ssa.Call); ok && model.BuiltinName(&c.Call) == "recover" {
				rec = c
			}
		}
	}
	if rec == nil {
		return "the deferred function does not call recover"
	}
	// the type assertion of the recovered value to decimal.ErrNaN
	var ta *ssa.TypeAssert
	for _, b := range cl.Blocks {
		for _, in := range b.Instrs {
			if t, ok := in.(*ssa.TypeAssert); ok && t.CommaOk && t.X == ssa.Value(rec) {
				if n, ok := t.AssertedType.(*types.Named); ok && n.Obj().Name() == "ErrNaN" && n.Obj().Pkg().Path() == model.DecPath {
					ta = t
				}
			}
		}
	}
	if ta == nil {
		return "the recovered value is not tested for the dynamic type decimal.ErrNaN (a wider test such as errors.As into an error variable latches every panic)"
	}
	var okVal, nanVal *ssa.Extract
	if ta.Referrers() != nil {
		for _, u := range *ta.Referrers() {
			if ex, ok := u.(*ssa.Extract); ok {
				if ex.Index == 1 {
					okVal = ex
				} else {
					nanVal = ex
				}
			}
		}
	}
	if okVal == nil {
		return "the result of the ErrNaN test is ignored"
	}
	var okIf *ssa.If
	if okVal.Referrers() != nil {
		for _, u := range *okVal.Referrers() {
			if i, ok := u.(*ssa.If); ok {
				okIf = i
			}
		}
	}
	if okIf == nil {
		return "the result of the ErrNaN test does not guard anything"
	}
	// false edge: re-panic with the recovered value
	fb := okIf.Block().Succs[1]
	repanic := false
	for _, in := range fb.Instrs {
		if p, ok := in.(*ssa.Panic); ok && p.X == ssa.Value(rec) {
			repanic = true
		}
	}
	if !repanic {
		return "a panic that is not an ErrNaN is not re-raised with its original value"
	}
	// stores into c.err: dominated by the true edge, value = the asserted ErrNaN
	stored, resultSet := false, false
	for _, b := range cl.Blocks {
		for _, in := range b.Instrs {
			st, ok := in.(*ssa.Store)
			if !ok {
				continue
			}
			if _, isErr := ctxField(m, st.Addr, "err"); isErr {
				if !m.EdgeDominates(okIf.Block(), 0, b) {
					return "c.err is written at " + m.InstrPos(st) + " without the recovered value having been identified as an ErrNaN"
				}
				mi, ok := st.Val.(*ssa.MakeInterface)
				if !ok || nanVal == nil || mi.X != ssa.Value(nanVal) {
					return "the value latched in c.err is not the recovered ErrNaN"
				}
				stored = true
				continue
			}
			// named result r = z
			_, isFV := st.Addr.(*ssa.FreeVar)
			_, isPar := st.Addr.(*ssa.Parameter)
			if (isFV || isPar) && m.IsDecPtr(st.Val.Type()) {
				if m.EdgeDominates(okIf.Block(), 0, b) {
					resultSet = true
				}
			}
		}
	}
	if !stored {
		return "the ErrNaN is not latched into c.err"
	}
	if !resultSet {
		return "after latching, the named result is not set (the method would return nil instead of z)"
	}
	return ""
}
