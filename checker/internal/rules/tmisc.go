package rules

// E4 — T-CMP, T-UNARY, T-CONV: the special-value behaviour of the comparison
// family, the unary operations / setters and the conversions, enumerated over
// operand classes and compared with tables written from IEEE 754-2008 and the
// method documentation (DESIGN Appendix A).

import (
	"fmt"
	"go/constant"
	"go/token"
	"go/types"
	"math"
	"strings"

	"golang.org/x/tools/go/ssa"

	"decverif/internal/cdai"
	"decverif/internal/model"
	"decverif/internal/ob"
)

func init() {
	Register(&Rule{Name: "T-CMP", Floor: 60, Run: runTCmp,
		Doc: "Cmp orders the five classes -Inf < -finite < 0 < +finite < +Inf, compares magnitudes with ucmp in the right operand order, and Sign/IsZero/IsInf/Signbit agree with that classification"})
	Register(&Rule{Name: "T-UNARY", Floor: 150, Run: runTUnary,
		Doc: "Set, Copy, Neg, Abs, SetInf, SetMode, SetPrec, Sqrt, MantExp, SetMantExp, MinPrec, IsInt and the integer setters give the documented form, sign, accuracy and attributes for every operand class"})
	Register(&Rule{Name: "T-CONV", Floor: 40, Run: runTConv,
		Doc: "Int64, Uint64, Int, Rat, SetFloat64 and SetFloat dispatch on zero/infinity/NaN/sign as documented (saturation values, accuracies, ErrNaN only for NaN)"})
}

// cell runs fn on args and lets check inspect every outcome; it records one obligation.
func cell(m *model.Model, s *ob.Set, rule, construct string, fn *ssa.Function, it *cdai.Interp, st *cdai.State, args []cdai.Val, z cdai.Obj, check func(o cdai.Outcome) string) {
	outs := it.Run(fn, args, st)
	var fails []string
	if len(outs) == 0 {
		fails = append(fails, "no outcome")
	}
	// A path the propagation cannot follow to its end — a loop it does not see the bound of (a
	// helper that takes the list of scalings as a slice), a Decimal that escapes into something it
	// does not model — is not judged: that is a statement about the propagation, not about the
	// code. On the unchanged tree no cell has such a path (asserted under -strict); on another tree
	// they are counted in the obligation's text, and a cell none of whose paths could be followed
	// is a shape note.
	lost, lostWhy := 0, ""
	for _, o := range outs {
		f := ""
		switch {
		case len(o.St.Imprec) > 0:
			lost++
			lostWhy = "imprecise path: " + o.St.Imprec[0]
			continue
		case o.Kind == "diverge":
			lost++
			lostWhy = "path does not terminate within the loop bound"
			continue
		default:
			f = check(o)
		}
		if f != "" && len(fails) < 3 {
			fails = append(fails, f+" :: "+outcomeStr(m, o, z))
		}
	}
	if lost > 0 && model.Strict && len(m.Cfg.Overlay) == 0 {
		fails = append(fails, lostWhy)
	}
	switch {
	case len(fails) > 0:
		s.Bad(rule, construct, m.Pos(fn.Pos()), fails[0], fails[1:]...)
	case lost > 0 && lost == len(outs):
		m.Blind("%s %s: none of the %d paths could be followed (%s)", rule, construct, len(outs), lostWhy)
	case lost > 0:
		s.Ok(rule, construct, m.Pos(fn.Pos()), fmt.Sprintf("%d paths, %d not followed to the end (%s)", len(outs), lost, lostWhy))
	default:
		s.Ok(rule, construct, m.Pos(fn.Pos()), fmt.Sprintf("%d paths", len(outs)))
	}
}

func retInt(o cdai.Outcome, i int) (int64, bool) {
	if o.Kind != "return" || i >= len(o.Vals) {
		return 0, false
	}
	return cdai.ConstInt(o.Vals[i])
}
func retBool(o cdai.Outcome, i int) (bool, bool) {
	if o.Kind != "return" || i >= len(o.Vals) {
		return false, false
	}
	return cdai.ConstBool(o.Vals[i])
}

func ordOf(class int) int {
	switch class {
	case cPF:
		return 1
	case cNF:
		return -1
	case cPI:
		return 2
	case cNI:
		return -2
	}
	return 0
}

func sgn(i int) int64 {
	switch {
	case i < 0:
		return -1
	case i > 0:
		return 1
	}
	return 0
}

func runTCmp(m *model.Model, s *ob.Set) {
	const R = "T-CMP"
	e := getEnums(m)
	cmp := m.Lookup("(*Decimal).Cmp")
	for cx := 0; cx < 6; cx++ {
		for cy := 0; cy < 6; cy++ {
			for u := int64(-1); u <= 1; u++ {
				it := stdInterp(m)
				it.Models["(*Decimal).ucmp"] = func(it *cdai.Interp, st *cdai.State, name string, args []cdai.Val) ([]cdai.Val, bool) {
					return []cdai.Val{cdai.Int(u)}, true
				}
				st := cdai.NewState()
				// precision, mode and accuracy differ between the operands on purpose: they must not matter
				x := mkDec(m, st, decSpec{form: i64(e.formOf(cx)), neg: bptr(negOf(cx)), prec: i64(3), mode: i64(e.toZ), acc: i64(e.above), exp: i64(2)})
				y := mkDec(m, st, decSpec{form: i64(e.formOf(cy)), neg: bptr(negOf(cy)), prec: i64(40), mode: i64(e.posInf), acc: i64(e.below), exp: i64(2)})
				ox, oy := ordOf(cx), ordOf(cy)
				cell(m, s, R, fmt.Sprintf("Cmp(%s,%s) ucmp=%d", classNames[cx], classNames[cy], u), cmp, it, st, []cdai.Val{x, y}, cdai.Obj{}, func(o cdai.Outcome) string {
					got, ok := retInt(o, 0)
					if !ok {
						return "Cmp must return a definite value"
					}
					evs := findEvents(o.St, "(*Decimal).ucmp")
					switch {
					case ox != oy:
						if got != sgn(ox-oy) {
							return fmt.Sprintf("got %d, want %d (order of the classes)", got, sgn(ox-oy))
						}
					case ox == 1 || ox == -1:
						if len(evs) != 1 {
							return "magnitudes of two finite values of equal sign must be compared by exactly one ucmp"
						}
						a, b := x, y
						if ox == -1 {
							a, b = y, x
						}
						if !sameObj(evs[0].Args[0], a) || !sameObj(evs[0].Args[1], b) {
							return "ucmp applied in the wrong operand order for this sign"
						}
						if got != u {
							return fmt.Sprintf("got %d, want ucmp's result %d", got, u)
						}
					default:
						if got != 0 {
							return fmt.Sprintf("got %d, want 0 (zeros of either sign and equal infinities compare equal)", got)
						}
					}
					return ""
				})
			}
		}
	}
	for c := 0; c < 6; c++ {
		for _, name := range []string{"Sign", "IsZero", "IsInf", "Signbit"} {
			fn := m.Lookup("(*Decimal)." + name)
			it := stdInterp(m)
			st := cdai.NewState()
			x := mkDec(m, st, classSpec(e, c, 9, e.away))
			cc := c
			cell(m, s, R, fmt.Sprintf("%s(%s)", name, classNames[c]), fn, it, st, []cdai.Val{x}, cdai.Obj{}, func(o cdai.Outcome) string {
				switch name {
				case "Sign":
					if g, ok := retInt(o, 0); !ok || g != sgn(ordOf(cc)) {
						return fmt.Sprintf("want %d", sgn(ordOf(cc)))
					}
				case "IsZero":
					if g, ok := retBool(o, 0); !ok || g != (ordOf(cc) == 0) {
						return fmt.Sprintf("want %v", ordOf(cc) == 0)
					}
				case "IsInf":
					if g, ok := retBool(o, 0); !ok || g != (cc == cPI || cc == cNI) {
						return fmt.Sprintf("want %v", cc == cPI || cc == cNI)
					}
				case "Signbit":
					if g, ok := retBool(o, 0); !ok || g != negOf(cc) {
						return fmt.Sprintf("want %v", negOf(cc))
					}
				}
				return ""
			})
		}
	}
}

// needInt/needBool build failure texts for final-state checks.
func wantField(m *model.Model, o cdai.Outcome, z cdai.Obj, f int, want int64, what string) string {
	if v, ok := fInt(m, o.St, z, f); !ok || v != want {
		return fmt.Sprintf("%s must be %d, is %s", what, want, cdai.Str(o.St.Get(z, f)))
	}
	return ""
}
func wantNeg(m *model.Model, o cdai.Outcome, z cdai.Obj, want bool) string {
	if v, ok := fBool(m, o.St, z, m.F.Neg); !ok || v != want {
		return fmt.Sprintf("sign must be neg=%v, is %s", want, cdai.Str(o.St.Get(z, m.F.Neg)))
	}
	return ""
}
func first(ss ...string) string {
	for _, s := range ss {
		if s != "" {
			return s
		}
	}
	return ""
}
func retIsObj(o cdai.Outcome, z cdai.Obj) string {
	if o.Kind != "return" {
		return "must not panic"
	}
	if len(o.Vals) < 1 || !sameObj(o.Vals[0], z) {
		return "must return the receiver"
	}
	return ""
}

func runTUnary(m *model.Model, s *ob.Set) {
	const R = "T-UNARY"
	e := getEnums(m)
	F := m.F
	zMode, xMode := e.posInf, e.toZ

	// ---- Set / Neg / Abs (with the precision orderings of T-PREC) and Copy
	for _, op := range []string{"Set", "Neg", "Abs", "Copy"} {
		fn := m.Lookup("(*Decimal)." + op)
		for c := 0; c < 6; c++ {
			for _, pp := range [][2]int64{{10, 10}, {9, 10}, {5, 10}, {1, 10}, {0, 10}, {11, 10}, {40, 10}} {
				for _, al := range []bool{false, true} {
					if al && pp[0] != pp[1] {
						continue
					}
					it := stdInterp(m)
					st := cdai.NewState()
					xs := decSpec{form: i64(e.formOf(c)), neg: bptr(negOf(c)), prec: i64(pp[1]), mode: i64(xMode), acc: i64(e.above), exp: i64(3)}
					x := mkDec(m, st, xs)
					z := x
					if !al {
						z = mkDec(m, st, decSpec{prec: i64(pp[0]), mode: i64(zMode), acc: i64(e.below)})
					}
					zm := zMode
					if al {
						zm = xMode
					}
					cc, zp, xp := c, pp[0], pp[1]
					name := fmt.Sprintf("%s(%s) zprec=%d xprec=%d", op, classNames[c], zp, xp)
					if al {
						name += " z=x"
					}
					cell(m, s, R, name, fn, it, st, []cdai.Val{z, x}, z, func(o cdai.Outcome) string {
						if f := retIsObj(o, z); f != "" {
							return f
						}
						wantNegV := negOf(cc)
						switch op {
						case "Neg":
							wantNegV = !wantNegV
						case "Abs":
							wantNegV = false
						}
						rs := findEvents(o.St, "(*Decimal).round")
						finite := e.formOf(cc) == e.finite
						if op == "Copy" {
							if len(rs) != 0 {
								return "Copy must not round"
							}
							return first(wantField(m, o, z, F.Form, e.formOf(cc), "form"), wantNeg(m, o, z, wantNegV),
								wantField(m, o, z, F.Prec, xp, "prec"), wantField(m, o, z, F.Mode, xMode, "mode"), wantField(m, o, z, F.Acc, e.above, "acc"),
								func() string {
									if finite {
										return wantField(m, o, z, F.Exp, 3, "exp")
									}
									return ""
								}())
						}
						wantPrec := zp
						if zp == 0 {
							wantPrec = xp
						}
						if f := first(wantNeg(m, o, z, wantNegV), wantField(m, o, z, F.Prec, wantPrec, "prec"), wantField(m, o, z, F.Mode, zm, "mode")); f != "" {
							return f
						}
						for _, ev := range rs {
							// Neg/Abs are documented to round, then change the sign: the rounding sees x's sign
							if b, ok := evRecvBool(m, ev, F.Neg); !ok || b != negOf(cc) {
								return "round entered with a sign that is not the operand's"
							}
							if p, ok := evRecvInt(m, ev, F.Prec); !ok || p != wantPrec {
								return fmt.Sprintf("round entered with prec=%s, want %d", cdai.Str(ev.Recv[F.Prec]), wantPrec)
							}
							if finite {
								if x, ok := evRecvInt(m, ev, F.Exp); !ok || x != 3 {
									return "round entered before the exponent was copied"
								}
								if f, ok := evRecvInt(m, ev, F.Form); !ok || f != e.finite {
									return "round entered before the form was copied"
								}
							}
						}
						if finite && !al && zp != 0 && zp < xp && len(rs) == 0 {
							return "receiver precision smaller than the operand's: the value must be rounded"
						}
						if len(rs) == 0 || !finite {
							if f := first(wantField(m, o, z, F.Form, e.formOf(cc), "form"), wantField(m, o, z, F.Acc, e.exact, "acc")); f != "" {
								return f
							}
							if finite {
								return wantField(m, o, z, F.Exp, 3, "exp")
							}
						}
						return ""
					})
				}
			}
		}
	}

	// ---- SetInf, SetMode, SetPrec
	for _, b := range []bool{false, true} {
		fn := m.Lookup("(*Decimal).SetInf")
		it := stdInterp(m)
		st := cdai.NewState()
		z := mkDec(m, st, decSpec{prec: i64(6), mode: i64(zMode), acc: i64(e.below), form: i64(e.finite), neg: bptr(!b)})
		bb := b
		cell(m, s, R, fmt.Sprintf("SetInf(%v)", b), fn, it, st, []cdai.Val{z, cdai.Bool(b)}, z, func(o cdai.Outcome) string {
			return first(retIsObj(o, z), wantField(m, o, z, F.Form, e.inf, "form"), wantNeg(m, o, z, bb), wantField(m, o, z, F.Acc, e.exact, "acc"), wantField(m, o, z, F.Prec, 6, "prec"), wantField(m, o, z, F.Mode, zMode, "mode"))
		})
	}
	for _, md := range e.modes() {
		fn := m.Lookup("(*Decimal).SetMode")
		it := stdInterp(m)
		st := cdai.NewState()
		z := mkDec(m, st, decSpec{prec: i64(6), mode: i64(zMode), acc: i64(e.below), form: i64(e.finite), neg: bptr(true), exp: i64(4)})
		mm := md
		cell(m, s, R, "SetMode("+e.modeNames[md]+")", fn, it, st, []cdai.Val{z, cdai.Int(md)}, z, func(o cdai.Outcome) string {
			return first(retIsObj(o, z), wantField(m, o, z, F.Mode, mm, "mode"), wantField(m, o, z, F.Acc, e.exact, "acc"), wantField(m, o, z, F.Form, e.finite, "form"), wantNeg(m, o, z, true), wantField(m, o, z, F.Prec, 6, "prec"), wantField(m, o, z, F.Exp, 4, "exp"))
		})
	}
	precArgs := []int64{0, 1, 5, 9, 10, 11, 15}
	if m.Cfg.Name != "386" {
		precArgs = append(precArgs, e.maxPrec, e.maxPrec+5)
	}
	for c := 0; c < 6; c++ {
		for _, p := range precArgs {
			fn := m.Lookup("(*Decimal).SetPrec")
			it := stdInterp(m)
			st := cdai.NewState()
			z := mkDec(m, st, decSpec{form: i64(e.formOf(c)), neg: bptr(negOf(c)), prec: i64(10), mode: i64(zMode), acc: i64(e.above), exp: i64(4)})
			cc, pv := c, p
			cell(m, s, R, fmt.Sprintf("SetPrec(%d) on %s prec=10", p, classNames[c]), fn, it, st, []cdai.Val{z, cdai.Int(p)}, z, func(o cdai.Outcome) string {
				if f := first(retIsObj(o, z), wantNeg(m, o, z, negOf(cc)), wantField(m, o, z, F.Mode, zMode, "mode")); f != "" {
					return f
				}
				rs := findEvents(o.St, "(*Decimal).round")
				finite := e.formOf(cc) == e.finite
				if pv == 0 {
					if len(rs) != 0 {
						return "SetPrec(0) must not call round (it would index an empty mantissa)"
					}
					if finite {
						wa := e.below
						if negOf(cc) {
							wa = e.above
						}
						return first(wantField(m, o, z, F.Prec, 0, "prec"), wantField(m, o, z, F.Form, e.zero, "form"), wantField(m, o, z, F.Acc, wa, "acc"))
					}
					return first(wantField(m, o, z, F.Prec, 0, "prec"), wantField(m, o, z, F.Form, e.formOf(cc), "form"), wantField(m, o, z, F.Acc, e.exact, "acc"))
				}
				wp := pv
				if wp > e.maxPrec {
					wp = e.maxPrec
				}
				if f := wantField(m, o, z, F.Prec, wp, "prec"); f != "" {
					return f
				}
				if finite && pv < 10 {
					if len(rs) == 0 {
						return "a smaller precision must round the value"
					}
					for _, ev := range rs {
						if p, ok := evRecvInt(m, ev, F.Prec); !ok || p != wp {
							return "round entered with the old precision"
						}
					}
					return ""
				}
				if len(rs) == 0 || !finite {
					return first(wantField(m, o, z, F.Form, e.formOf(cc), "form"), wantField(m, o, z, F.Acc, e.exact, "acc"))
				}
				return ""
			})
		}
	}

	// ---- Sqrt
	for c := 0; c < 6; c++ {
		for _, xexp := range []int64{4, 5, -3} {
			for _, zp := range []int64{12, 0, 4, 3} {
				fn := m.Lookup("(*Decimal).Sqrt")
				it := stdInterp(m)
				st := cdai.NewState()
				xprec := int64(7)
				if zp == 3 {
					xprec = 5000 // an operand much wider than the receiver
				}
				x := mkDec(m, st, decSpec{form: i64(e.formOf(c)), neg: bptr(negOf(c)), prec: i64(xprec), mode: i64(xMode), acc: i64(e.above), exp: i64(xexp)})
				z := mkDec(m, st, decSpec{prec: i64(zp), mode: i64(zMode), acc: i64(e.below)})
				cc, zpp := c, zp
				cell(m, s, R, fmt.Sprintf("Sqrt(%s) exp=%d zprec=%d", classNames[c], xexp, zp), fn, it, st, []cdai.Val{z, x}, z, func(o cdai.Outcome) string {
					if cc == cNF || cc == cNI {
						if !isErrNaNPanic(o) {
							return "square root of a negative operand must panic with ErrNaN"
						}
						return ""
					}
					wp := zpp
					if wp == 0 {
						wp = 7
					}
					// a plain round() of the working copy before the root is computed is a second rounding
					for _, ev := range o.St.Trace {
						if ev.Fn == "(*Decimal).sqrtInverse" {
							break
						}
						if ev.Fn == "(*Decimal).round" && len(ev.Args) > 0 && sameObj(ev.Args[0], z) {
							return "the operand's copy is rounded before the root is computed (double rounding: digits dropped here are invisible to the final rounding)"
						}
					}
					if f := first(retIsObj(o, z), wantField(m, o, z, F.Mode, zMode, "receiver mode (must be unchanged)"), wantField(m, o, z, F.Prec, wp, "receiver precision")); f != "" {
						return f
					}
					if e.formOf(cc) != e.finite {
						return first(wantField(m, o, z, F.Form, e.formOf(cc), "form"), wantNeg(m, o, z, negOf(cc)), wantField(m, o, z, F.Acc, e.exact, "acc"))
					}
					evs := findEvents(o.St, "(*Decimal).sqrtInverse")
					if len(evs) != 1 {
						return "finite operand: the root must be computed (one sqrtInverse)"
					}
					if p, ok := evRecvInt(m, evs[0], F.Prec); !ok || p != wp {
						return fmt.Sprintf("sqrtInverse entered with prec=%s, want the receiver's %d", cdai.Str(evs[0].Recv[F.Prec]), wp)
					}
					if md, ok := evRecvInt(m, evs[0], F.Mode); !ok || md != zMode {
						return "sqrtInverse entered with a rounding mode that is not the receiver's"
					}
					if b, ok := evRecvBool(m, evs[0], F.Neg); !ok || b {
						return "sqrtInverse entered with a negative receiver"
					}
					return ""
				})
			}
		}
	}

	// ---- MantExp / SetMantExp
	minExp, _ := constant.Int64Val(m.PkgConst("MinExp"))
	maxExp, _ := constant.Int64Val(m.PkgConst("MaxExp"))
	for c := 0; c < 6; c++ {
		// the exponent limits: MantExp hands back the exponent itself there too
		for _, ex := range []int64{minExp, maxExp} {
			if e.formOf(c) != e.finite {
				continue
			}
			fn := m.Lookup("(*Decimal).MantExp")
			it := stdInterp(m)
			st := cdai.NewState()
			x := mkDec(m, st, decSpec{form: i64(e.formOf(c)), neg: bptr(negOf(c)), prec: i64(7), mode: i64(xMode), acc: i64(e.above), exp: i64(ex)})
			exx := ex
			cell(m, s, R, fmt.Sprintf("MantExp(%s) exp=%d mant=nil", classNames[c], ex), fn, it, st, []cdai.Val{x, cdai.Const{}}, cdai.Obj{}, func(o cdai.Outcome) string {
				if g, ok := retInt(o, 0); !ok || g != exx {
					return fmt.Sprintf("returned exponent must be %d (x = mant × 10**exp exactly, at the limits of the exponent range as anywhere else)", exx)
				}
				return ""
			})
		}
		for _, withMant := range []int{0, 1, 2} { // nil, distinct, same as x
			fn := m.Lookup("(*Decimal).MantExp")
			it := stdInterp(m)
			st := cdai.NewState()
			x := mkDec(m, st, decSpec{form: i64(e.formOf(c)), neg: bptr(negOf(c)), prec: i64(7), mode: i64(xMode), acc: i64(e.above), exp: i64(5)})
			var mant cdai.Val = cdai.Const{}
			var mo cdai.Obj
			switch withMant {
			case 1:
				mo = mkDec(m, st, decSpec{prec: i64(3), mode: i64(zMode), acc: i64(e.below)})
				mant = mo
			case 2:
				mo = x
				mant = x
			}
			cc, wm := c, withMant
			cell(m, s, R, fmt.Sprintf("MantExp(%s) mant=%s", classNames[c], []string{"nil", "distinct", "x"}[withMant]), fn, it, st, []cdai.Val{x, mant}, mo, func(o cdai.Outcome) string {
				want := int64(0)
				if e.formOf(cc) == e.finite {
					want = 5
				}
				if g, ok := retInt(o, 0); !ok || g != want {
					return fmt.Sprintf("returned exponent must be %d", want)
				}
				if wm == 0 {
					return ""
				}
				if f := first(wantField(m, o, mo, F.Form, e.formOf(cc), "mant.form"), wantNeg(m, o, mo, negOf(cc)), wantField(m, o, mo, F.Prec, 7, "mant.prec (documented: same precision as x)"), wantField(m, o, mo, F.Mode, xMode, "mant.mode")); f != "" {
					return f
				}
				if e.formOf(cc) == e.finite {
					return wantField(m, o, mo, F.Exp, 0, "mant.exp")
				}
				return ""
			})
		}
		for _, ex := range []int64{3, -9, 0} {
			for _, al := range []bool{false, true} {
				fn := m.Lookup("(*Decimal).SetMantExp")
				it := stdInterp(m)
				st := cdai.NewState()
				mant := mkDec(m, st, decSpec{form: i64(e.formOf(c)), neg: bptr(negOf(c)), prec: i64(7), mode: i64(xMode), acc: i64(e.above), exp: i64(5)})
				z := mant
				if !al {
					z = mkDec(m, st, decSpec{prec: i64(3), mode: i64(zMode), acc: i64(e.below)})
				}
				cc, exx := c, ex
				name := fmt.Sprintf("SetMantExp(%s,%d)", classNames[c], ex)
				if al {
					name += " z=mant"
				}
				cell(m, s, R, name, fn, it, st, []cdai.Val{z, mant, cdai.Int(ex)}, z, func(o cdai.Outcome) string {
					if f := first(retIsObj(o, z), wantNeg(m, o, z, negOf(cc)), wantField(m, o, z, F.Prec, 7, "prec (documented: same as mant)"), wantField(m, o, z, F.Mode, xMode, "mode (documented: same as mant)")); f != "" {
						return f
					}
					evs := findEvents(o.St, "(*Decimal).setExpAndRound")
					if e.formOf(cc) != e.finite {
						if len(evs) != 0 {
							return "zero or infinite mantissa: nothing to scale"
						}
						return wantField(m, o, z, F.Form, e.formOf(cc), "form")
					}
					if len(evs) == 0 && exx == 0 {
						// scaling by 10**0 without going through round: the accuracy Copy took
						// from mant (Above here) must have been replaced by Exact
						return first(wantField(m, o, z, F.Form, e.finite, "form"), wantField(m, o, z, F.Exp, 5, "exp"), wantField(m, o, z, F.Acc, e.exact, "acc (nothing is lost: not the accuracy of the operation that produced mant)"))
					}
					if len(evs) != 1 {
						return "finite mantissa: exactly one setExpAndRound expected"
					}
					ei, _ := searArgs(m.TryLookup("(*Decimal).setExpAndRound"))
					if a, ok := cdai.ConstInt(evs[0].Args[ei]); !ok || a != 5+exx {
						return fmt.Sprintf("setExpAndRound entered with exponent %s, want %d", cdai.Str(evs[0].Args[ei]), 5+exx)
					}
					if b, ok := evRecvBool(m, evs[0], F.Neg); !ok || b != negOf(cc) {
						return "setExpAndRound entered before the sign was set"
					}
					return ""
				})
			}
		}
	}

	// ---- SetBitsExp / BitsExp
	lenPositive := func(d cdai.Decision) (known, positive bool) {
		// a fork on len(mantissa) against 0 or 1: what the taken edge says about len > 0
		x, y, op := d.X, d.Y, d.Op
		if _, isSym := y.(cdai.Sym); isSym {
			if mo, ok := map[token.Token]token.Token{token.EQL: token.EQL, token.NEQ: token.NEQ, token.LSS: token.GTR, token.GTR: token.LSS, token.LEQ: token.GEQ, token.GEQ: token.LEQ}[op]; ok {
				x, y, op = y, x, mo
			}
		}
		sx, ok := x.(cdai.Sym)
		k, isK := cdai.ConstInt(y)
		if !ok || !isK || !strings.HasPrefix(sx.Name, "len(") {
			return false, false
		}
		if !d.Taken {
			op = map[token.Token]token.Token{token.EQL: token.NEQ, token.NEQ: token.EQL, token.LSS: token.GEQ, token.GEQ: token.LSS, token.GTR: token.LEQ, token.LEQ: token.GTR}[op]
		}
		switch {
		case op == token.GTR && k == 0, op == token.NEQ && k == 0, op == token.GEQ && k == 1:
			return true, true
		case op == token.LEQ && k == 0, op == token.EQL && k == 0, op == token.LSS && k == 1:
			return true, false
		}
		return false, false
	}
	if fn := m.TryLookup("(*Decimal).SetBitsExp"); fn != nil {
		for c := 0; c < 6; c++ {
			it := stdInterp(m)
			it.Models["dec.norm"] = func(it *cdai.Interp, st *cdai.State, name string, args []cdai.Val) ([]cdai.Val, bool) {
				if sy, ok := args[0].(cdai.Sym); ok {
					return []cdai.Val{cdai.Sym{Name: "norm(" + sy.Name + ")"}}, true
				}
				return nil, false
			}
			it.Models["builtin.len"] = func(it *cdai.Interp, st *cdai.State, name string, args []cdai.Val) ([]cdai.Val, bool) {
				if sy, ok := args[0].(cdai.Sym); ok {
					return []cdai.Val{cdai.Sym{Name: "len(" + sy.Name + ")"}}, true
				}
				return nil, false
			}
			st := cdai.NewState()
			z := mkDec(m, st, decSpec{form: i64(e.formOf(c)), neg: bptr(negOf(c)), prec: i64(5), mode: i64(zMode), acc: i64(e.below), exp: i64(9)})
			cell(m, s, R, fmt.Sprintf("SetBitsExp(mant,3) on %s", classNames[c]), fn, it, st, []cdai.Val{z, cdai.Sym{Name: "M"}, cdai.Int(3)}, z, func(o cdai.Outcome) string {
				if o.Kind != "return" {
					return ""
				}
				known, positive := false, false
				for _, d := range o.St.Decs {
					if k, p := lenPositive(d); k {
						if known && p != positive {
							return "" // contradictory tests of the length: not a path of the program
						}
						known, positive = true, p
					}
				}
				evs := findEvents(o.St, "(*Decimal).setExpAndRound")
				if b, ok := fBool(m, o.St, z, F.Neg); ok && b {
					return "SetBitsExp sets the receiver to a positive number: the sign must be cleared"
				}
				if f := first(retIsObj(o, z), wantField(m, o, z, F.Prec, 5, "prec"), wantField(m, o, z, F.Mode, zMode, "mode")); f != "" {
					return f
				}
				switch {
				case len(evs) > 0 && !(known && positive):
					return "setExpAndRound is entered on a path that has not established a non-empty mantissa (an all-zero slice is the value 0, not a finite number)"
				case len(evs) == 0 && known && positive:
					return "a non-empty mantissa must be given its exponent and rounded (setExpAndRound)"
				case len(evs) > 0:
					if b, ok := evRecvBool(m, evs[0], F.Neg); ok && b {
						return "setExpAndRound entered with the old sign: the rounding direction depends on it"
					}
				case known && !positive:
					return first(wantField(m, o, z, F.Form, e.zero, "form (all-zero slice)"), wantField(m, o, z, F.Acc, e.exact, "acc (all-zero slice: nothing is lost)"), wantNeg(m, o, z, false))
				}
				return ""
			})
		}
	}
	if fn := m.TryLookup("(*Decimal).BitsExp"); fn != nil {
		for c := 0; c < 6; c++ {
			it := stdInterp(m)
			st := cdai.NewState()
			x := mkDec(m, st, decSpec{form: i64(e.formOf(c)), neg: bptr(negOf(c)), prec: i64(5), mode: i64(zMode), acc: i64(e.below), exp: i64(9)})
			cc := c
			mantSym := st.Get(x, F.Mant)
			cell(m, s, R, fmt.Sprintf("BitsExp(%s)", classNames[c]), fn, it, st, []cdai.Val{x}, cdai.Obj{}, func(o cdai.Outcome) string {
				if o.Kind != "return" || len(o.Vals) != 2 {
					return ""
				}
				if e.formOf(cc) == e.finite {
					if g, ok := retInt(o, 1); ok && g != 9 {
						return fmt.Sprintf("the exponent returned is %d, x's is 9", g)
					}
					return ""
				}
				if sy, ok := o.Vals[0].(cdai.Sym); ok && sy == mantSym {
					return "the whole mantissa buffer of a zero or an infinity is handed out as its digits: whatever an earlier value left there (BitsExp denotes exactly the receiver's magnitude)"
				}
				return ""
			})
		}
	}

	// ---- MinPrec, IsInt
	for c := 0; c < 6; c++ {
		for _, ex := range []int64{0, -3, 2} {
			st := cdai.NewState()
			it := stdInterp(m)
			x := mkDec(m, st, decSpec{form: i64(e.formOf(c)), neg: bptr(negOf(c)), prec: i64(7), mode: i64(xMode), acc: i64(e.above), exp: i64(ex)})
			cc, exx := c, ex
			cell(m, s, R, fmt.Sprintf("MinPrec(%s) exp=%d", classNames[c], ex), m.Lookup("(*Decimal).MinPrec"), it, st, []cdai.Val{x}, cdai.Obj{}, func(o cdai.Outcome) string {
				if e.formOf(cc) != e.finite {
					if g, ok := retInt(o, 0); !ok || g != 0 {
						return "MinPrec of a zero or infinity must be 0"
					}
				} else if o.Kind != "return" {
					return "must not panic"
				}
				return ""
			})
			st2 := cdai.NewState()
			it2 := stdInterp(m)
			x2 := mkDec(m, st2, decSpec{form: i64(e.formOf(c)), neg: bptr(negOf(c)), prec: i64(7), mode: i64(xMode), acc: i64(e.above), exp: i64(ex)})
			cell(m, s, R, fmt.Sprintf("IsInt(%s) exp=%d", classNames[c], ex), m.Lookup("(*Decimal).IsInt"), it2, st2, []cdai.Val{x2}, cdai.Obj{}, func(o cdai.Outcome) string {
				g, ok := retBool(o, 0)
				switch {
				case e.formOf(cc) == e.zero:
					if !ok || !g {
						return "a zero is an integer"
					}
				case e.formOf(cc) == e.inf:
					if !ok || g {
						return "an infinity is not an integer"
					}
				case exx <= 0:
					if !ok || g {
						return "a finite value below 1 in magnitude is not an integer"
					}
				default:
					if o.Kind != "return" {
						return "must not panic"
					}
				}
				return ""
			})
		}
	}

	// ---- integer setters
	for _, zp := range []int64{0, 7} {
		wp := zp
		if wp == 0 {
			wp = e.defaultPrec
		}
		for _, xv := range []int64{math.MinInt64, -5, 0, 5, math.MaxInt64} {
			fn := m.Lookup("(*Decimal).SetInt64")
			it := stdInterp(m)
			st := cdai.NewState()
			z := mkDec(m, st, decSpec{prec: i64(zp), mode: i64(zMode), acc: i64(e.below), form: i64(e.inf), neg: bptr(xv >= 0)})
			x := xv
			cell(m, s, R, fmt.Sprintf("SetInt64(%d) zprec=%d", xv, zp), fn, it, st, []cdai.Val{z, cdai.Int(xv)}, z, func(o cdai.Outcome) string {
				return checkBits64(m, e, o, z, x < 0, x == 0, wp, zMode)
			})
		}
		for _, xv := range []uint64{0, 5, math.MaxUint64} {
			fn := m.Lookup("(*Decimal).SetUint64")
			it := stdInterp(m)
			st := cdai.NewState()
			z := mkDec(m, st, decSpec{prec: i64(zp), mode: i64(zMode), acc: i64(e.below), form: i64(e.inf), neg: bptr(true)})
			x := xv
			cell(m, s, R, fmt.Sprintf("SetUint64(%d) zprec=%d", xv, zp), fn, it, st, []cdai.Val{z, cdai.Const{V: constantUint(xv)}}, z, func(o cdai.Outcome) string {
				return checkBits64(m, e, o, z, false, x == 0, wp, zMode)
			})
		}
		// SetInt(*big.Int): zero / positive / negative
		for _, sg := range []int64{0, 1, -1} {
			fn := m.Lookup("(*Decimal).SetInt")
			it := stdInterp(m)
			sgv := sg
			it.Models["math/big.(*Int).BitLen"] = func(it *cdai.Interp, st *cdai.State, name string, args []cdai.Val) ([]cdai.Val, bool) {
				if sgv == 0 {
					return []cdai.Val{cdai.Int(0)}, true
				}
				return []cdai.Val{cdai.Int(70)}, true
			}
			it.Models["math/big.(*Int).Sign"] = func(it *cdai.Interp, st *cdai.State, name string, args []cdai.Val) ([]cdai.Val, bool) {
				return []cdai.Val{cdai.Int(sgv)}, true
			}
			st := cdai.NewState()
			z := mkDec(m, st, decSpec{prec: i64(zp), mode: i64(zMode), acc: i64(e.below), form: i64(e.inf), neg: bptr(sg >= 0)})
			zpp := zp
			cell(m, s, R, fmt.Sprintf("SetInt(sign %d) zprec=%d", sg, zp), fn, it, st, []cdai.Val{z, cdai.Sym{Name: "x"}}, z, func(o cdai.Outcome) string {
				if f := first(retIsObj(o, z), wantNeg(m, o, z, sgv < 0), wantField(m, o, z, F.Mode, zMode, "mode")); f != "" {
					return f
				}
				if zpp != 0 {
					if f := wantField(m, o, z, F.Prec, zpp, "prec (a non-zero precision is sticky)"); f != "" {
						return f
					}
				}
				if sgv == 0 {
					if zpp == 0 {
						if f := wantField(m, o, z, F.Prec, e.defaultPrec, "prec"); f != "" {
							return f
						}
					}
					return first(wantField(m, o, z, F.Form, e.zero, "form"), wantField(m, o, z, F.Acc, e.exact, "acc"))
				}
				evs := findEvents(o.St, "(*Decimal).setExpAndRound")
				if len(evs) != 1 {
					return "non-zero integer: exactly one setExpAndRound expected"
				}
				if b, ok := evRecvBool(m, evs[0], F.Neg); !ok || b != (sgv < 0) {
					return "setExpAndRound entered before the sign was set"
				}
				return ""
			})
		}
	}
	// NewDecimal(x, exp)
	for _, xv := range []int64{math.MinInt64, -3, 0, 3} {
		fn := m.Lookup("NewDecimal")
		it := stdInterp(m)
		st := cdai.NewState()
		x := xv
		cell(m, s, R, fmt.Sprintf("NewDecimal(%d,2)", xv), fn, it, st, []cdai.Val{cdai.Int(xv), cdai.Int(2)}, cdai.Obj{}, func(o cdai.Outcome) string {
			if o.Kind != "return" || len(o.Vals) != 1 {
				return "must return"
			}
			z, ok := o.Vals[0].(cdai.Obj)
			if !ok {
				return "must return a fresh Decimal"
			}
			// the magnitude handed on is |x| (for MinInt64: 2**63, which the unsigned conversion gives)
			// (the magnitude is the unsigned 64-bit parameter, wherever it stands)
			magIdx := -1
			if sb := m.TryLookup("(*Decimal).setBits64"); sb != nil {
				for i, p := range sb.Params {
					if bt, ok := p.Type().Underlying().(*types.Basic); ok && bt.Kind() == types.Uint64 {
						magIdx = i
					}
				}
			}
			for _, ev := range findEvents(o.St, "(*Decimal).setBits64") {
				if magIdx >= 0 && magIdx < len(ev.Args) {
					if c, ok := ev.Args[magIdx].(cdai.Const); ok && c.V != nil {
						want := constant.MakeInt64(x)
						if x < 0 {
							want = constant.UnaryOp(token.SUB, want, 0)
						}
						if !constant.Compare(c.V, token.EQL, want) {
							return fmt.Sprintf("the magnitude stored for x = %d is %s, not |x|", x, c.V.ExactString())
						}
					}
				}
			}
			return checkBits64(m, e, o, z, x < 0, x == 0, e.defaultPrec, e.nearEven)
		})
	}
}

func checkBits64(m *model.Model, e enums, o cdai.Outcome, z cdai.Obj, neg, zero bool, wantPrec, wantMode int64) string {
	F := m.F
	if f := first(retIsObj(o, z), wantField(m, o, z, F.Prec, wantPrec, "prec"), wantField(m, o, z, F.Mode, wantMode, "mode")); f != "" {
		return f
	}
	evs := findEvents(o.St, "(*Decimal).setExpAndRound")
	if zero {
		if len(evs) != 0 {
			return "zero argument: nothing to round"
		}
		return first(wantField(m, o, z, F.Form, e.zero, "form"), wantNeg(m, o, z, false), wantField(m, o, z, F.Acc, e.exact, "acc"))
	}
	if len(evs) != 1 {
		return "non-zero argument: exactly one setExpAndRound expected"
	}
	if b, ok := evRecvBool(m, evs[0], F.Neg); !ok || b != neg {
		return fmt.Sprintf("setExpAndRound entered with neg=%s, want %v (the sign affects rounding)", cdai.Str(evs[0].Recv[F.Neg]), neg)
	}
	if p, ok := evRecvInt(m, evs[0], F.Prec); !ok || p != wantPrec {
		return fmt.Sprintf("setExpAndRound entered with prec=%s, want %d", cdai.Str(evs[0].Recv[F.Prec]), wantPrec)
	}
	return wantNeg(m, o, z, neg)
}

func runTConv(m *model.Model, s *ob.Set) {
	const R = "T-CONV"
	e := getEnums(m)
	F := m.F
	type tc struct {
		class int
		exp   int64
	}
	var cases []tc
	for c := 0; c < 6; c++ {
		if e.formOf(c) == e.finite {
			for _, ex := range []int64{-5, 0, 1, 20, 21, e.maxExp} {
				cases = append(cases, tc{c, ex})
			}
		} else {
			cases = append(cases, tc{c, 7})
		}
	}
	for _, c := range cases {
		cc := c
		pos := !negOf(c.class)
		form := e.formOf(c.class)
		mk := func() (*cdai.Interp, *cdai.State, cdai.Obj) {
			it := stdInterp(m)
			st := cdai.NewState()
			x := mkDec(m, st, decSpec{form: i64(form), neg: bptr(!pos), prec: i64(30), mode: i64(e.toZ), acc: i64(e.exact), exp: i64(cc.exp)})
			return it, st, x
		}
		nm := fmt.Sprintf("(%s exp=%d)", classNames[c.class], c.exp)
		{
			it, st, x := mk()
			cell(m, s, R, "Int64"+nm, m.Lookup("(*Decimal).Int64"), it, st, []cdai.Val{x}, cdai.Obj{}, func(o cdai.Outcome) string {
				if o.Kind != "return" {
					return "must not panic"
				}
				v, vok := retInt(o, 0)
				a, aok := retInt(o, 1)
				want := func(wv, wa int64) string {
					if !vok || !aok || v != wv || a != wa {
						return fmt.Sprintf("want (%d, acc %d)", wv, wa)
					}
					return ""
				}
				switch {
				case form == e.zero:
					return want(0, e.exact)
				case form == e.inf || cc.exp > 20:
					if pos {
						return want(math.MaxInt64, e.below)
					}
					return want(math.MinInt64, e.above)
				case cc.exp <= 0:
					if pos {
						return want(0, e.below)
					}
					return want(0, e.above)
				}
				// 1 <= exp <= 20: value not decided; accuracy can only be Exact or the truncation direction
				if aok && a != e.exact && ((pos && a != e.below) || (!pos && a != e.above)) {
					return "truncation toward zero is Below for positive and Above for negative values"
				}
				return ""
			})
		}
		{
			it, st, x := mk()
			cell(m, s, R, "Uint64"+nm, m.Lookup("(*Decimal).Uint64"), it, st, []cdai.Val{x}, cdai.Obj{}, func(o cdai.Outcome) string {
				if o.Kind != "return" {
					return "must not panic"
				}
				a, aok := retInt(o, 1)
				isVal := func(c cdai.Val, u uint64) bool {
					k, ok := c.(cdai.Const)
					if !ok || k.V == nil {
						return false
					}
					return constantEq(k.V, constantUint(u))
				}
				want := func(wv uint64, wa int64) string {
					if !aok || a != wa || !isVal(o.Vals[0], wv) {
						return fmt.Sprintf("want (%d, acc %d)", wv, wa)
					}
					return ""
				}
				switch {
				case form == e.zero:
					return want(0, e.exact)
				case !pos:
					return want(0, e.above)
				case form == e.inf || cc.exp > 20:
					return want(math.MaxUint64, e.below)
				case cc.exp <= 0:
					return want(0, e.below)
				}
				if aok && a != e.exact && a != e.below {
					return "a truncated positive value is Below"
				}
				return ""
			})
		}
		for _, meth := range []string{"Int", "Rat"} {
			it, st, x := mk()
			mth := meth
			cell(m, s, R, meth+nm, m.Lookup("(*Decimal)."+meth), it, st, []cdai.Val{x, cdai.Const{}}, cdai.Obj{}, func(o cdai.Outcome) string {
				if o.Kind != "return" {
					return "must not panic"
				}
				a, aok := retInt(o, 1)
				if form == e.inf {
					wa := e.below
					if !pos {
						wa = e.above
					}
					if k, ok := o.Vals[0].(cdai.Const); !ok || k.V != nil {
						return "an infinity converts to a nil result"
					}
					if !aok || a != wa {
						return fmt.Sprintf("accuracy must be %d", wa)
					}
					return ""
				}
				if k, ok := o.Vals[0].(cdai.Const); ok && k.V == nil {
					return "a finite or zero value must give a non-nil result"
				}
				switch {
				case form == e.zero, mth == "Rat":
					if !aok || a != e.exact {
						return "accuracy must be Exact"
					}
				case cc.exp <= 0:
					wa := e.below
					if !pos {
						wa = e.above
					}
					if !aok || a != wa {
						return fmt.Sprintf("accuracy must be %d", wa)
					}
				}
				return ""
			})
		}
	}

	// ---- SetFloat64
	type fc struct {
		name                string
		nan, zero, inf, neg bool
	}
	fcs := []fc{{"NaN", true, false, false, false}, {"+0", false, true, false, false}, {"-0", false, true, false, true}, {"+Inf", false, false, true, false}, {"-Inf", false, false, true, true}, {"+finite", false, false, false, false}, {"-finite", false, false, false, true}}
	for _, c := range fcs {
		for _, zp := range []int64{0, 9} {
			cc, zpp := c, zp
			it := stdInterp(m)
			b := func(v bool) ([]cdai.Val, bool) { return []cdai.Val{cdai.Bool(v)}, true }
			// the float64 argument is one abstract class (NaN, ±0, ±Inf, ±finite): every way of
			// interrogating it is answered from that class
			it.Models["math.IsNaN"] = func(*cdai.Interp, *cdai.State, string, []cdai.Val) ([]cdai.Val, bool) { return b(cc.nan) }
			it.Models["math.Signbit"] = func(*cdai.Interp, *cdai.State, string, []cdai.Val) ([]cdai.Val, bool) { return b(cc.neg) }
			it.Models["math.IsInf"] = func(_ *cdai.Interp, _ *cdai.State, _ string, args []cdai.Val) ([]cdai.Val, bool) {
				if len(args) == 2 {
					if k, ok := args[1].(cdai.Const); ok && k.V != nil && k.V.Kind() == constant.Int {
						switch constant.Sign(k.V) {
						case 1:
							return b(cc.inf && !cc.neg)
						case -1:
							return b(cc.inf && cc.neg)
						}
					}
				}
				return b(cc.inf)
			}
			it.Models["math.Float64bits"] = func(*cdai.Interp, *cdai.State, string, []cdai.Val) ([]cdai.Val, bool) {
				return []cdai.Val{cdai.Sym{Name: "bits(x)"}}, true
			}
			it.BinHook = func(op token.Token, x, y cdai.Val) (cdai.Val, bool) {
				sx, isx := x.(cdai.Sym)
				sy, isy := y.(cdai.Sym)
				if !isx && !isy {
					return nil, false
				}
				// the sign bit of the IEEE representation
				if isx && sx.Name == "bits(x)" {
					if k, ok := y.(cdai.Const); ok && op == token.SHR && k.V != nil && k.V.Kind() == constant.Int {
						if v, _ := constant.Int64Val(k.V); v == 63 {
							if cc.neg {
								return cdai.Int(1), true
							}
							return cdai.Int(0), true
						}
					}
					return cdai.TopV, true
				}
				if isy && sy.Name == "bits(x)" {
					return cdai.TopV, true
				}
				// x compared with itself: only NaN differs from itself
				if isx && isy && sx.Name == sy.Name {
					switch op {
					case token.EQL:
						return cdai.Bool(!cc.nan), true
					case token.NEQ:
						return cdai.Bool(cc.nan), true
					}
					return cdai.TopV, true
				}
				// comparison of the float argument with the constant 0 (the only constant the code may
				// meaningfully compare an abstract class with)
				other := y
				flip := false
				if isy {
					other, flip = x, true
				}
				if k, ok := other.(cdai.Const); !ok || k.V == nil || constant.Sign(constant.ToFloat(k.V)) != 0 {
					return cdai.TopV, true
				}
				neg := cc.neg && !cc.zero && !cc.nan
				pos := !cc.neg && !cc.zero && !cc.nan
				if flip {
					neg, pos = pos, neg
				}
				switch op {
				case token.EQL:
					return cdai.Bool(cc.zero), true
				case token.NEQ:
					return cdai.Bool(!cc.zero), true
				case token.LSS:
					return cdai.Bool(neg), true
				case token.GTR:
					return cdai.Bool(pos), true
				case token.LEQ:
					return cdai.Bool(neg || cc.zero), true
				case token.GEQ:
					return cdai.Bool(pos || cc.zero), true
				}
				return cdai.TopV, true
			}
			st := cdai.NewState()
			z := mkDec(m, st, decSpec{prec: i64(zp), mode: i64(e.posInf), acc: i64(e.below)})
			cell(m, s, R, fmt.Sprintf("SetFloat64(%s) zprec=%d", c.name, zp), m.Lookup("(*Decimal).SetFloat64"), it, st, []cdai.Val{z, cdai.Sym{Name: "x"}}, z, func(o cdai.Outcome) string {
				if cc.nan {
					if !isErrNaNPanic(o) {
						return "SetFloat64(NaN) must panic with ErrNaN"
					}
					return ""
				}
				wp := zpp
				if wp == 0 {
					wp = 17
				}
				if f := first(retIsObj(o, z), wantField(m, o, z, F.Prec, wp, "prec"), wantField(m, o, z, F.Mode, e.posInf, "mode")); f != "" {
					return f
				}
				if cc.zero || cc.inf {
					if f := wantNeg(m, o, z, cc.neg); f != "" {
						return f
					}
				}
				switch {
				case cc.zero:
					return first(wantField(m, o, z, F.Form, e.zero, "form"), wantField(m, o, z, F.Acc, e.exact, "acc"))
				case cc.inf:
					return first(wantField(m, o, z, F.Form, e.inf, "form"), wantField(m, o, z, F.Acc, e.exact, "acc"))
				}
				rs := findEvents(o.St, "(*Decimal).round")
				if len(rs) == 0 {
					return "a finite value must be rounded to the receiver's precision"
				}
				last := rs[len(rs)-1]
				if !sameObj(last.Args[0], z) {
					return "the last rounding is not applied to the receiver"
				}
				if p, ok := evRecvInt(m, last, F.Prec); !ok || p != wp {
					return fmt.Sprintf("the final round runs with prec=%s, want %d", cdai.Str(last.Recv[F.Prec]), wp)
				}
				// the first arithmetic or rounding step applied to the receiver must already see the
				// argument's sign and a finite form (the scaling by a power of two keeps the sign)
				for _, ev := range findEvents(o.St, "(*Decimal).Quo", "(*Decimal).Mul", "(*Decimal).round") {
					if !sameObj(ev.Args[0], z) {
						continue
					}
					if ev.Fn != "(*Decimal).round" {
						// the scaling by 2**n is inexact in general: it must run with more digits than the
						// final rounding keeps (the code uses prec+1), otherwise the value is rounded twice
						if p, ok := evRecvInt(m, ev, F.Prec); !ok || p <= wp {
							return fmt.Sprintf("%s scales the binary mantissa at prec=%s, not above the final precision %d (no guard digit: double rounding)", ev.Fn, cdai.Str(ev.Recv[F.Prec]), wp)
						}
					}
					if bb, ok := evRecvBool(m, ev, F.Neg); !ok || bb != cc.neg {
						return ev.Fn + " is entered before the argument's sign was stored"
					}
					if f, ok := evRecvInt(m, ev, F.Form); !ok || f != e.finite {
						return ev.Fn + " is entered before the form was set to finite"
					}
					break
				}
				return ""
			})
		}
	}
	// ---- SetFloat: the scaling by the binary exponent. x = m·2**e2 with m in [0.5, 1); the
	// mantissa is made an integer by taking fp = MinPrec bits out of the exponent, and what is left,
	// L = e2 − fp, scales the integer: by Mul when positive, by Quo when negative, not at all when 0
	if fn := m.TryLookup("(*Decimal).SetFloat"); fn != nil {
		it := stdInterp(m)
		b := func(v bool) ([]cdai.Val, bool) { return []cdai.Val{cdai.Bool(v)}, true }
		it.Models["math/big.(*Float).Signbit"] = func(*cdai.Interp, *cdai.State, string, []cdai.Val) ([]cdai.Val, bool) { return b(false) }
		it.Models["math/big.(*Float).IsInf"] = func(*cdai.Interp, *cdai.State, string, []cdai.Val) ([]cdai.Val, bool) { return b(false) }
		it.Models["math/big.(*Int).BitLen"] = func(*cdai.Interp, *cdai.State, string, []cdai.Val) ([]cdai.Val, bool) {
			return []cdai.Val{cdai.Int(53)}, true
		}
		it.Models["math/big.(*Int).Sign"] = func(*cdai.Interp, *cdai.State, string, []cdai.Val) ([]cdai.Val, bool) {
			return []cdai.Val{cdai.Int(1)}, true
		}
		it.Models["math/big.(*Float).MantExp"] = func(*cdai.Interp, *cdai.State, string, []cdai.Val) ([]cdai.Val, bool) {
			return []cdai.Val{cdai.Sym{Name: "e2"}}, true
		}
		it.Models["math/big.(*Float).MinPrec"] = func(*cdai.Interp, *cdai.State, string, []cdai.Val) ([]cdai.Val, bool) {
			return []cdai.Val{cdai.Sym{Name: "fp"}}, true
		}
		it.Traced["math/big.(*Float).SetMantExp"] = true
		it.Traced["math/big.(*Float).Int"] = true
		it.Traced["(*Decimal).pow2"] = true
		it.BinHook = linHook(func(n string) bool { return n == "e2" || n == "fp" }, nil)
		st := cdai.NewState()
		const zp = 9
		z := mkDec(m, st, decSpec{prec: i64(zp), mode: i64(e.posInf), acc: i64(e.below)})
		L := linF{t: map[string]int64{"e2": 1, "fp": -1}}
		cell(m, s, R, "SetFloat(+finite) scaling by the binary exponent", fn, it, st, []cdai.Val{z, cdai.Sym{Name: "x"}}, z, func(o cdai.Outcome) string {
			if o.Kind != "return" {
				return ""
			}
			fs := factsOf(o.St.Decs)
			if fs.contradictory() {
				return ""
			}
			// the mantissa is scaled to an integer by exactly fp bits before it is read
			seenSME := false
			for _, ev := range o.St.Trace {
				switch ev.Fn {
				case "math/big.(*Float).SetMantExp":
					if len(ev.Args) == 3 {
						if l, ok := linOf(ev.Args[2]); ok {
							if !l.equal(linF{t: map[string]int64{"fp": 1}}) {
								return fmt.Sprintf("the binary mantissa is scaled by %s bits before it is read as an integer; it has fp = MinPrec() significant bits", l)
							}
							seenSME = true
						}
					}
				case "math/big.(*Float).Int":
					if !seenSME {
						return "the binary mantissa (a fraction in [0.5, 1)) is read as an integer without having been scaled by its MinPrec() bits"
					}
				}
			}
			var scal []cdai.Event
			var pows []linF
			powsKnown := true
			for _, ev := range o.St.Trace {
				switch ev.Fn {
				case "(*Decimal).Quo", "(*Decimal).Mul":
					if sameObj(ev.Args[0], z) {
						scal = append(scal, ev)
					}
				case "(*Decimal).pow2":
					if len(ev.Args) == 2 {
						if l, ok := linOf(ev.Args[1]); ok {
							pows = append(pows, l)
						} else {
							powsKnown = false
						}
					}
				}
			}
			kne, ne := fs.ask(L, token.NEQ)
			if len(scal) == 0 {
				if kne && ne {
					return "the binary exponent left after the mantissa's bits were taken out (e2 − fp) is not zero on this path, but the value is not scaled by it"
				}
				return ""
			}
			if !(kne && ne) {
				return "the value is scaled by a power of two on a path that has not established that the exponent left after the mantissa's bits were taken out (e2 − fp) is non-zero"
			}
			kind := scal[0].Fn
			for _, ev := range scal {
				if ev.Fn != kind {
					return "the value is both multiplied and divided by powers of two"
				}
				if p, ok := evRecvInt(m, ev, F.Prec); ok && p <= zp {
					return fmt.Sprintf("%s scales the binary mantissa at prec=%d, not above the final precision %d (no guard digit: double rounding)", ev.Fn, p, zp)
				}
			}
			kneg, neg := fs.ask(L, token.LSS)
			if kind == "(*Decimal).Quo" && !(kneg && neg) {
				return "the value is divided by a power of two on a path where e2 − fp is not known to be negative"
			}
			if kind == "(*Decimal).Mul" && !(kneg && !neg) {
				return "the value is multiplied by a power of two on a path where e2 − fp is not known to be positive"
			}
			if powsKnown && len(pows) == len(scal) {
				sum := linConst(0)
				for _, p := range pows {
					sum = sum.add(p, 1)
				}
				want := L
				if kind == "(*Decimal).Quo" {
					want = L.scale(-1)
				}
				if !sum.equal(want) {
					return fmt.Sprintf("the powers of two applied add up to 2**(%s); the exponent to apply is %s", sum, want)
				}
			}
			if len(scal) > 1 {
				minExp, _ := constant.Int64Val(m.PkgConst("MinExp"))
				// (the boundary itself may go either way: both forms are right at e2 − fp = MinExp)
				if k, small := fs.ask(L.add(linConst(minExp+(1<<20)), -1), token.LSS); !(k && small) {
					return "the division is split in two although e2 − fp is not known to be near or below MinExp (the second exponent is then not known to be non-negative)"
				}
			}
			return ""
		})
	}
	// ---- Float32 / Float64: the accuracy of the two-step conversion Decimal -> big.Float -> float
	// is that of the second step, unless that step was exact: then it is the first step's
	for _, nm := range []string{"Float32", "Float64"} {
		fn := m.TryLookup("(*Decimal)." + nm)
		if fn == nil {
			continue
		}
		for _, a := range []int64{-1, 0, 1} {
			aa, nmm := a, nm
			it := stdInterp(m)
			it.Models["(*Decimal).Float"] = func(*cdai.Interp, *cdai.State, string, []cdai.Val) ([]cdai.Val, bool) {
				return []cdai.Val{cdai.Sym{Name: "zf"}}, true
			}
			it.Models["math/big.(*Float)."+nm] = func(*cdai.Interp, *cdai.State, string, []cdai.Val) ([]cdai.Val, bool) {
				return []cdai.Val{cdai.Tuple{cdai.Sym{Name: "f"}, cdai.Int(aa)}}, true
			}
			it.Models["math/big.(*Float).Acc"] = func(*cdai.Interp, *cdai.State, string, []cdai.Val) ([]cdai.Val, bool) {
				return []cdai.Val{cdai.Sym{Name: "zacc"}}, true
			}
			st := cdai.NewState()
			x := mkDec(m, st, decSpec{form: i64(e.finite), neg: bptr(false), prec: i64(20), mode: i64(e.nearEven), acc: i64(e.exact), exp: i64(3)})
			cell(m, s, R, fmt.Sprintf("%s big.Float->float accuracy %d", nm, a), fn, it, st, []cdai.Val{x}, cdai.Obj{}, func(o cdai.Outcome) string {
				if o.Kind != "return" || len(o.Vals) != 2 {
					return ""
				}
				// judged only where the propagation saw the second conversion step happen (behind a
				// func value it does not)
				if len(findEvents(o.St, "math/big.(*Float)."+nmm)) == 0 {
					return ""
				}
				if sy, ok := o.Vals[0].(cdai.Sym); ok && sy.Name != "f" {
					return "the value returned is not the one big.Float." + nmm + " produced"
				}
				got := o.Vals[1]
				k, isK := cdai.ConstInt(got)
				sy, isSym := got.(cdai.Sym)
				switch {
				case aa != 0 && isK && k != aa:
					return fmt.Sprintf("the second conversion step rounded (accuracy %d) but the accuracy returned is %d", aa, k)
				case aa != 0 && isSym && sy.Name == "zacc":
					return fmt.Sprintf("the second conversion step rounded (accuracy %d) but the accuracy returned is that of the first step", aa)
				case aa == 0 && isK:
					return fmt.Sprintf("the second conversion step was exact, so the accuracy is that of the Decimal -> big.Float step, not the constant %d", k)
				}
				return ""
			})
		}
	}
	// ---- SetFloat(*big.Float)
	for _, c := range fcs[1:] {
		for _, zp := range []int64{0, 9} {
			cc, zpp := c, zp
			it := stdInterp(m)
			b := func(v bool) ([]cdai.Val, bool) { return []cdai.Val{cdai.Bool(v)}, true }
			it.Models["math/big.(*Float).Signbit"] = func(*cdai.Interp, *cdai.State, string, []cdai.Val) ([]cdai.Val, bool) { return b(cc.neg) }
			it.Models["math/big.(*Float).IsInf"] = func(*cdai.Interp, *cdai.State, string, []cdai.Val) ([]cdai.Val, bool) { return b(cc.inf) }
			it.Models["math/big.(*Int).BitLen"] = func(*cdai.Interp, *cdai.State, string, []cdai.Val) ([]cdai.Val, bool) {
				if cc.zero {
					return []cdai.Val{cdai.Int(0)}, true
				}
				return []cdai.Val{cdai.Int(53)}, true
			}
			signModel := func(*cdai.Interp, *cdai.State, string, []cdai.Val) ([]cdai.Val, bool) {
				switch {
				case cc.zero:
					return []cdai.Val{cdai.Int(0)}, true
				case cc.neg:
					return []cdai.Val{cdai.Int(-1)}, true
				}
				return []cdai.Val{cdai.Int(1)}, true
			}
			it.Models["math/big.(*Int).Sign"] = signModel
			it.Models["math/big.(*Float).Sign"] = signModel
			st := cdai.NewState()
			z := mkDec(m, st, decSpec{prec: i64(zp), mode: i64(e.posInf), acc: i64(e.below)})
			cell(m, s, R, fmt.Sprintf("SetFloat(%s) zprec=%d", c.name, zp), m.Lookup("(*Decimal).SetFloat"), it, st, []cdai.Val{z, cdai.Sym{Name: "x"}}, z, func(o cdai.Outcome) string {
				if f := first(retIsObj(o, z), wantField(m, o, z, F.Mode, e.posInf, "mode")); f != "" {
					return f
				}
				if zpp != 0 {
					if f := wantField(m, o, z, F.Prec, zpp, "prec"); f != "" {
						return f
					}
				}
				switch {
				case cc.inf:
					return first(wantField(m, o, z, F.Form, e.inf, "form"), wantNeg(m, o, z, cc.neg), wantField(m, o, z, F.Acc, e.exact, "acc"))
				case cc.zero:
					if f, ok := fInt(m, o.St, z, F.Form); ok && f == e.inf {
						return "a zero argument must not become an infinity"
					}
					// ±0 maps to itself: the zero of the argument's sign, exactly (a conversion that
					// goes through the integer 0 has lost the sign of -0)
					return first(wantField(m, o, z, F.Form, e.zero, "form"), wantNeg(m, o, z, cc.neg), wantField(m, o, z, F.Acc, e.exact, "acc"))
				}
				if f, ok := fInt(m, o.St, z, F.Form); ok && f == e.inf && len(findEvents(o.St, "(*Decimal).round")) == 0 {
					return "a finite argument became an infinity without any arithmetic (dispatch on the wrong variable)"
				}
				return ""
			})
		}
	}
}
