package rules

// E1 — FX-RBW (no operation reads what its receiver held before), FX-ACC
// (accuracy is defined on every success exit) and FX-RAW (no read of an operand
// field after the same field of the receiver was written, unless the two are
// known to be distinct objects).

import (
	"fmt"
	"go/token"
	"go/types"
	"sort"
	"strings"

	"golang.org/x/tools/go/ssa"

	"decverif/internal/model"
	"decverif/internal/ob"
)

func init() {
	Register(&Rule{Name: "FX-RBW", Floor: 12, Run: runFxRBW,
		Doc: "a result-defining operation never reads the form, sign, accuracy, exponent or mantissa words its receiver held on entry (with no read there is no dependence on previous contents)"})
	Register(&Rule{Name: "FX-ACC", Floor: 8, Run: runFxAcc,
		Doc: "every operation documented to round into its receiver writes the accuracy on every success exit"})
	Register(&Rule{Name: "FX-RAW", Floor: 12, Run: runFxRAW,
		Doc: "under aliasing of receiver and operand, no value field of the operand is read after the same field of the receiver was written"})
}

type fbits uint32

func fbit(f int) fbits { return 1 << uint(f) }

func (e *rbwEngine) fnames(s fbits) string {
	var out []string
	for i, n := range e.m.FieldN {
		if s&fbit(i) != 0 {
			out = append(out, n)
		}
	}
	return "{" + strings.Join(out, ",") + "}"
}

type rbwSum struct {
	reads   fbits // fields whose entry value may be read
	mayW    fbits
	mustDef fbits // fields defined on every normal return
}

type rbwEngine struct {
	m       *model.Model
	sums    map[*ssa.Function]map[int]*rbwSum
	bufOnly map[string]bool
	all     fbits
	strict  fbits // fields with intersection join (exp, mant)
	mwMemo  map[mwKey]bool
}

func newRBW(m *model.Model) *rbwEngine {
	e := &rbwEngine{m: m, sums: map[*ssa.Function]map[int]*rbwSum{}, bufOnly: map[string]bool{}}
	for i := range m.FieldN {
		e.all |= fbit(i)
	}
	e.strict = fbit(m.F.Exp) | fbit(m.F.Mant)
	for _, fn := range m.Funcs {
		e.sums[fn] = map[int]*rbwSum{}
		for k, p := range fn.Params {
			if m.IsDecPtr(p.Type()) {
				e.sums[fn][k] = &rbwSum{mustDef: e.all} // optimistic start for recursion
			}
		}
	}
	for iter := 0; ; iter++ {
		if iter > 30 {
			model.Fatal("FX-RBW summaries did not converge")
		}
		changed := false
		for _, fn := range m.Funcs {
			for k := range e.sums[fn] {
				r, w, d, _ := e.analyseSplit(fn, k, false)
				ns := rbwSum{r, w, d}
				if ns != *e.sums[fn][k] {
					*e.sums[fn][k] = ns
					changed = true
				}
			}
		}
		if !changed {
			break
		}
	}
	return e
}

type rbwRead struct {
	pos   string
	field int
	via   string
}

// mixedPhi reports whether fn has a *Decimal φ that may be parameter k or a fresh object.
func mixedPhi(m *model.Model, fn *ssa.Function, k int) bool {
	for _, b := range fn.Blocks {
		for _, in := range b.Instrs {
			ph, ok := in.(*ssa.Phi)
			if !ok {
				break
			}
			if !m.IsDecPtr(ph.Type()) {
				continue
			}
			r := m.RefOf(ph)
			if r.MayBeParam(k) && !r.OnlyParam(k) {
				return true
			}
		}
	}
	return false
}

// phiEdgeDropped: assuming every mixed φ IS parameter k, the CFG edge pred->b cannot be taken
// when it feeds the φ with something that is not the parameter.
func phiEdgeDropped(m *model.Model, pred, b *ssa.BasicBlock, k int) bool {
	pi := -1
	for i, p := range b.Preds {
		if p == pred {
			pi = i
		}
	}
	if pi < 0 {
		return false
	}
	for _, in := range b.Instrs {
		ph, ok := in.(*ssa.Phi)
		if !ok {
			break
		}
		if !m.IsDecPtr(ph.Type()) {
			continue
		}
		r := m.RefOf(ph)
		if r.MayBeParam(k) && !r.OnlyParam(k) && !m.RefOf(ph.Edges[pi]).MayBeParam(k) {
			return true
		}
	}
	return false
}

// analyseSplit resolves a reference that may be the parameter or a fresh object (z0 := z;
// if ... { z0 = new(Decimal) }) by case split: once assuming it is the parameter (strong
// accesses; paths feeding the φ with the other object are dropped), once assuming it is not.
func (e *rbwEngine) analyseSplit(fn *ssa.Function, k int, report bool) (reads, mayW, mustDef fbits, where []rbwRead) {
	if !mixedPhi(e.m, fn, k) {
		return e.analyse(fn, k, report, 0)
	}
	r1, w1, d1, wh1 := e.analyse(fn, k, report, 1)
	r2, w2, d2, wh2 := e.analyse(fn, k, report, 2)
	return r1 | r2, w1 | w2, d1 & d2, append(wh1, wh2...)
}

// analyse: forward dataflow; state = fields whose entry value may (form/neg/acc/prec/mode)
// resp. must (exp/mant) still be in place. split: 0 none, 1 mixed refs are the parameter,
// 2 mixed refs are not the parameter.
func (e *rbwEngine) analyse(fn *ssa.Function, k int, report bool, split int) (reads, mayW, mustDef fbits, where []rbwRead) {
	m := e.m
	// cls classifies a reference: uses it at all / strong update
	cls := func(r model.Ref) (use, strong bool) {
		if !r.MayBeParam(k) {
			return false, false
		}
		if r.OnlyParam(k) {
			return true, true
		}
		if r.Params == 1<<uint(k) && !r.Global && !r.Unknown && split != 0 {
			return split == 1, split == 1
		}
		return true, false
	}
	n := len(fn.Blocks)
	live := m.Live(fn)
	in := make([]fbits, n)
	set := make([]bool, n)
	in[0] = e.all
	set[0] = true
	seen := map[string]bool{}
	var retState fbits
	haveRet := false
	join := func(a, b fbits) fbits {
		return ((a | b) &^ e.strict) | (a & b & e.strict)
	}
	step := func(b *ssa.BasicBlock, st fbits, rec bool) fbits {
		for _, ins := range b.Instrs {
			switch ins := ins.(type) {
			case *ssa.UnOp:
				if ins.Op != token.MUL {
					continue
				}
				fa, ok := m.DecField(ins.X)
				if !ok {
					continue
				}
				if use, _ := cls(m.RefOf(fa.X)); !use {
					continue
				}
				f := fbit(fa.Field)
				if st&f == 0 {
					continue
				}
				if fa.Field == m.F.Mant && !e.mantValueRead(ins, map[ssa.Value]bool{}) {
					continue
				}
				if carriedBack(m, ins, fa.Field, k) {
					continue
				}
				reads |= f
				if rec {
					key := m.InstrPos(ins) + m.FieldN[fa.Field]
					if !seen[key] {
						seen[key] = true
						where = append(where, rbwRead{m.InstrPos(ins), fa.Field, ""})
					}
				}
			case *ssa.Store:
				if fa, ok := m.DecField(ins.Addr); ok {
					if use, strong := cls(m.RefOf(fa.X)); use {
						mayW |= fbit(fa.Field)
						if strong || fbit(fa.Field)&e.strict != 0 {
							st &^= fbit(fa.Field)
						}
					}
				} else if m.IsDecPtr(ins.Addr.Type()) {
					if use, _ := cls(m.RefOf(ins.Addr)); use {
						mayW |= e.all
						st = 0
					}
				}
			case ssa.CallInstruction:
				cal, c := model.Callee(ins)
				if cal == nil || e.sums[cal] == nil {
					continue
				}
				for ai, a := range c.Args {
					if !m.IsDecPtr(a.Type()) {
						continue
					}
					use, strong := cls(m.RefOf(a))
					if !use {
						continue
					}
					cs := e.sums[cal][ai]
					if cs == nil {
						continue
					}
					if rd := cs.reads & st; rd != 0 {
						reads |= rd
						if rec {
							for f := range m.FieldN {
								if rd&fbit(f) != 0 {
									key := m.InstrPos(ins) + m.FieldN[f]
									if !seen[key] {
										seen[key] = true
										where = append(where, rbwRead{m.InstrPos(ins), f, m.FuncName(cal)})
									}
								}
							}
						}
					}
					mayW |= cs.mayW
					if strong {
						st &^= cs.mustDef
					}
					st &^= cs.mayW & e.strict
				}
			case *ssa.Return:
				if rec {
					// success exits only (a nil *Decimal result is an error exit)
					success := true
					if len(ins.Results) > 0 && m.IsDecPtr(ins.Results[0].Type()) {
						rr := m.RefOf(ins.Results[0])
						if rr.Params == 0 && !rr.Fresh && !rr.Unknown && !rr.Global {
							success = false
						}
					}
					// … and so is a return of an error that was found non-nil on the way
					errT := types.Universe.Lookup("error").Type()
					for _, rv := range ins.Results {
						if types.Identical(rv.Type(), errT) && errKnownNonNil(m, rv, ins.Block()) {
							success = false
						}
					}
					if success {
						if !haveRet {
							retState, haveRet = st, true
						} else {
							retState |= st
						}
					}
				}
			}
		}
		return st
	}
	edge := func(b *ssa.BasicBlock, si int, st fbits) fbits {
		ifi, ok := b.Instrs[len(b.Instrs)-1].(*ssa.If)
		if !ok {
			return st
		}
		bo, ok := ifi.Cond.(*ssa.BinOp)
		if !ok || (bo.Op != token.NEQ && bo.Op != token.EQL) || !m.IsDecPtr(bo.X.Type()) || !m.IsDecPtr(bo.Y.Type()) {
			return st
		}
		rx, ry := m.RefOf(bo.X), m.RefOf(bo.Y)
		other := func(r model.Ref) bool { return !r.Nil && !r.MayBeParam(k) && (r.Params != 0 || r.Fresh || r.Global) }
		if (rx.OnlyParam(k) && other(ry)) || (ry.OnlyParam(k) && other(rx)) {
			eq := 0
			if bo.Op == token.NEQ {
				eq = 1
			}
			if si == eq {
				return 0 // the receiver IS the operand: its content is operand content
			}
		}
		return st
	}
	work := []int{0}
	for len(work) > 0 {
		bi := work[len(work)-1]
		work = work[:len(work)-1]
		if !live[bi] {
			continue
		}
		b := fn.Blocks[bi]
		out := step(b, in[bi], false)
		for _, ed := range model.LiveSuccs(b) {
			if split == 1 && phiEdgeDropped(m, b, ed.To, k) {
				continue
			}
			o := edge(b, ed.Si, out)
			ti := ed.To.Index
			if !set[ti] {
				set[ti] = true
				in[ti] = o
				work = append(work, ti)
			} else if j := join(in[ti], o); j != in[ti] {
				in[ti] = j
				work = append(work, ti)
			}
		}
	}
	reads, mayW = 0, 0
	for bi, b := range fn.Blocks {
		if set[bi] && live[bi] {
			step(b, in[bi], true)
		}
	}
	if !haveRet {
		retState = 0
	}
	mustDef = e.all &^ retState
	_ = report
	return
}

// mantValueRead: is a loaded mantissa slice used for its contents or length (true), or only
// as a buffer to be overwritten (false)?
func (e *rbwEngine) mantValueRead(v ssa.Value, vs map[ssa.Value]bool) bool {
	if vs[v] {
		return false
	}
	vs[v] = true
	refs := v.Referrers()
	if refs == nil {
		return false
	}
	for _, u := range *refs {
		switch u := u.(type) {
		case ssa.CallInstruction:
			cal, c := model.Callee(u)
			if cal == nil {
				if n := model.BuiltinName(c); n == "cap" {
					continue
				}
				if n := model.BuiltinName(c); n == "len" {
					if lv, ok := u.(ssa.Value); ok && onlyCompared(lv) && sameTestLen(lv) {
						continue // the length compared with another mantissa's: part of an identity test
					}
				}
				return true
			}
			if e.m.InDecimalPkg(cal) && (cal.Name() == "same" || cal.Name() == "alias") {
				continue
			}
			for ai, a := range c.Args {
				if a == v && !e.isBufOnly(cal, ai, map[*ssa.Function]bool{}) {
					return true
				}
			}
		case *ssa.IndexAddr:
			// &v[0] compared with another address: the identity test
			if k, ok := model.ConstInt(u.Index); ok && k == 0 && onlyCompared(u) {
				continue
			}
			return true
		case *ssa.Slice:
			if u.X != v {
				return true
			}
			if e.mantValueRead(u, vs) {
				return true
			}
		case *ssa.ChangeType:
			if e.mantValueRead(u, vs) {
				return true
			}
		case *ssa.Store:
			if u.Val == v {
				continue
			}
			return true
		case *ssa.Phi:
			if e.mantValueRead(u, vs) {
				return true
			}
		case *ssa.Return, *ssa.DebugRef:
			continue
		default:
			return true
		}
	}
	return false
}

// isBufOnly: parameter k of fn is used only as storage (make, [:0], cap, same/alias,
// buffer parameters of callees, returned) before being overwritten.
func (e *rbwEngine) isBufOnly(fn *ssa.Function, k int, seen map[*ssa.Function]bool) bool {
	key := fmt.Sprintf("%s#%d", e.m.FuncName(fn), k)
	if v, ok := e.bufOnly[key]; ok {
		return v
	}
	if seen[fn] {
		return true
	}
	seen[fn] = true
	if len(fn.Blocks) == 0 {
		// assembly kernels: the destination is parameter 0 and is only written
		return e.m.IsVectorKernel(fn) && k == 0
	}
	if k >= len(fn.Params) {
		return false
	}
	res := e.bufUses(fn.Params[k], seen, map[ssa.Value]bool{})
	e.bufOnly[key] = res
	return res
}

func (e *rbwEngine) bufUses(v ssa.Value, seen map[*ssa.Function]bool, vs map[ssa.Value]bool) bool {
	if vs[v] {
		return true
	}
	vs[v] = true
	refs := v.Referrers()
	if refs == nil {
		return true
	}
	for _, u := range *refs {
		switch u := u.(type) {
		case ssa.CallInstruction:
			cal, c := model.Callee(u)
			if cal == nil {
				switch model.BuiltinName(c) {
				case "cap":
					continue
				case "copy":
					if c.Args[0] == v && c.Args[1] != v {
						continue // destination of copy
					}
				}
				return false
			}
			if e.m.InDecimalPkg(cal) && (cal.Name() == "same" || cal.Name() == "alias") {
				continue
			}
			for ai, a := range c.Args {
				if a == v && !e.isBufOnly(cal, ai, seen) {
					return false
				}
			}
		case *ssa.Slice:
			if u.X != v {
				return false
			}
			// a re-slice of the buffer: what is read from it was written since (INIT's business)
			continue
		case *ssa.ChangeType:
			if !e.bufUses(u, seen, vs) {
				return false
			}
		case *ssa.Phi:
			if !e.bufUses(u, seen, vs) {
				return false
			}
		case *ssa.Return, *ssa.DebugRef:
			continue
		default:
			return false
		}
	}
	return true
}

// resultDefining: operations whose receiver is a pure output.
func resultDefining(m *model.Model, fn *ssa.Function) bool {
	if !m.IsDecMethod(fn) || fn.Params[0].Name() != "z" {
		return false
	}
	switch fn.Name() {
	case "SetPrec", "SetMode":
		return false // in place by contract
	case "scan", "pow2", "setBits64":
		return true
	}
	return m.IsExported(fn)
}

func runFxRBW(m *model.Model, s *ob.Set) {
	const R = "FX-RBW"
	e := newRBW(m)
	val := fbit(m.F.Form) | fbit(m.F.Neg) | fbit(m.F.Acc) | fbit(m.F.Exp) | fbit(m.F.Mant)
	for _, fn := range m.Funcs {
		if !resultDefining(m, fn) {
			continue
		}
		name := m.FuncName(fn)
		sum := e.sums[fn][0]
		if sum.reads&val == 0 {
			s.Ok(R, name, m.Pos(fn.Pos()), "no entry value of the receiver is read")
			continue
		}
		_, _, _, where := e.analyseSplit(fn, 0, true)
		sort.Slice(where, func(i, j int) bool { return where[i].pos < where[j].pos })
		var p []string
		byField := map[int]bool{}
		for _, w := range where {
			if fbit(w.field)&val == 0 {
				continue
			}
			byField[w.field] = true
			d := fmt.Sprintf("%s: reads the receiver's previous %s", w.pos, m.FieldN[w.field])
			if w.via != "" {
				d += " (inside " + w.via + ")"
			}
			p = append(p, d)
		}
		if len(p) == 0 {
			s.Ok(R, name, m.Pos(fn.Pos()), "no entry value of the receiver is read")
			continue
		}
		s.Bad(R, name, m.Pos(fn.Pos()), "the result depends on what the receiver held before the call: "+e.fnames(sum.reads&val), p...)
	}
}

func runFxAcc(m *model.Model, s *ob.Set) {
	const R = "FX-ACC"
	e := newRBW(m)
	s.Note(R, "(*Decimal).SetMantExp", m.Pos(m.Lookup("(*Decimal).SetMantExp").Pos()), "not armed: for a zero or infinite mantissa SetMantExp keeps the accuracy Copy gave it (attribute-copy semantics shared with math/big); with z == mant nothing is written")
	for _, n := range []string{"Add", "Sub", "Mul", "Quo", "FMA", "Set", "SetPrec", "SetInt", "SetInt64", "SetUint64", "SetRat", "SetFloat", "SetFloat64", "SetInf", "SetMode", "Neg", "Abs", "Sqrt", "SetBitsExp", "setBits64", "scan", "Parse"} {
		fn := m.Lookup("(*Decimal)." + n)
		// strict: the accuracy must be written even when the receiver is an operand (z.Set(z) is Exact)
		ok := e.mustWrite(fn, 0, m.F.Acc)
		s.Check(ok, R, "(*Decimal)."+n, m.Pos(fn.Pos()), "acc written on every success exit", "some success exit leaves the accuracy of the previous operation in the receiver")
	}
}

// mustWrite: on every path to a success return, field f of parameter k is stored (directly or
// by a callee that must-writes it). Stricter than mustDef: no equal-edge shortcut.
func (e *rbwEngine) mustWrite(fn *ssa.Function, k, f int) bool {
	if v, ok := e.mwMemo[mwKey{fn, k, f}]; ok {
		return v
	}
	if e.mwMemo == nil {
		e.mwMemo = map[mwKey]bool{}
	}
	e.mwMemo[mwKey{fn, k, f}] = true // recursion guard (optimistic)
	m := e.m
	live := m.Live(fn)
	n := len(fn.Blocks)
	// state: true = definitely written
	in := make([]int8, n) // 0 unset, 1 not written (may), 2 written (must)
	in[0] = 1
	work := []int{0}
	ok := true
	step := func(b *ssa.BasicBlock, st int8, rec bool) int8 {
		for _, ins := range b.Instrs {
			switch ins := ins.(type) {
			case *ssa.Store:
				if fa, isf := m.DecField(ins.Addr); isf && fa.Field == f && m.RefOf(fa.X).OnlyParam(k) {
					st = 2
				} else if m.IsDecPtr(ins.Addr.Type()) && m.RefOf(ins.Addr).OnlyParam(k) {
					st = 2
				}
			case ssa.CallInstruction:
				cal, c := model.Callee(ins)
				if cal == nil && c != nil {
					if ts := model.DynTargets(c); ts != nil {
						all := true
						for _, t := range ts {
							hit := false
							for ai, a := range t.Args {
								if len(t.Fn.Blocks) > 0 && m.IsDecPtr(a.Type()) && m.RefOf(a).OnlyParam(k) && e.sums[t.Fn] != nil && e.sums[t.Fn][ai] != nil && e.mustWrite(t.Fn, ai, f) {
									hit = true
								}
							}
							all = all && hit
						}
						if all {
							st = 2
						}
					}
					continue
				}
				if cal == nil || len(cal.Blocks) == 0 {
					continue
				}
				for ai, a := range c.Args {
					if m.IsDecPtr(a.Type()) && m.RefOf(a).OnlyParam(k) && e.sums[cal] != nil && e.sums[cal][ai] != nil && e.mustWrite(cal, ai, f) {
						st = 2
					}
				}
			case *ssa.Return:
				if rec {
					success := true
					if len(ins.Results) > 0 && m.IsDecPtr(ins.Results[0].Type()) {
						rr := m.RefOf(ins.Results[0])
						if rr.Params == 0 && !rr.Fresh && !rr.Unknown && !rr.Global {
							success = false
						}
					}
					if success {
						for _, r := range ins.Results {
							if isErrorType(r.Type()) {
								if c, isc := r.(*ssa.Const); isc && c.IsNil() {
									continue
								}
								if errKnownNonNil(m, r, ins.Block()) {
									success = false
								}
							}
						}
					}
					if success && st != 2 {
						ok = false
					}
				}
			case *ssa.Panic:
			}
		}
		return st
	}
	for len(work) > 0 {
		bi := work[len(work)-1]
		work = work[:len(work)-1]
		if !live[bi] {
			continue
		}
		out := step(fn.Blocks[bi], in[bi], false)
		for _, ed := range model.LiveSuccs(fn.Blocks[bi]) {
			ti := ed.To.Index
			nv := out
			if in[ti] != 0 && in[ti] < nv {
				nv = in[ti]
			}
			if in[ti] == 0 || nv != in[ti] {
				in[ti] = nv
				work = append(work, ti)
			}
		}
	}
	for bi, b := range fn.Blocks {
		if in[bi] != 0 && live[bi] {
			step(b, in[bi], true)
		}
	}
	e.mwMemo[mwKey{fn, k, f}] = ok
	return ok
}

type mwKey struct {
	fn   *ssa.Function
	k, f int
}

// ---------------------------------------------------------------- FX-RAW

type rawSum struct {
	mayW  map[int]fbits // writes of parameter w that happen while distinctness from anyone is not established
	reads map[[2]int]fbits
	// writesUng[(w,r)]: fields of w written while w != r is not established
	writesUng map[[2]int]fbits
}

type rawEngine struct {
	m    *model.Model
	rbw  *rbwEngine
	sums map[*ssa.Function]*rawSum
}

type rawState struct {
	W        fbits
	distinct bool
	dmant    bool
}

func (a rawState) join(b rawState) rawState {
	return rawState{a.W | b.W, a.distinct && b.distinct, a.dmant && b.dmant}
}

func newRAW(m *model.Model) *rawEngine {
	e := &rawEngine{m: m, rbw: newRBW(m), sums: map[*ssa.Function]*rawSum{}}
	for _, fn := range m.Funcs {
		e.sums[fn] = &rawSum{mayW: map[int]fbits{}, reads: map[[2]int]fbits{}, writesUng: map[[2]int]fbits{}}
	}
	for iter := 0; ; iter++ {
		if iter > 30 {
			model.Fatal("FX-RAW summaries did not converge")
		}
		changed := false
		for _, fn := range m.Funcs {
			dp := e.decParams(fn)
			for _, w := range dp {
				for _, r := range dp {
					if w == r {
						continue
					}
					_, rd, wr := e.analyseSplit(fn, w, r, false)
					key := [2]int{w, r}
					if e.sums[fn].reads[key] != rd || e.sums[fn].writesUng[key] != wr {
						e.sums[fn].reads[key] = rd
						e.sums[fn].writesUng[key] = wr
						changed = true
					}
				}
			}
		}
		if !changed {
			break
		}
	}
	return e
}

func (e *rawEngine) decParams(fn *ssa.Function) []int {
	var dp []int
	for k, p := range fn.Params {
		if e.m.IsDecPtr(p.Type()) {
			dp = append(dp, k)
		}
	}
	return dp
}

func (e *rawEngine) analyseSplit(fn *ssa.Function, w, r int, report bool) (haz []string, readsUng, writesUng fbits) {
	if !mixedPhi(e.m, fn, w) {
		return e.analyse(fn, w, r, report, 0)
	}
	h1, r1, w1 := e.analyse(fn, w, r, report, 1)
	h2, r2, w2 := e.analyse(fn, w, r, report, 2)
	seen := map[string]bool{}
	for _, h := range append(h1, h2...) {
		if !seen[h] {
			seen[h] = true
			haz = append(haz, h)
		}
	}
	return haz, r1 | r2, w1 | w2
}

// analyse reports hazards "field f of w written, then f of r read" on paths where w != r has
// not been established. Returns the unguarded reads of r and the unguarded writes of w.
func (e *rawEngine) analyse(fn *ssa.Function, w, r int, report bool, split int) (haz []string, readsUng, writesUng fbits) {
	m := e.m
	val := fbit(m.F.Form) | fbit(m.F.Neg) | fbit(m.F.Acc) | fbit(m.F.Exp) | fbit(m.F.Mant)
	n := len(fn.Blocks)
	live := m.Live(fn)
	in := make([]rawState, n)
	set := make([]bool, n)
	set[0] = true
	hz := map[string]bool{}
	isW := func(ref model.Ref) bool {
		if !ref.MayBeParam(w) {
			return false
		}
		if !ref.OnlyParam(w) && ref.Params == 1<<uint(w) && !ref.Global && !ref.Unknown && split == 2 {
			return false // case: the mixed reference is the fresh object
		}
		return true
	}
	isR := func(ref model.Ref) bool { return ref.MayBeParam(r) && !ref.MayBeParam(w) }
	step := func(b *ssa.BasicBlock, st rawState, rec bool) rawState {
		for _, ins := range b.Instrs {
			switch ins := ins.(type) {
			case *ssa.UnOp:
				if ins.Op != token.MUL {
					continue
				}
				fa, ok := m.DecField(ins.X)
				if !ok || !isR(m.RefOf(fa.X)) {
					continue
				}
				f := fbit(fa.Field)
				if f&val == 0 || st.distinct || (fa.Field == m.F.Mant && st.dmant) {
					continue
				}
				if fa.Field == m.F.Mant && !e.rbw.mantValueRead(ins, map[ssa.Value]bool{}) {
					continue
				}
				readsUng |= f
				if st.W&f != 0 && rec {
					hz[fmt.Sprintf("%s: reads %s.%s after %s.%s was written; wrong when %s and %s are the same variable", m.InstrPos(ins), fn.Params[r].Name(), m.FieldN[fa.Field], fn.Params[w].Name(), m.FieldN[fa.Field], fn.Params[w].Name(), fn.Params[r].Name())] = true
				}
			case *ssa.Store:
				fa, ok := m.DecField(ins.Addr)
				if !ok || !isW(m.RefOf(fa.X)) {
					continue
				}
				f := fbit(fa.Field)
				if f&val == 0 {
					continue
				}
				// self-assignment z.f = r.f is harmless when z is r
				if lf, ok := m.LoadOfDecField(ins.Val); ok && lf.Field == fa.Field && m.RefOf(lf.X).OnlyParam(r) {
					continue
				}
				if !st.distinct && !(fa.Field == m.F.Mant && st.dmant) {
					writesUng |= f
					st.W |= f
				}
			case ssa.CallInstruction:
				cal, c := model.Callee(ins)
				if cal == nil || e.sums[cal] == nil {
					continue
				}
				cs := e.sums[cal]
				var wpos, rpos []int
				for ai, a := range c.Args {
					if !m.IsDecPtr(a.Type()) {
						continue
					}
					ref := m.RefOf(a)
					if isW(ref) {
						wpos = append(wpos, ai)
					} else if isR(ref) {
						rpos = append(rpos, ai)
					}
				}
				// reads by the callee first (they happen before its own writes become visible to later code)
				for _, rp := range rpos {
					var rd fbits
					if len(wpos) == 0 {
						if rs := e.rbw.sums[cal][rp]; rs != nil {
							rd = rs.reads // every read of an operand's entry value
						}
					} else {
						for _, wp := range wpos {
							rd |= cs.reads[[2]int{wp, rp}]
							// the callee itself is checked for its internal hazards; here only
							// "caller wrote, callee reads"
							if rs := e.rbw.sums[cal][rp]; rs != nil && st.W != 0 {
								rd |= rs.reads & st.W
							}
						}
					}
					rd &= val
					if st.distinct {
						rd = 0
					}
					if st.dmant {
						rd &^= fbit(m.F.Mant)
					}
					readsUng |= rd
					if h := rd & st.W; h != 0 && rec {
						hz[fmt.Sprintf("%s: %s reads %s.%s after %s.%s was written; wrong when %s and %s are the same variable", m.InstrPos(ins), m.FuncName(cal), fn.Params[r].Name(), e.rbw.fnames(h), fn.Params[w].Name(), e.rbw.fnames(h), fn.Params[w].Name(), fn.Params[r].Name())] = true
					}
				}
				for _, wp := range wpos {
					var wr fbits
					if len(rpos) > 0 {
						for _, rp := range rpos {
							wr |= cs.writesUng[[2]int{wp, rp}]
						}
					} else if rs := e.rbw.sums[cal][wp]; rs != nil {
						wr = rs.mayW
					}
					wr &= val
					if st.distinct {
						wr = 0
					}
					if st.dmant {
						wr &^= fbit(m.F.Mant)
					}
					writesUng |= wr
					st.W |= wr
				}
			}
		}
		return st
	}
	edge := func(b *ssa.BasicBlock, si int, st rawState) rawState {
		ifi, ok := b.Instrs[len(b.Instrs)-1].(*ssa.If)
		if !ok {
			return st
		}
		switch cnd := ifi.Cond.(type) {
		case *ssa.BinOp:
			// the identity test of two mantissas written out: any failing conjunct of
			// len(a) == len(b) && len(a) > 0 && &a[0] == &b[0] means "not the same slice"
			if isC, failEdge := mantIdentityConjunct(m, cnd, isW, r); isC && si == failEdge {
				st.dmant = true
			}
			if (cnd.Op == token.NEQ || cnd.Op == token.EQL) && m.IsDecPtr(cnd.X.Type()) && m.IsDecPtr(cnd.Y.Type()) {
				rx, ry := m.RefOf(cnd.X), m.RefOf(cnd.Y)
				if (isW(rx) && ry.OnlyParam(r)) || (isW(ry) && rx.OnlyParam(r)) {
					ne := 0
					if cnd.Op == token.EQL {
						ne = 1
					}
					if si == ne {
						st.distinct = true
					}
				}
			}
		case *ssa.Call:
			cal := model.Unthunk(cnd.Call.StaticCallee())
			if cal != nil && m.InDecimalPkg(cal) && (cal.Name() == "same" || cal.Name() == "alias") && si == 1 {
				cnt := 0
				for _, a := range cnd.Call.Args {
					if lf, ok := m.LoadOfDecField(model.Unwrap(a)); ok && lf.Field == m.F.Mant {
						ref := m.RefOf(lf.X)
						if isW(ref) || ref.OnlyParam(r) {
							cnt++
						}
					}
				}
				if cnt == 2 {
					st.dmant = true
				}
			}
		}
		return st
	}
	work := []int{0}
	for len(work) > 0 {
		bi := work[len(work)-1]
		work = work[:len(work)-1]
		if !live[bi] {
			continue
		}
		b := fn.Blocks[bi]
		out := step(b, in[bi], false)
		for _, ed := range model.LiveSuccs(b) {
			if split == 1 && phiEdgeDropped(m, b, ed.To, w) {
				continue
			}
			o := edge(b, ed.Si, out)
			ti := ed.To.Index
			if !set[ti] {
				set[ti] = true
				in[ti] = o
				work = append(work, ti)
			} else if j := in[ti].join(o); j != in[ti] {
				in[ti] = j
				work = append(work, ti)
			}
		}
	}
	readsUng, writesUng = 0, 0
	for bi, b := range fn.Blocks {
		if set[bi] && live[bi] {
			step(b, in[bi], report)
		}
	}
	for h := range hz {
		haz = append(haz, h)
	}
	sort.Strings(haz)
	return
}

func runFxRAW(m *model.Model, s *ob.Set) {
	const R = "FX-RAW"
	e := newRAW(m)
	for _, fn := range m.Funcs {
		if !m.InDecimalPkg(fn) {
			continue
		}
		dp := e.decParams(fn)
		if len(dp) < 2 {
			continue
		}
		res := resultParams(m, fn)
		if m.IsDecMethod(fn) && fn.Params[0].Name() == "z" {
			res[0] = "receiver"
		}
		for _, w := range dp {
			if _, ok := res[w]; !ok {
				continue
			}
			for _, r := range dp {
				if r == w {
					continue
				}
				c := fmt.Sprintf("%s/(%s,%s)", m.FuncName(fn), fn.Params[w].Name(), fn.Params[r].Name())
				haz, _, _ := e.analyseSplit(fn, w, r, true)
				if len(haz) == 0 {
					s.Ok(R, c, m.Pos(fn.Pos()), "no read of the operand after a write of the same field of the result")
				} else {
					s.Bad(R, c, m.Pos(fn.Pos()), haz[0], haz[1:]...)
				}
			}
		}
	}
}

// ---------------------------------------------------------------- FX-DEF

func init() {
	Register(&Rule{Name: "FX-DEF", Floor: 10, Run: runFxDef,
		Doc: "every value-defining operation leaves the receiver's form and sign defined by the call on every normal return (a field no path writes keeps what the previous operation left there — a stale sign on a zero, a stale form after an early exit); pointer equality with an operand counts as defined"})
}

func runFxDef(m *model.Model, s *ob.Set) {
	const R = "FX-DEF"
	e := newRBW(m)
	for _, n := range []string{"Add", "Sub", "Mul", "Quo", "FMA", "Set", "Copy", "SetInt", "SetInt64", "SetUint64", "SetRat", "SetFloat", "SetFloat64", "SetInf", "Neg", "Abs", "Sqrt", "SetBitsExp", "SetMantExp", "setBits64"} {
		fn := m.TryLookup("(*Decimal)." + n)
		if fn == nil {
			continue
		}
		sum := e.sums[fn][0]
		if sum == nil {
			continue
		}
		var missing []string
		for _, f := range []int{m.F.Form, m.F.Neg} {
			if sum.mustDef&(1<<uint(f)) == 0 {
				missing = append(missing, m.FieldN[f])
			}
		}
		c := "(*Decimal)." + n
		if len(missing) == 0 {
			s.Ok(R, c, m.Pos(fn.Pos()), "form and sign are defined on every normal return")
		} else {
			s.Bad(R, c, m.Pos(fn.Pos()), fmt.Sprintf("some normal return leaves {%s} of the receiver as the previous operation left it", strings.Join(missing, ",")))
		}
	}
}

// onlyCompared: every use of v is a comparison (the identity test of two slices written out:
// len(a) == len(b) && len(a) > 0 && &a[0] == &b[0], which is what same() is).
func onlyCompared(v ssa.Value) bool {
	refs := v.Referrers()
	if refs == nil {
		return true
	}
	for _, u := range *refs {
		switch x := u.(type) {
		case *ssa.DebugRef:
		case *ssa.BinOp:
			switch x.Op {
			case token.EQL, token.NEQ, token.LSS, token.LEQ, token.GTR, token.GEQ:
			default:
				return false
			}
		default:
			return false
		}
	}
	return true
}

// sameTestLen: the length is compared with the length of another slice, or with 0 in front of an
// address comparison — not used as a quantity.
func sameTestLen(lv ssa.Value) bool {
	for _, u := range *lv.Referrers() {
		bo, ok := u.(*ssa.BinOp)
		if !ok {
			continue
		}
		other := bo.Y
		if other == lv {
			other = bo.X
		}
		if k, isK := model.ConstInt(other); isK {
			if k != 0 {
				return false
			}
			continue
		}
		if c, ok := stripConv(other).(*ssa.Call); !ok || model.BuiltinName(&c.Call) != "len" {
			return false
		}
	}
	return true
}

// mantIdentityConjunct: one conjunct of the written-out same() of the mantissas of the written
// object and of operand r —  len(a) == len(b),  len(a) > 0,  &a[0] == &b[0]  — and the edge on
// which it fails (there the two are not the same slice, or there is no word at all).
func mantIdentityConjunct(m *model.Model, cnd *ssa.BinOp, isW func(model.Ref) bool, r int) (bool, int) {
	isMant := func(v ssa.Value) bool {
		if lf, ok := m.LoadOfDecField(model.Unwrap(v)); ok && lf.Field == m.F.Mant {
			ref := m.RefOf(lf.X)
			return isW(ref) || ref.OnlyParam(r)
		}
		return false
	}
	lenOfMant := func(v ssa.Value) bool {
		c, ok := stripConv(v).(*ssa.Call)
		return ok && model.BuiltinName(&c.Call) == "len" && isMant(c.Call.Args[0])
	}
	failOn := func(holdsOnTrue bool) int {
		if holdsOnTrue {
			return 1
		}
		return 0
	}
	switch cnd.Op {
	case token.EQL, token.NEQ:
		if lenOfMant(cnd.X) && lenOfMant(cnd.Y) {
			return true, failOn(cnd.Op == token.EQL)
		}
		ia, ok1 := cnd.X.(*ssa.IndexAddr)
		ib, ok2 := cnd.Y.(*ssa.IndexAddr)
		if ok1 && ok2 {
			for _, x := range []*ssa.IndexAddr{ia, ib} {
				if k, ok := model.ConstInt(x.Index); !ok || k != 0 || !isMant(x.X) {
					return false, 0
				}
			}
			return true, failOn(cnd.Op == token.EQL)
		}
		if k, ok := model.ConstInt(cnd.Y); ok && k == 0 && lenOfMant(cnd.X) {
			return true, failOn(cnd.Op == token.NEQ)
		}
	case token.GTR:
		if k, ok := model.ConstInt(cnd.Y); ok && k == 0 && lenOfMant(cnd.X) {
			return true, 1
		}
	case token.LEQ:
		if k, ok := model.ConstInt(cnd.Y); ok && k == 0 && lenOfMant(cnd.X) {
			return true, 0
		}
	}
	return false, 0
}

// carriedBack: the loaded field of parameter k is only put into the same field of a scratch
// Decimal of this function that is copied back whole into that parameter and whose field is
// never looked at in between (d := Decimal{exp: z.exp, ...}; ...; *z = d): the field keeps its
// value, nothing is computed from it.
func carriedBack(m *model.Model, ld *ssa.UnOp, field, k int) bool {
	if ld.Referrers() == nil || len(*ld.Referrers()) == 0 {
		return false
	}
	for _, u := range *ld.Referrers() {
		if _, ok := u.(*ssa.DebugRef); ok {
			continue
		}
		st, ok := u.(*ssa.Store)
		if !ok || st.Val != ssa.Value(ld) {
			return false
		}
		fa, ok := st.Addr.(*ssa.FieldAddr)
		if !ok || fa.Field != field {
			return false
		}
		al, ok := fa.X.(*ssa.Alloc)
		if !ok || !localOnlyFlowsTo(m, al, k, 3) || fieldLoaded(al, field, 3) {
			return false
		}
	}
	return true
}

// fieldLoaded: field f of the local al, or of a local al is copied into, is loaded on its own.
func fieldLoaded(al *ssa.Alloc, f int, depth int) bool {
	if depth == 0 || al.Referrers() == nil {
		return true
	}
	for _, r := range *al.Referrers() {
		switch x := r.(type) {
		case *ssa.FieldAddr:
			if x.Field != f || x.Referrers() == nil {
				continue
			}
			for _, u := range *x.Referrers() {
				if l, ok := u.(*ssa.UnOp); ok && l.Op == token.MUL {
					return true
				}
			}
		case *ssa.UnOp:
			if x.Op == token.MUL && x.Referrers() != nil {
				for _, u := range *x.Referrers() {
					if st, ok := u.(*ssa.Store); ok {
						if al2, ok := st.Addr.(*ssa.Alloc); ok && al2 != al && fieldLoaded(al2, f, depth-1) {
							return true
						}
					}
				}
			}
		}
	}
	return false
}
