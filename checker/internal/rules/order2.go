package rules

// E3 — ORDER (part 2): NORM (typestate of a mantissa: computed -> normalised ->
// rounded), EXP (no exponent leaves int32 or wraps in int64 before the range
// check), OVERLAP, NORMARG, INIT.

import (
	"fmt"
	"go/constant"
	"go/token"
	"go/types"
	"math"
	"sort"
	"strings"

	"golang.org/x/tools/go/ssa"

	"decverif/internal/model"
	"decverif/internal/ob"
)

func init() {
	Register(&Rule{Name: "NORM", Floor: 4, Run: runNorm,
		Doc: "after a freshly computed mantissa is stored into a Decimal, every success exit on which the value may be finite has passed dnorm on that mantissa and then a call that rounds the Decimal"})
	Register(&Rule{Name: "EXP", Floor: 6, Run: runExp,
		Doc: "a wide integer is converted to the int32 exponent only inside the [MinExp, MaxExp] edges of a range test; exp±1 is guarded by a comparison with the limit; the int64 exponent handed to setExpAndRound is a sum of terms that are small by construction, caller-supplied terms being clamped first"})
	Register(&Rule{Name: "OVERLAP", Floor: 5, Run: runOverlap,
		Doc: "where a kernel's destination and source are slices of the same buffer they start at the same offset (elementwise kernels) or shift in the safe direction; dec methods called with receiver and operand sharing a buffer are the in-place-safe ones"})
	Register(&Rule{Name: "NORMARG", Floor: 2, Run: runNormArg,
		Doc: "both operands of dec.cmp are normalised values (cmp decides on the lengths first)"})
	Register(&Rule{Name: "INIT", Floor: 4, Run: runInit,
		Doc: "a buffer handed to an accumulating routine (addMul10VVW, decAddAt, in-place add) has been cleared or completely produced on every path before"})
}

func isSuccessReturn(m *model.Model, ret *ssa.Return) bool {
	errT := types.Universe.Lookup("error").Type()
	for _, r := range ret.Results {
		if types.Identical(r.Type(), errT) {
			if c, ok := r.(*ssa.Const); ok && c.IsNil() {
				continue
			}
			// a possibly non-nil error: if the *Decimal result is nil it is an error exit
			for _, r2 := range ret.Results {
				if m.IsDecPtr(r2.Type()) {
					if c, ok := r2.(*ssa.Const); ok && c.IsNil() {
						return false
					}
				}
			}
			if _, ok := r.(*ssa.Call); ok {
				return false // return fmt.Errorf(...) / errors.New(...)
			}
			// the very error value returned was found non-nil on the way (if err != nil { return })
			if errKnownNonNil(m, r, ret.Block()) {
				return false
			}
		}
	}
	return true
}

// errKnownNonNil: the error value v returned from block b is a freshly made error (the result of
// a call, a concrete value put into the interface), or b is dominated by the edge of a test of v
// (or of another load of the variable v was loaded from) against nil on which it is not nil.
func errKnownNonNil(m *model.Model, v ssa.Value, b *ssa.BasicBlock) bool {
	switch v.(type) {
	case *ssa.Call, *ssa.MakeInterface:
		return true
	}
	fn := b.Parent()
	same := func(a ssa.Value) bool {
		if a == v {
			return true
		}
		la, ok1 := a.(*ssa.UnOp)
		lv, ok2 := v.(*ssa.UnOp)
		return ok1 && ok2 && la.Op == token.MUL && lv.Op == token.MUL && la.X == lv.X
	}
	for _, gb := range fn.Blocks {
		if len(gb.Instrs) == 0 {
			continue
		}
		ifi, ok := gb.Instrs[len(gb.Instrs)-1].(*ssa.If)
		if !ok {
			continue
		}
		bo, ok := ifi.Cond.(*ssa.BinOp)
		if !ok || (bo.Op != token.NEQ && bo.Op != token.EQL) {
			continue
		}
		isNil := func(x ssa.Value) bool { c, ok := x.(*ssa.Const); return ok && c.IsNil() }
		if !((same(bo.X) && isNil(bo.Y)) || (same(bo.Y) && isNil(bo.X))) {
			continue
		}
		nonNil := 0
		if bo.Op == token.EQL {
			nonNil = 1
		}
		if gb.Succs[nonNil] == b && len(m.LivePreds(b)) == 1 || m.EdgeDominates(gb, nonNil, b) {
			return true
		}
	}
	return false
}

// ---------------------------------------------------------------- NORM

// runNormThreshold: "the mantissa is normalised" is "its top word is at least base/10". A
// comparison of a top word m[len(m)-1] with a constant next to base/10 must say exactly that (or
// its negation): >= base/10, > base/10-1, < base/10, <= base/10-1. `>= base/10 - 1` lets the
// word 0999…9 pass as normalised.
func runNormThreshold(m *model.Model, s *ob.Set) {
	const R = "NORM"
	tenth := constant.BinaryOp(m.PkgConst("_DB"), token.QUO_ASSIGN, constant.MakeInt64(10))
	n, bad := 0, ""
	pos := ""
	for _, fn := range m.Funcs {
		if !m.InDecimalPkg(fn) || len(fn.Blocks) == 0 || fn.Synthetic != "" {
			continue
		}
		live := m.Live(fn)
		for _, b := range fn.Blocks {
			if !live[b.Index] {
				continue
			}
			for _, in := range b.Instrs {
				bo, ok := in.(*ssa.BinOp)
				if !ok {
					continue
				}
				op := bo.Op
				x, y := bo.X, bo.Y
				if _, isC := x.(*ssa.Const); isC {
					mo, okm := mirrorOpTok[op]
					if !okm {
						continue
					}
					x, y, op = y, x, mo
				}
				kc, ok := y.(*ssa.Const)
				if !ok || kc.Value == nil || kc.Value.Kind() != constant.Int {
					continue
				}
				d := constant.BinaryOp(kc.Value, token.SUB, tenth)
				dv, exact := constant.Int64Val(d)
				if !exact || dv < -1 || dv > 1 {
					continue
				}
				// the top word of a Word slice
				ld, ok := stripConv(x).(*ssa.UnOp)
				if !ok || ld.Op != token.MUL {
					continue
				}
				ia, ok := ld.X.(*ssa.IndexAddr)
				if !ok || !m.IsWordSlice(ia.X.Type()) {
					continue
				}
				sub, ok := ia.Index.(*ssa.BinOp)
				if !ok || sub.Op != token.SUB {
					continue
				}
				if one, ok := model.ConstInt(sub.Y); !ok || one != 1 {
					continue
				}
				if lc, ok := stripConv(sub.X).(*ssa.Call); !ok || model.BuiltinName(&lc.Call) != "len" {
					continue
				}
				n++
				if pos == "" {
					pos = m.InstrPos(bo)
				}
				good := false
				switch {
				case (op == token.GEQ || op == token.LSS) && dv == 0:
					good = true
				case (op == token.GTR || op == token.LEQ) && dv == -1:
					good = true
				case op == token.EQL || op == token.NEQ:
					good = true
				}
				if !good {
					bad = fmt.Sprintf("%s (in %s): the top word is compared %s %s; a normalised mantissa has a top word >= base/10 = %s, and this test puts the boundary one word off", m.InstrPos(bo), m.FuncName(fn), op, kc.Value.ExactString(), tenth.ExactString())
				}
			}
		}
	}
	if n > 0 {
		s.Check(bad == "", R, "top-word-threshold", pos, fmt.Sprintf("%d comparison(s) of a top word with the normalisation threshold, all at base/10", n), bad)
	}
}

func runNorm(m *model.Model, s *ob.Set) {
	const R = "NORM"
	runNormThreshold(m, s)
	reach := reachesRound(m)
	dnorm := m.Lookup("dnorm")
	finite, _ := constant.Int64Val(m.PkgConst("finite"))
	tabled := map[string]string{
		"newDecimal":           "pre-allocates a buffer on a zero-valued Decimal (form stays zero)",
		"(*Decimal).GobDecode": "the decoded mantissa is validated instead (rule GOB G2: non-empty, normalised, words < base, digits <= precision)",
	}
	const (
		clean = 1
		pend1 = 2 // normalised, not yet rounded
		pend0 = 3 // stored, not yet normalised
	)
	for _, fn := range m.Funcs {
		if !m.InDecimalPkg(fn) {
			continue
		}
		live := m.Live(fn)
		for k, p := range fn.Params {
			if !m.IsDecPtr(p.Type()) {
				continue
			}
			// computed stores to k.mant
			var stores []*ssa.Store
			for _, b := range fn.Blocks {
				if !live[b.Index] {
					continue
				}
				for _, in := range b.Instrs {
					st, ok := in.(*ssa.Store)
					if !ok {
						continue
					}
					fa, ok := m.DecField(st.Addr)
					if !ok || fa.Field != m.F.Mant || !m.RefOf(fa.X).MayBeParam(k) {
						continue
					}
					if normExemptValue(m, st.Val, k) {
						continue
					}
					stores = append(stores, st)
				}
			}
			if len(stores) == 0 {
				continue
			}
			c := fmt.Sprintf("%s/%s.mant", m.FuncName(fn), p.Name())
			if why, ok := tabled[m.FuncName(fn)]; ok {
				s.Note(R, c, m.Pos(fn.Pos()), "tabled: "+why)
				continue
			}
			isComputed := map[ssa.Instruction]bool{}
			for _, st := range stores {
				isComputed[st] = true
			}
			isStoredMant := func(v ssa.Value) bool {
				v = stripConvAny(v)
				for _, st := range stores {
					sv := stripConvAny(st.Val)
					if sv == v {
						return true
					}
					// joined from several ways that all carry this very slice
					if ph, ok := sv.(*ssa.Phi); ok {
						all := len(ph.Edges) > 0
						for _, e := range ph.Edges {
							if stripConvAny(e) != v {
								all = false
							}
						}
						if all {
							return true
						}
					}
				}
				return false
			}
			n := len(fn.Blocks)
			in := make([]int, n)
			in[0] = clean
			// pre: the slice that is stored into the mantissa later on was normalised beforehand on
			// every way here (dnorm applied to it, or found empty: nothing to shift). 1 yes, 2 no.
			pre := make([]int, n)
			pre[0] = 2
			curPre := 2
			work := []int{0}
			var bad []string
			step := func(b *ssa.BasicBlock, st int, rec bool) int {
				for _, ins := range b.Instrs {
					switch x := ins.(type) {
					case *ssa.Store:
						if isComputed[x] {
							st = pend0
							if curPre == 1 {
								st = pend1
							}
							continue
						}
						if fa, ok := m.DecField(x.Addr); ok && fa.Field == m.F.Form && m.RefOf(fa.X).MayBeParam(k) {
							if c, ok := model.ConstInt(x.Val); ok && c != finite {
								st = clean // the value is a zero or an infinity: mantissa irrelevant
							}
						}
					case ssa.CallInstruction:
						cal, c := model.Callee(x)
						if cal == nil {
							// a call through a local function value (scale := z.Mul; ... scale(z, y)):
							// rounded if every function it may stand for rounds this Decimal
							if ts := model.DynTargets(c); ts != nil && st == pend1 {
								all := true
								for _, t := range ts {
									hit := false
									for ai, a := range t.Args {
										if reach[t.Fn] != nil && m.IsDecPtr(a.Type()) && reach[t.Fn][ai] && m.RefOf(a).MayBeParam(k) {
											hit = true
										}
									}
									all = all && hit
								}
								if all {
									st = clean
								}
							}
							continue
						}
						if cal == dnorm && st != pend0 && len(stores) == 1 && isStoredMant(c.Args[0]) {
							curPre = 1
							continue
						}
						if cal == dnorm && st == pend0 {
							// dnorm(z.mant), or dnorm(v) with v the very slice that was stored into
							// z.mant (m := …norm(); z.mant = m; … dnorm(m): one slice, shifted in place)
							if m.RootsOf(c.Args[0])[fmt.Sprintf("P%d.mant", k)] || isStoredMant(c.Args[0]) {
								st = pend1
							}
							continue
						}
						// dnorm written out: shl10VU(m, m, nlz10(top word of m))
						if cal.Name() == "shl10VU" && st == pend0 && len(c.Args) == 3 && m.RootsOf(c.Args[0])[fmt.Sprintf("P%d.mant", k)] && isNlzOfMant(m, c.Args[2], k) {
							st = pend1
							continue
						}
						if reach[cal] != nil {
							for ai, a := range c.Args {
								if m.IsDecPtr(a.Type()) && reach[cal][ai] && m.RefOf(a).MayBeParam(k) && st == pend1 {
									st = clean
								}
							}
						}
					case *ssa.Return:
						if rec && st != clean && isSuccessReturn(m, x) {
							what := "normalised but never rounded"
							if st == pend0 {
								what = "never normalised (dnorm) and rounded"
							}
							bad = append(bad, fmt.Sprintf("%s: a success exit is reached with a computed mantissa that was %s", m.InstrPos(x), what))
						}
					}
				}
				return st
			}
			for len(work) > 0 {
				bi := work[len(work)-1]
				work = work[:len(work)-1]
				if !live[bi] {
					continue
				}
				curPre = pre[bi]
				out := step(fn.Blocks[bi], in[bi], false)
				outPre := curPre
				for _, ed := range model.LiveSuccs(fn.Blocks[bi]) {
					o := out
					op := outPre
					if len(stores) == 1 && emptyOnEdge(fn.Blocks[bi], ed.Si, isStoredMant) {
						op = 1
					}
					if op > pre[ed.To.Index] {
						pre[ed.To.Index] = op
						work = append(work, ed.To.Index)
					}
					// `if s > 0 { shift by s }` with s = nlz10(top word): on the edge where s == 0 the
					// mantissa is normalised as it stands
					if o == pend0 {
						if ifi, ok := fn.Blocks[bi].Instrs[len(fn.Blocks[bi].Instrs)-1].(*ssa.If); ok {
							if bo, ok := ifi.Cond.(*ssa.BinOp); ok && isNlzOfMant(m, bo.X, k) {
								if z, ok := model.ConstInt(bo.Y); ok && z == 0 {
									zeroEdge := -1
									switch bo.Op {
									case token.GTR, token.NEQ:
										zeroEdge = 1
									case token.EQL, token.LEQ:
										zeroEdge = 0
									}
									if ed.Si == zeroEdge {
										o = pend1
									}
								}
							}
						}
					}
					if o > in[ed.To.Index] {
						in[ed.To.Index] = o
						work = append(work, ed.To.Index)
					}
				}
			}
			for bi, b := range fn.Blocks {
				if in[bi] != 0 && live[bi] {
					curPre = pre[bi]
					step(b, in[bi], true)
				}
			}
			// error exits: a raw mantissa may be left behind only under a form that is known to
			// be non-finite (must-analysis: on every path the last write of the form is a
			// non-finite constant)
			{
				nf := make([]int, n) // 0 unreached, 1 definitely non-finite, 2 unknown
				nf[0] = 2
				formStep := func(ins ssa.Instruction, v int) int {
					switch x := ins.(type) {
					case *ssa.Store:
						if fa, ok := m.DecField(x.Addr); ok && fa.Field == m.F.Form && m.RefOf(fa.X).MayBeParam(k) {
							if c, ok := model.ConstInt(x.Val); ok && c != finite {
								return 1
							}
							return 2
						}
					case ssa.CallInstruction:
						cal, c := model.Callee(x)
						if cal == nil {
							return v
						}
						for ai, a := range c.Args {
							if m.IsDecPtr(a.Type()) && m.RefOf(a).MayBeParam(k) {
								if ss := m.StoreSets(cal, ai); ss != nil && ss[m.F.Form] != nil {
									return 2
								}
							}
						}
					}
					return v
				}
				wl := []int{0}
				for len(wl) > 0 {
					bi := wl[len(wl)-1]
					wl = wl[:len(wl)-1]
					if !live[bi] {
						continue
					}
					out := nf[bi]
					for _, ins := range fn.Blocks[bi].Instrs {
						out = formStep(ins, out)
					}
					for _, ed := range model.LiveSuccs(fn.Blocks[bi]) {
						if out > nf[ed.To.Index] {
							nf[ed.To.Index] = out
							wl = append(wl, ed.To.Index)
						}
					}
				}
				for bi, b := range fn.Blocks {
					if nf[bi] == 0 || in[bi] == 0 || !live[bi] {
						continue
					}
					ret, ok := b.Instrs[len(b.Instrs)-1].(*ssa.Return)
					if !ok || isSuccessReturn(m, ret) {
						continue
					}
					st, v := in[bi], nf[bi]
					for _, ins := range b.Instrs {
						v = formStep(ins, v)
					}
					curPre = pre[bi]
					st = step(b, st, false)
					if st != clean && v != 1 {
						bad = append(bad, fmt.Sprintf("%s: an error exit leaves a raw (not normalised, not rounded) mantissa in the receiver while its form may still be finite: a failed call must leave a zero or an infinity, not an invalid finite number", m.InstrPos(ret)))
					}
				}
			}
			if len(bad) == 0 {
				s.Ok(R, c, m.InstrPos(stores[0]), fmt.Sprintf("%d computed mantissa store(s); every success exit is normalised and rounded (or non-finite)", len(stores)))
			} else {
				sort.Strings(bad)
				s.Bad(R, c, m.InstrPos(stores[0]), bad[0], bad[1:]...)
			}
		}
	}
}

// normExemptValue: the stored mantissa is a copy of another Decimal's (already canonical)
// mantissa or a re-slice of the object's own mantissa.
func normExemptValue(m *model.Model, v ssa.Value, k int) bool {
	switch x := v.(type) {
	case *ssa.Slice:
		return m.RootsOf(x.X).SubsetOf(func(l string) bool { return l == fmt.Sprintf("P%d.mant", k) })
	case *ssa.Call:
		cal := model.Unthunk(x.Call.StaticCallee())
		if cal != nil && m.FuncName(cal) == "dec.set" {
			// z.mant.set(x.mant): the source is some Decimal's mantissa
			for l := range m.RootsOf(x.Call.Args[1]) {
				if !strings.HasSuffix(l, ".mant") {
					return false
				}
			}
			return true
		}
	case *ssa.Phi:
		for _, e := range x.Edges {
			if !normExemptValue(m, e, k) {
				return false
			}
		}
		return true
	}
	return false
}

// ---------------------------------------------------------------- EXP

func isWideInt(t types.Type) bool {
	b, ok := t.Underlying().(*types.Basic)
	if !ok || b.Info()&types.IsInteger == 0 {
		return false
	}
	switch b.Kind() {
	case types.Int8, types.Int16, types.Int32, types.Uint8, types.Uint16:
		return false
	}
	return true
}

type expEngine struct {
	bind   map[*ssa.Parameter]ssa.Value // helper parameter -> argument at the call being looked through
	m      *model.Model
	clamps map[*ssa.Function]bool
}

// isClamp: every return of fn is a constant or its (only) parameter on an edge where the
// parameter was compared with constants on both sides.
func (e *expEngine) isClamp(fn *ssa.Function) bool {
	if v, ok := e.clamps[fn]; ok {
		return v
	}
	e.clamps[fn] = false
	if len(fn.Blocks) == 0 || len(fn.Params) != 1 || fn.Signature.Results().Len() != 1 {
		return false
	}
	p := fn.Params[0]
	for _, b := range fn.Blocks {
		ret, ok := b.Instrs[len(b.Instrs)-1].(*ssa.Return)
		if !ok {
			continue
		}
		if _, isc := ret.Results[0].(*ssa.Const); isc {
			continue
		}
		if ret.Results[0] != ssa.Value(p) {
			return false
		}
		lo, hi := false, false
		for _, gb := range fn.Blocks {
			ifi, ok := gb.Instrs[len(gb.Instrs)-1].(*ssa.If)
			if !ok {
				continue
			}
			bo, ok := ifi.Cond.(*ssa.BinOp)
			if !ok {
				continue
			}
			op := bo.Op
			switch {
			case bo.X == ssa.Value(p):
				if _, isc := bo.Y.(*ssa.Const); !isc {
					continue
				}
			case bo.Y == ssa.Value(p):
				// K <= p is p >= K
				if _, isc := bo.X.(*ssa.Const); !isc {
					continue
				}
				mo, okm := mirrorOpTok[op]
				if !okm {
					continue
				}
				op = mo
			default:
				continue
			}
			switch op {
			case token.GTR, token.GEQ:
				// p > K fails: an upper bound; p >= K holds: a lower bound
				if e.m.EdgeDominates(gb, 1, b) {
					hi = true
				}
				if e.m.EdgeDominates(gb, 0, b) {
					lo = true
				}
			case token.LSS, token.LEQ:
				if e.m.EdgeDominates(gb, 1, b) {
					lo = true
				}
				if e.m.EdgeDominates(gb, 0, b) {
					hi = true
				}
			}
		}
		if !lo || !hi {
			return false
		}
	}
	e.clamps[fn] = true
	return true
}

// narrowExpArith: v (of a type narrower than 64 bits) is the result of +, -, * or << with a
// load of a Decimal's exp field among the operands (the other operand not the neutral constant).
func (e *expEngine) narrowExpArith(v ssa.Value, depth int) bool {
	if depth == 0 {
		return false
	}
	switch x := v.(type) {
	case *ssa.Convert:
		if isWideInt(x.X.Type()) {
			return false
		}
		return e.narrowExpArith(x.X, depth-1)
	case *ssa.ChangeType:
		return e.narrowExpArith(x.X, depth-1)
	case *ssa.BinOp:
		switch x.Op {
		case token.ADD, token.SUB, token.MUL, token.SHL:
		default:
			return false
		}
		isExp := func(o ssa.Value) bool {
			for i := 0; i < 3; i++ {
				switch c := o.(type) {
				case *ssa.Convert:
					if isWideInt(c.X.Type()) {
						return false
					}
					o = c.X
					continue
				case *ssa.ChangeType:
					o = c.X
					continue
				}
				break
			}
			u, ok := o.(*ssa.UnOp)
			if !ok || u.Op != token.MUL {
				return false
			}
			fa, ok := e.m.DecField(u.X)
			return ok && fa.Field == e.m.F.Exp
		}
		neutral := func(o ssa.Value) bool {
			k, ok := model.ConstInt(o)
			return ok && ((k == 0 && x.Op != token.MUL) || (k == 1 && x.Op == token.MUL))
		}
		if (isExp(x.X) && !neutral(x.Y)) || (isExp(x.Y) && !neutral(x.X)) {
			return true
		}
		return e.narrowExpArith(x.X, depth-1) || e.narrowExpArith(x.Y, depth-1)
	}
	return false
}

// smallTerm: the value is bounded by construction (far from the int64 limits).
func (e *expEngine) smallTerm(v ssa.Value, depth int, seen map[ssa.Value]bool) (bool, string) {
	m := e.m
	if depth == 0 {
		return false, "expression too deep"
	}
	if seen[v] {
		return true, ""
	}
	switch x := v.(type) {
	case *ssa.Const:
		return true, ""
	case *ssa.Convert:
		if !isWideInt(x.X.Type()) {
			// widened int32/uint32 field or smaller -- unless the narrow operand is itself arithmetic
			// on an exponent field: that is carried out in 32 bits and wraps for exponents near the
			// limits before the widening can help
			if e.narrowExpArith(x.X, 4) {
				return false, "arithmetic on an exponent field is carried out in 32 bits and widened afterwards: it wraps for exponents near MinExp/MaxExp before the range test sees the sum"
			}
			return true, ""
		}
		return e.smallTerm(x.X, depth-1, seen)
	case *ssa.ChangeType:
		return e.smallTerm(x.X, depth-1, seen)
	case *ssa.BinOp:
		switch x.Op {
		case token.ADD, token.SUB, token.MUL, token.QUO, token.REM, token.SHR, token.AND:
			if ok, w := e.smallTerm(x.X, depth-1, seen); !ok {
				return false, w
			}
			return e.smallTerm(x.Y, depth-1, seen)
		}
		return false, "operator " + x.Op.String()
	case *ssa.Phi:
		seen[v] = true
		for _, ed := range x.Edges {
			if ok, w := e.smallTerm(ed, depth-1, seen); !ok {
				return false, w
			}
		}
		return true, ""
	case *ssa.UnOp:
		if x.Op == token.MUL {
			if fa, ok := m.DecField(x.X); ok && (fa.Field == m.F.Exp || fa.Field == m.F.Prec) {
				return true, ""
			}
		}
		if x.Op == token.SUB {
			return e.smallTerm(x.X, depth-1, seen)
		}
		return false, "loaded value"
	case *ssa.Call:
		if n := model.BuiltinName(&x.Call); n == "len" || n == "cap" {
			return true, ""
		}
		cal := model.Unthunk(x.Call.StaticCallee())
		if cal != nil && m.InDecimalPkg(cal) {
			switch cal.Name() {
			case "dnorm", "nlz10", "decDigits", "decDigits64", "digits", "trailingZeroDigits":
				return true, "" // digit counts
			}
			if e.isClamp(cal) {
				return true, ""
			}
		}
		return false, "result of a call"
	case *ssa.Parameter:
		if b, ok := e.bind[x]; ok {
			return e.smallTerm(b, depth-1, seen)
		}
		if isWideInt(x.Type()) {
			return false, fmt.Sprintf("caller-supplied %s %s enters the sum unclamped: near the int64 limits the addition wraps before the MinExp/MaxExp test", x.Type(), x.Name())
		}
		return true, ""
	case *ssa.Extract:
		// one result of an in-package helper: every value the helper returns in that position must
		// be a small term, with the helper's parameters standing for the arguments of this call
		if call, ok := x.Tuple.(*ssa.Call); ok {
			if cal := model.Unthunk(call.Call.StaticCallee()); cal != nil && m.InDecimalPkg(cal) && len(cal.Blocks) > 0 && depth > 2 {
				if e.bind == nil {
					e.bind = map[*ssa.Parameter]ssa.Value{}
				}
				for i, p := range cal.Params {
					if i < len(call.Call.Args) {
						e.bind[p] = call.Call.Args[i]
					}
				}
				for _, b := range cal.Blocks {
					if r, ok := b.Instrs[len(b.Instrs)-1].(*ssa.Return); ok && x.Index < len(r.Results) {
						if ok, w := e.smallTerm(r.Results[x.Index], depth-2, seen); !ok {
							return false, "result of " + m.FuncName(cal) + ": " + w
						}
					}
				}
				return true, ""
			}
		}
		return false, "extracted value"
	}
	return false, fmt.Sprintf("%T", v)
}

func runExp(m *model.Model, s *ob.Set) {
	const R = "EXP"
	e := &expEngine{m: m, clamps: map[*ssa.Function]bool{}}
	sear := m.Lookup("(*Decimal).setExpAndRound")
	minE, maxE := m.PkgConst("MinExp"), m.PkgConst("MaxExp")
	tabledConv := map[string]string{"(*Decimal).SetFloat64": "exponent of a mantissa built from a uint64: at most three words"}
	tabledStep := map[string]string{"(*Decimal).Sqrt": "exp is the constant 0 stored by MantExp one statement earlier"}
	rangeGuarded := func(fn *ssa.Function, v ssa.Value, at *ssa.BasicBlock, needLo, needHi bool) (bool, bool) {
		lo, hi := !needLo, !needHi
		for _, gb := range fn.Blocks {
			if len(gb.Instrs) == 0 {
				continue
			}
			ifi, ok := gb.Instrs[len(gb.Instrs)-1].(*ssa.If)
			if !ok {
				continue
			}
			bo, ok := ifi.Cond.(*ssa.BinOp)
			if !ok {
				continue
			}
			x, y, op := bo.X, bo.Y, bo.Op
			if x != v && !sameFieldLoad(m, x, v) && (y == v || sameFieldLoad(m, y, v)) {
				x, y = y, x
				switch op {
				case token.LSS:
					op = token.GTR
				case token.GTR:
					op = token.LSS
				case token.LEQ:
					op = token.GEQ
				case token.GEQ:
					op = token.LEQ
				}
			}
			if x != v && !sameFieldLoad(m, x, v) {
				continue
			}
			kc, ok := y.(*ssa.Const)
			if !ok || kc.Value == nil {
				continue
			}
			isMin := constant.Compare(kc.Value, token.EQL, minE)
			isMax := constant.Compare(kc.Value, token.EQL, maxE)
			// v < MinExp false / v >= MinExp true  => lower bound
			if isMin && ((op == token.LSS && m.EdgeDominates(gb, 1, at)) || (op == token.GEQ && m.EdgeDominates(gb, 0, at))) {
				lo = true
			}
			// v > MaxExp false / v <= MaxExp true  => upper bound ; v >= MaxExp false => v < MaxExp
			if isMax && ((op == token.GTR && m.EdgeDominates(gb, 1, at)) || (op == token.LEQ && m.EdgeDominates(gb, 0, at)) || (op == token.GEQ && m.EdgeDominates(gb, 1, at)) || (op == token.LSS && m.EdgeDominates(gb, 0, at))) {
				hi = true
			}
			if isMin && ((op == token.LEQ && m.EdgeDominates(gb, 1, at)) || (op == token.GTR && m.EdgeDominates(gb, 0, at))) {
				lo = true
			}
			// the limits are the extremes of int32, so for the int32 exponent field `== MaxExp` says
			// the same as `>= MaxExp` (and `== MinExp` the same as `<= MinExp`)
			if bt, okb := x.Type().Underlying().(*types.Basic); okb && bt.Kind() == types.Int32 {
				atMax := isMax && constant.Compare(kc.Value, token.EQL, constant.MakeInt64(math.MaxInt32))
				atMin := isMin && constant.Compare(kc.Value, token.EQL, constant.MakeInt64(math.MinInt32))
				if atMax && ((op == token.EQL && m.EdgeDominates(gb, 1, at)) || (op == token.NEQ && m.EdgeDominates(gb, 0, at))) {
					hi = true
				}
				if atMin && ((op == token.EQL && m.EdgeDominates(gb, 1, at)) || (op == token.NEQ && m.EdgeDominates(gb, 0, at))) {
					lo = true
				}
			}
		}
		return lo, hi
	}
	nsites := 0
	for _, fn := range m.Funcs {
		if !m.InDecimalPkg(fn) {
			continue
		}
		live := m.Live(fn)
		name := m.FuncName(fn)
		ci, si, ai := 0, 0, 0
		for _, b := range fn.Blocks {
			if !live[b.Index] {
				continue
			}
			for _, in := range b.Instrs {
				// (iii) the exponent argument of setExpAndRound
				if cal, c := model.Callee(in); cal == sear {
					ai++
					nsites++
					ei, _ := searArgs(sear)
					ok, why := e.smallTerm(c.Args[ei], 14, map[ssa.Value]bool{})
					cn := fmt.Sprintf("%s/setExpAndRound-arg#%d", name, ai)
					s.Check(ok, R+"(iii)", cn, m.InstrPos(in), "a sum of terms that are small by construction", why)
				}
				st, ok := in.(*ssa.Store)
				if !ok {
					continue
				}
				fa, ok := m.DecField(st.Addr)
				if !ok || fa.Field != m.F.Exp {
					continue
				}
				// (ii) exp ± const
				if bo, ok := st.Val.(*ssa.BinOp); ok && (bo.Op == token.ADD || bo.Op == token.SUB) {
					if lf, ok := m.LoadOfDecField(bo.X); ok && lf.Field == m.F.Exp {
						si++
						nsites++
						cn := fmt.Sprintf("%s/exp-step#%d", name, si)
						lo, hi := rangeGuarded(fn, bo.X, b, bo.Op == token.SUB, bo.Op == token.ADD)
						if w, tab := tabledStep[name]; tab && !(lo && hi) {
							s.Note(R+"(ii)", cn, m.InstrPos(st), "tabled: "+w)
						} else {
							s.Check(lo && hi, R+"(ii)", cn, m.InstrPos(st), "guarded by a comparison with the exponent limit", "the exponent is stepped without first being compared with MaxExp/MinExp: int32 wrap-around at the end of the range")
						}
						continue
					}
				}
				// (i) conversions from a wide integer
				var conv *ssa.Convert
				var find func(v ssa.Value, d int)
				find = func(v ssa.Value, d int) {
					if d == 0 || conv != nil {
						return
					}
					switch x := v.(type) {
					case *ssa.Convert:
						if isWideInt(x.X.Type()) && !isWideInt(x.Type()) {
							if b, ok := x.X.Type().Underlying().(*types.Basic); ok && b.Kind() == types.Uint32 {
								return // uint32 -> int32 reinterpretation (decoder): every bit pattern is an int32
							}
							conv = x
							return
						}
						find(x.X, d-1)
					case *ssa.BinOp:
						find(x.X, d-1)
						find(x.Y, d-1)
					}
				}
				find(st.Val, 5)
				if conv == nil {
					continue
				}
				ci++
				nsites++
				cn := fmt.Sprintf("%s/int32-conversion#%d", name, ci)
				lo, hi := rangeGuarded(fn, conv.X, b, true, true)
				if ph, isPhi := conv.X.(*ssa.Phi); isPhi && !(lo && hi) {
					// joined from several ways: the ones that cannot be the value seen here (their
					// branch contradicts the tests in front of this store) do not count, a constant
					// within the limits needs no test
					lo, hi = true, true
					for ei, ev := range ph.Edges {
						if m.PhiEdgeInfeasibleAt(ph, ei, b) {
							continue
						}
						if kc, isC := ev.(*ssa.Const); isC && kc.Value != nil && kc.Value.Kind() == constant.Int &&
							constant.Compare(kc.Value, token.GEQ, minE) && constant.Compare(kc.Value, token.LEQ, maxE) {
							continue
						}
						l2, h2 := rangeGuarded(fn, ev, b, true, true)
						lo, hi = lo && l2, hi && h2
					}
				}
				if w, tab := tabledConv[name]; tab && !(lo && hi) {
					s.Note(R+"(i)", cn, m.InstrPos(st), "tabled: "+w)
					continue
				}
				s.Check(lo && hi, R+"(i)", cn, m.InstrPos(st), "inside the [MinExp, MaxExp] edges of a range test", fmt.Sprintf("a %s is truncated to the int32 exponent without a dominating test against MinExp and MaxExp (lower bound checked: %v, upper: %v)", conv.X.Type(), lo, hi))
			}
		}
	}
	// (ii') arithmetic performed directly on the int32 exponent field, whatever happens to the
	// result: x.exp - 1 wraps at MinExp before any widening conversion can help
	tabledArith := map[string]string{
		"(*Decimal).Rat": "x.exp - allDigits and allDigits - x.exp are computed on the branch where a comparison of the same two operands made the difference positive; allDigits >= 0",
	}
	for _, fn := range m.Funcs {
		if !m.InDecimalPkg(fn) {
			continue
		}
		live := m.Live(fn)
		name := m.FuncName(fn)
		k := 0
		for _, b := range fn.Blocks {
			if !live[b.Index] {
				continue
			}
			for _, in := range b.Instrs {
				bo, ok := in.(*ssa.BinOp)
				if !ok || (bo.Op != token.ADD && bo.Op != token.SUB) {
					continue
				}
				var ld ssa.Value
				if lf, ok := m.LoadOfDecField(bo.X); ok && lf.Field == m.F.Exp {
					ld = bo.X
				} else if lf, ok := m.LoadOfDecField(bo.Y); ok && lf.Field == m.F.Exp {
					ld = bo.Y
				}
				if ld == nil {
					continue
				}
				// stored straight back into .exp: handled as exp-step above
				stored := false
				if bo.Referrers() != nil {
					for _, u := range *bo.Referrers() {
						if st, ok := u.(*ssa.Store); ok {
							if fa, ok := m.DecField(st.Addr); ok && fa.Field == m.F.Exp {
								stored = true
							}
						}
					}
				}
				if stored {
					continue
				}
				k++
				nsites++
				cn := fmt.Sprintf("%s/int32-exp-arith#%d", name, k)
				lo, hi := rangeGuarded(fn, ld, b, bo.Op == token.SUB && ld == bo.X, bo.Op == token.ADD)
				if w, tab := tabledArith[name]; tab {
					s.Note(R+"(ii)", cn, m.InstrPos(bo), "tabled: "+w)
					continue
				}
				s.Check(lo && hi, R+"(ii)", cn, m.InstrPos(bo), "guarded by a comparison with the exponent limit", "arithmetic is done directly on the int32 exponent (widen it first, or compare with MinExp/MaxExp): it wraps at the end of the exponent range")
			}
		}
	}
	// (vi) arithmetic in int32 on a value that was narrowed from a wider integer just before
	// (int32(ex) - 1): the wider value may sit at the end of the int32 range, where the result wraps
	for _, fn := range m.Funcs {
		if !m.InDecimalPkg(fn) || len(fn.Blocks) == 0 || fn.Synthetic != "" {
			continue
		}
		live := m.Live(fn)
		k := 0
		for _, b := range fn.Blocks {
			if !live[b.Index] {
				continue
			}
			for _, in := range b.Instrs {
				bo, ok := in.(*ssa.BinOp)
				if !ok || (bo.Op != token.ADD && bo.Op != token.SUB) {
					continue
				}
				bt, ok := bo.Type().Underlying().(*types.Basic)
				if !ok || bt.Kind() != types.Int32 {
					continue
				}
				var cv *ssa.Convert
				for _, o := range []ssa.Value{bo.X, bo.Y} {
					if c, ok := o.(*ssa.Convert); ok && isWideInt(c.X.Type()) {
						cv = c
					}
				}
				if cv == nil {
					continue
				}
				if _, isConst := bo.Y.(*ssa.Const); !isConst {
					if _, isConst2 := bo.X.(*ssa.Const); !isConst2 {
						continue
					}
				}
				k++
				nsites++
				lo, hi := rangeGuarded(fn, cv.X, b, bo.Op == token.SUB && cv == bo.X, bo.Op == token.ADD)
				s.Check(lo && hi, R+"(vi)", fmt.Sprintf("%s/narrowed-then-stepped#%d", m.FuncName(fn), k), m.InstrPos(bo), "guarded by a comparison with the exponent limit", "a wide integer is narrowed to int32 and then stepped by a constant in int32: at the end of the exponent range the step wraps (do the arithmetic in the wide type, narrow afterwards)")
			}
		}
	}
	// (v) a caller's exponent (a wide integer parameter of an exported function) is not narrowed to
	// int32 before anything has compared it with the limits: the narrowing keeps the low 32 bits,
	// and an exponent of 2^32 becomes 0 (a helper that takes the exponent as int32 invites this)
	for _, fn := range m.Funcs {
		if !m.InDecimalPkg(fn) || len(fn.Blocks) == 0 || fn.Synthetic != "" {
			continue
		}
		live := m.Live(fn)
		k := 0
		for _, b := range fn.Blocks {
			if !live[b.Index] {
				continue
			}
			for _, in := range b.Instrs {
				cv, ok := in.(*ssa.Convert)
				if !ok || !isWideInt(cv.X.Type()) {
					continue
				}
				bt, ok := cv.Type().Underlying().(*types.Basic)
				if !ok || bt.Kind() != types.Int32 {
					continue
				}
				p, isParam := cv.X.(*ssa.Parameter)
				if !isParam || !strings.Contains(strings.ToLower(p.Name()), "exp") {
					continue
				}
				// handed on as an argument (not merely stored behind the range test of EXP(i))
				toCall := false
				if cv.Referrers() != nil {
					for _, u := range *cv.Referrers() {
						if _, ok := u.(ssa.CallInstruction); ok {
							toCall = true
						}
					}
				}
				if !toCall {
					continue
				}
				k++
				nsites++
				lo, hi := rangeGuarded(fn, cv.X, b, true, true)
				s.Check(lo && hi, R+"(v)", fmt.Sprintf("%s/param-narrowed#%d", m.FuncName(fn), k), m.InstrPos(cv), "compared with MinExp and MaxExp first", fmt.Sprintf("the caller's exponent %s is narrowed to int32 and handed on without having been compared with MinExp and MaxExp: 2^32 becomes 0, the saturation to ±0/±Inf turns into a wrap", p.Name()))
			}
		}
	}
	// (iv) the clamp applied to caller-supplied exponent offsets (SetMantExp, SetBitsExp,
	// NewDecimal): the offset is added to summands of magnitude below 2^33 (an int32 exponent,
	// a mantissa length in digits, a normalisation shift) before the [MinExp, MaxExp] test. The
	// clamp must be wide enough that a clamped offset still lands outside the range whatever
	// the other summands are (limit - 2^33 > 2^31, i.e. limit >= 2^34: an offset of 2^32 can
	// legitimately bring an exponent from MinExp to MaxExp), and narrow enough that the int64 sum
	// cannot wrap (limit + 2^33 < 2^63, i.e. limit <= 2^62).
	if le := m.TryLookup("limitExp"); le != nil && len(le.Params) == 1 {
		lo := constant.Shift(constant.MakeInt64(1), token.SHL, 34)
		hi := constant.Shift(constant.MakeInt64(1), token.SHL, 62)
		n, bad := 0, ""
		for _, b := range le.Blocks {
			for _, in := range b.Instrs {
				bo, ok := in.(*ssa.BinOp)
				if !ok {
					continue
				}
				var k *ssa.Const
				if bo.X == ssa.Value(le.Params[0]) {
					k, _ = bo.Y.(*ssa.Const)
				} else if bo.Y == ssa.Value(le.Params[0]) {
					k, _ = bo.X.(*ssa.Const)
				}
				if k == nil || k.Value == nil || k.Value.Kind() != constant.Int {
					continue
				}
				switch bo.Op {
				case token.LSS, token.GTR, token.LEQ, token.GEQ:
				default:
					continue
				}
				// a bound of the clamp: one of its edges leads to the return of the argument
				// itself (a later `exp < 0` that only picks which limit to return is not one)
				bounds := false
				if ifi, isIf := b.Instrs[len(b.Instrs)-1].(*ssa.If); isIf && ifi.Cond == ssa.Value(bo) {
					for _, rb := range le.Blocks {
						if r, isR := rb.Instrs[len(rb.Instrs)-1].(*ssa.Return); isR && len(r.Results) == 1 && r.Results[0] == ssa.Value(le.Params[0]) {
							if m.EdgeDominates(b, 0, rb) || m.EdgeDominates(b, 1, rb) {
								bounds = true
							}
						}
					}
				}
				if !bounds {
					continue
				}
				n++
				abs := k.Value
				if constant.Sign(abs) < 0 {
					abs = constant.UnaryOp(token.SUB, abs, 0)
				}
				if constant.Compare(abs, token.LSS, lo) || constant.Compare(abs, token.GTR, hi) {
					bad = fmt.Sprintf("%s: the caller's exponent offset is clamped at %s, outside [2^34, 2^62]", m.InstrPos(bo), k.Value.ExactString())
				}
			}
		}
		// the constants it returns in place of the argument
		for _, b := range le.Blocks {
			if r, isR := b.Instrs[len(b.Instrs)-1].(*ssa.Return); isR && len(r.Results) == 1 {
				if k, isC := r.Results[0].(*ssa.Const); isC && k.Value != nil && k.Value.Kind() == constant.Int {
					n++
					abs := k.Value
					if constant.Sign(abs) < 0 {
						abs = constant.UnaryOp(token.SUB, abs, 0)
					}
					if constant.Compare(abs, token.LSS, lo) || constant.Compare(abs, token.GTR, hi) {
						bad = fmt.Sprintf("%s: the caller's exponent offset is replaced by %s, outside [2^34, 2^62]", m.InstrPos(r), k.Value.ExactString())
					}
				}
			}
		}
		if n == 0 {
			s.Note(R+"(iv)", "limitExp/clamp", m.Pos(le.Pos()), "no comparison of the argument with a constant found")
		} else {
			s.Check(bad == "", R+"(iv)", "limitExp/clamp", m.Pos(le.Pos()), fmt.Sprintf("%d clamp bound(s) within [2^34, 2^62]", n), bad+": a narrower clamp turns offsets that cancel against the other summand into wrong in-range results, a wider one lets the int64 sum wrap")
		}
	}
	if nsites < 5 {
		m.Blind("EXP: only %d exponent sites found", nsites)
	}
}

// sameFieldLoad: both values are loads of the same field of the same (single) parameter object.
// go/ssa reloads a field for every use; nothing is stored in between in the guarded regions
// this is used for (the store being guarded is the first one after the test).
func sameFieldLoad(m *model.Model, a, b ssa.Value) bool {
	fa, ok1 := m.LoadOfDecField(a)
	fb, ok2 := m.LoadOfDecField(b)
	if !ok1 || !ok2 || fa.Field != fb.Field {
		return false
	}
	i, ok1 := m.RefOf(fa.X).IsSingleParam()
	j, ok2 := m.RefOf(fb.X).IsSingleParam()
	return ok1 && ok2 && i == j
}

// ---------------------------------------------------------------- OVERLAP

func sliceBase(v ssa.Value) (base ssa.Value, low ssa.Value) {
	for {
		switch x := v.(type) {
		case *ssa.Slice:
			if low == nil {
				low = x.Low
			} else if x.Low != nil {
				low = nil // nested offsets: give up on comparing
				return x.X, ssa.Value(nil)
			}
			v = x.X
		case *ssa.ChangeType:
			v = x.X
		case *ssa.UnOp:
			// *z for a parameter z of type *dec (a method given a pointer receiver): the buffer is
			// the caller's, like a dec parameter
			if p, ok := x.X.(*ssa.Parameter); ok && x.Op == token.MUL {
				return p, low
			}
			return v, low
		default:
			return v, low
		}
	}
}

// sliceOffset: the base buffer of v and its start offset as a sum of symbolic terms plus a constant.
func sliceOffset(v ssa.Value) (base ssa.Value, terms []ssa.Value, konst int64) {
	var add func(e ssa.Value)
	add = func(e ssa.Value) {
		if e == nil {
			return
		}
		if k, ok := model.ConstInt(e); ok {
			konst += k
			return
		}
		if bo, ok := e.(*ssa.BinOp); ok && bo.Op == token.ADD {
			add(bo.X)
			add(bo.Y)
			return
		}
		if bo, ok := e.(*ssa.BinOp); ok && bo.Op == token.SUB {
			if k, ok := model.ConstInt(bo.Y); ok {
				add(bo.X)
				konst -= k
				return
			}
		}
		terms = append(terms, e)
	}
	for {
		switch x := v.(type) {
		case *ssa.Slice:
			add(x.Low)
			v = x.X
		case *ssa.ChangeType:
			v = x.X
		default:
			return v, terms, konst
		}
	}
}

// offsetRelation compares the start offsets of two slices of the same buffer: +1 provably equal,
// -1 provably different by a non-zero constant, 0 unknown (unrelated symbolic offsets: the regions
// may well be disjoint parts of one scratch buffer, which is not decidable structurally).
func offsetRelation(a, b ssa.Value) int {
	_, ta, ka := sliceOffset(a)
	_, tb, kb := sliceOffset(b)
	used := make([]bool, len(tb))
	for _, x := range ta {
		found := false
		for j, y := range tb {
			if !used[j] && structEq(x, y, 5) {
				used[j], found = true, true
				break
			}
		}
		if !found {
			return 0
		}
	}
	for j := range tb {
		if !used[j] {
			return 0
		}
	}
	if ka == kb {
		return 1
	}
	return -1
}

func sameLow(a, b ssa.Value) bool {
	isZero := func(v ssa.Value) bool {
		if v == nil {
			return true
		}
		k, ok := model.ConstInt(v)
		return ok && k == 0
	}
	if isZero(a) && isZero(b) {
		return true
	}
	if a == nil || b == nil {
		return false
	}
	return structEq(a, b, 5)
}

// structEq: the two values are the same expression (go/ssa performs no common-subexpression
// elimination, so `u[j+n:j+n+1]` and `u[j+n:]` carry two distinct j+n values).
func structEq(a, b ssa.Value, depth int) bool {
	if a == b {
		return true
	}
	if depth == 0 {
		return false
	}
	switch x := a.(type) {
	case *ssa.Const:
		y, ok := b.(*ssa.Const)
		return ok && x.Value != nil && y.Value != nil && constant.Compare(x.Value, token.EQL, y.Value)
	case *ssa.BinOp:
		y, ok := b.(*ssa.BinOp)
		return ok && x.Op == y.Op && structEq(x.X, y.X, depth-1) && structEq(x.Y, y.Y, depth-1)
	case *ssa.Convert:
		y, ok := b.(*ssa.Convert)
		return ok && types.Identical(x.Type(), y.Type()) && structEq(x.X, y.X, depth-1)
	case *ssa.UnOp:
		// arithmetic negation / complement only: loads are not pure
		y, ok := b.(*ssa.UnOp)
		return ok && x.Op == y.Op && (x.Op == token.SUB || x.Op == token.XOR) && structEq(x.X, y.X, depth-1)
	case *ssa.Call:
		y, ok := b.(*ssa.Call)
		if !ok {
			return false
		}
		nx, ny := model.BuiltinName(&x.Call), model.BuiltinName(&y.Call)
		if nx == "" || nx != ny || (nx != "len" && nx != "cap") || len(x.Call.Args) != len(y.Call.Args) {
			return false
		}
		for i := range x.Call.Args {
			if !structEq(x.Call.Args[i], y.Call.Args[i], depth-1) {
				return false
			}
		}
		return true
	}
	return false
}

func runOverlap(m *model.Model, s *ob.Set) {
	runOverlapDir(m, s)
	const R = "OVERLAP"
	elementwise := map[string]bool{"add10VV": true, "sub10VV": true, "add10VW": true, "sub10VW": true, "mulAdd10VWW": true, "addMul10VVW": true, "div10VWW": true}
	inPlaceSafe := map[string]bool{"dec.add": true, "dec.sub": true, "dec.shl": true, "dec.shr": true, "dec.mulAddWW": true, "dec.divW": true, "dec.set": true, "dec.norm": true, "dec.setWord": true, "dec.make": true}
	nK, nM := 0, 0
	for _, fn := range m.Funcs {
		if !m.InDecimalPkg(fn) || inKernelLayer(m, fn) {
			continue
		}
		live := m.Live(fn)
		var badK, badM []string
		kSites, mSites := 0, 0
		for _, b := range fn.Blocks {
			if !live[b.Index] {
				continue
			}
			for _, in := range b.Instrs {
				cal, c := model.Callee(in)
				if cal == nil || !m.InDecimalPkg(cal) || len(c.Args) < 2 || !m.IsWordSlice(c.Args[0].Type()) {
					continue
				}
				dBase, dLow := sliceBase(c.Args[0])
				isKernel := carryKernels[cal.Name()]
				for _, a := range c.Args[1:] {
					if !m.IsWordSlice(a.Type()) {
						continue
					}
					sBase, sLow := sliceBase(a)
					if isKernel {
						if sBase != dBase {
							continue
						}
						kSites++
						rel := offsetRelation(c.Args[0], a)
						_, _, dk := sliceOffset(c.Args[0])
						_, _, sk := sliceOffset(a)
						switch {
						case elementwise[cal.Name()]:
							if rel < 0 {
								badK = append(badK, fmt.Sprintf("%s: %s is used in place but destination and source start at offsets of the same buffer that differ by a constant (%+d words): the regions overlap out of step", m.InstrPos(in), cal.Name(), dk-sk))
							}
						case cal.Name() == "shl10VU":
							// digits move towards higher indices: the source must not start above the destination
							if rel < 0 && sk > dk {
								badK = append(badK, fmt.Sprintf("%s: in-place shl10VU must not have its source above its destination", m.InstrPos(in)))
							}
						case cal.Name() == "shr10VU":
							if rel < 0 && dk > sk {
								badK = append(badK, fmt.Sprintf("%s: in-place shr10VU must not have its destination above its source", m.InstrPos(in)))
							}
						}
						_, _ = dLow, sLow
						continue
					}
					// dec-layer call with receiver and operand sharing a buffer
					if len(cal.Blocks) == 0 || cal.Signature.Recv() == nil {
						continue
					}
					shared := sBase == dBase
					if !shared {
						rd, rs := m.RootsOf(c.Args[0]), m.RootsOf(a)
						for l := range rd {
							if rs[l] && l != "fresh" && l != "nil" && l != "ext" && l != "?" {
								shared = true
							}
						}
					}
					if !shared {
						continue
					}
					mSites++
					if !inPlaceSafe[m.FuncName(cal)] {
						// mul/sqr/div defend themselves with an alias guard (rule ALIASGUARD)
						switch m.FuncName(cal) {
						case "dec.mul", "dec.sqr", "dec.div", "dec.divLarge":
						default:
							badM = append(badM, fmt.Sprintf("%s: %s is called with receiver and operand sharing a buffer but is not an in-place-safe routine", m.InstrPos(in), m.FuncName(cal)))
						}
					}
				}
			}
		}
		nK += kSites
		nM += mSites
		if kSites > 0 {
			c := m.FuncName(fn) + "/kernels-in-place"
			if len(badK) == 0 {
				s.Ok(R, c, m.Pos(fn.Pos()), fmt.Sprintf("%d in-place kernel call(s), offsets agree", kSites))
			} else {
				s.Bad(R, c, m.Pos(fn.Pos()), badK[0], badK[1:]...)
			}
		}
		if mSites > 0 {
			c := m.FuncName(fn) + "/methods-in-place"
			if len(badM) == 0 {
				s.Ok(R, c, m.Pos(fn.Pos()), fmt.Sprintf("%d in-place dec call(s), all in-place-safe or alias-guarded", mSites))
			} else {
				s.Bad(R, c, m.Pos(fn.Pos()), badM[0], badM[1:]...)
			}
		}
	}
	if nK < 4 {
		m.Blind("OVERLAP: only %d in-place kernel sites found", nK)
	}
}

// ---------------------------------------------------------------- NORMARG

func runNormArg(m *model.Model, s *ob.Set) {
	const R = "NORMARG"
	cmp := m.Lookup("dec.cmp")
	var normalised func(v ssa.Value, d int) (bool, string)
	normalised = func(v ssa.Value, d int) (bool, string) {
		if d == 0 {
			return false, "too deep"
		}
		switch x := v.(type) {
		case *ssa.Parameter:
			return true, "parameter (caller's obligation)"
		case *ssa.Call:
			cal := model.Unthunk(x.Call.StaticCallee())
			if cal != nil && m.InDecimalPkg(cal) && m.IsWordSlice(x.Type()) {
				return true, "result of " + m.FuncName(cal)
			}
		case *ssa.Extract:
			return true, "result of a dec-layer call"
		case *ssa.UnOp:
			if lf, ok := m.LoadOfDecField(x); ok && lf.Field == m.F.Mant {
				return true, "a Decimal's mantissa"
			}
		case *ssa.Slice:
			// a slice of a buffer that is being updated (u[j-B:] in the division loops) is only
			// normalised right after a norm() call; a prefix may end in zero words anyway
			return false, "a slice of a working buffer is not known to be normalised (use .norm())"
		case *ssa.ChangeType:
			return normalised(x.X, d-1)
		case *ssa.Phi:
			for _, e := range x.Edges {
				if ok, w := normalised(e, d-1); !ok {
					return false, w
				}
			}
			return true, "phi"
		}
		return false, fmt.Sprintf("%T is not known to be normalised", v)
	}
	n := 0
	for _, fn := range m.Funcs {
		if !m.InDecimalPkg(fn) {
			continue
		}
		live := m.Live(fn)
		k := 0
		for _, b := range fn.Blocks {
			if !live[b.Index] {
				continue
			}
			for _, in := range b.Instrs {
				cal, c := model.Callee(in)
				if cal != cmp {
					continue
				}
				k++
				n++
				ok1, w1 := normalised(c.Args[0], 6)
				ok2, w2 := normalised(c.Args[1], 6)
				cn := fmt.Sprintf("%s/cmp#%d", m.FuncName(fn), k)
				why := ""
				if !ok1 {
					why = "receiver: " + w1
				}
				if !ok2 {
					why += " argument: " + w2
				}
				s.Check(ok1 && ok2, R, cn, m.InstrPos(in), "both operands normalised", "dec.cmp decides on the lengths first, so both operands must be normalised ("+strings.TrimSpace(why)+")")
			}
		}
	}
	if n < 1 {
		m.Blind("NORMARG: only %d calls of dec.cmp found", n)
	}
}

// ---------------------------------------------------------------- INIT

func runInit(m *model.Model, s *ob.Set) {
	const R = "INIT"
	// accumulating destinations: function -> parameter indexes whose previous contents are read
	acc := map[*ssa.Function]map[int]bool{}
	if fn := m.TryLookup("addMul10VVW"); fn != nil {
		acc[fn] = map[int]bool{0: true}
	}
	if fn := m.TryLookup("addMul10VVW_g"); fn != nil {
		acc[fn] = map[int]bool{0: true}
	}
	producers := map[string]bool{"decBasicMul": true, "decKaratsuba": true, "decKaratsubaSqr": true, "decBasicSqr": true, "mulAdd10VWW": true, "shl10VU": true, "shr10VU": true, "div10VWW": true}
	isInit := func(in ssa.Instruction, base ssa.Value) bool {
		cal, c := model.Callee(in)
		if c == nil {
			return false
		}
		if cal == nil {
			if model.BuiltinName(c) == "copy" {
				b, _ := sliceBase(c.Args[0])
				return b == base
			}
			return false
		}
		if m.FuncName(cal) == "dec.clear" || (producers[cal.Name()] && !acc[cal][0]) {
			b, _ := sliceBase(c.Args[0])
			return b == base
		}
		return false
	}
	type site struct {
		fn   *ssa.Function
		in   ssa.Instruction
		base ssa.Value
		what string
	}
	collect := func(fn *ssa.Function) []site {
		var out []site
		live := m.Live(fn)
		for _, b := range fn.Blocks {
			if !live[b.Index] {
				continue
			}
			for _, in := range b.Instrs {
				cal, c := model.Callee(in)
				if cal == nil || len(c.Args) == 0 || !m.IsWordSlice(c.Args[0].Type()) {
					continue
				}
				dBase, _ := sliceBase(c.Args[0])
				if acc[cal][0] {
					out = append(out, site{fn, in, dBase, m.FuncName(cal) + " accumulates into its destination"})
					continue
				}
				// in-place add/sub kernels: destination is also a source
				if cal.Name() == "add10VV" || cal.Name() == "sub10VV" || cal.Name() == "add10VW" || cal.Name() == "sub10VW" {
					for _, a := range c.Args[1:] {
						if m.IsWordSlice(a.Type()) {
							if sb, _ := sliceBase(a); sb == dBase {
								out = append(out, site{fn, in, dBase, cal.Name() + " updates its destination in place"})
								break
							}
						}
					}
				}
			}
		}
		return out
	}
	var fns []*ssa.Function
	for _, fn := range m.Funcs {
		if m.InDecimalPkg(fn) && !inKernelLayer(m, fn) {
			fns = append(fns, fn)
		}
	}
	initialised := func(st site) bool {
		fn := st.fn
		for _, b := range fn.Blocks {
			for _, in := range b.Instrs {
				if in != st.in && isInit(in, st.base) && m.InstrDominates(in, st.in) {
					return true
				}
				// element stores into the buffer, before the site or inside a loop that precedes it
				// (any range, like clear(): which words are covered is loop arithmetic)
				if sto, ok := in.(*ssa.Store); ok {
					if ia, ok := sto.Addr.(*ssa.IndexAddr); ok {
						if bb, _ := sliceBase(ia.X); bb == st.base {
							if m.InstrDominates(sto, st.in) {
								return true
							}
							for _, h := range fn.Blocks {
								if h != b && m.Dominates(h, b) && m.Dominates(h, st.in.Block()) && blockReaches(b, h) && !blockReaches(st.in.Block(), h) {
									return true
								}
							}
						}
					}
				}
			}
		}
		return false
	}
	// fixpoint: a function that accumulates into a parameter without initialising it passes the
	// obligation to its callers
	for ch := true; ch; {
		ch = false
		for _, fn := range fns {
			for _, st := range collect(fn) {
				if p, ok := st.base.(*ssa.Parameter); ok && !initialised(st) {
					for i, q := range fn.Params {
						if q == p {
							if acc[fn] == nil {
								acc[fn] = map[int]bool{}
							}
							if !acc[fn][i] && i == 0 {
								acc[fn][i] = true
								ch = true
							}
						}
					}
				}
			}
		}
	}
	n := 0
	for _, fn := range fns {
		sites := collect(fn)
		if len(sites) == 0 {
			continue
		}
		var bad []string
		checked := 0
		for _, st := range sites {
			if _, isParam := st.base.(*ssa.Parameter); isParam && !initialised(st) {
				continue // the caller's obligation (summary)
			}
			// buffers not allocated here and not parameters (loaded pool pointers etc.) are followed
			// through their base value as well
			checked++
			if !initialised(st) {
				// a buffer rooted at a parameter-derived value (e.g. the result of z.make) that is
				// produced by a whole-slice routine counts; otherwise report
				if call, ok := st.base.(*ssa.Call); ok {
					if cal := model.Unthunk(call.Call.StaticCallee()); cal != nil && m.InDecimalPkg(cal) && m.FuncName(cal) != "dec.make" && m.FuncName(cal) != "getDec" {
						continue // result of a dec-layer computation (e.g. t.mul(...)): fully defined
					}
				}
				if _, ok := st.base.(*ssa.Extract); ok {
					continue
				}
				if _, ok := st.base.(*ssa.Phi); ok {
					// loop-carried buffer: look for an initialiser dominating the site on any incoming value
					okPhi := false
					ph := st.base.(*ssa.Phi)
					for _, ed := range ph.Edges {
						st2 := st
						st2.base, _ = sliceBase(ed)
						if _, isP := st2.base.(*ssa.Parameter); isP || initialised(st2) {
							okPhi = true
						}
						if c2, isC := st2.base.(*ssa.Call); isC {
							if cal := model.Unthunk(c2.Call.StaticCallee()); cal != nil && m.FuncName(cal) != "dec.make" {
								okPhi = true
							}
						}
					}
					if okPhi {
						continue
					}
				}
				bad = append(bad, fmt.Sprintf("%s: %s, but the buffer has been neither cleared nor completely produced on every path before (stale words of a reused buffer would be added in)", m.InstrPos(st.in), st.what))
			}
		}
		n += checked
		c := m.FuncName(fn)
		if len(bad) == 0 {
			s.Ok(R, c, m.Pos(fn.Pos()), fmt.Sprintf("%d accumulating site(s), %d with a locally owned buffer, all initialised", len(sites), checked))
		} else {
			s.Bad(R, c, m.Pos(fn.Pos()), bad[0], bad[1:]...)
		}
	}
	if n < 2 {
		m.Blind("INIT: only %d accumulating sites with a locally owned buffer found", n)
	}
}

// ---------------------------------------------------------------- SHIFTDIR

func init() {
	Register(&Rule{Name: "SHIFTDIR", Floor: 1, Run: runShiftDir,
		Doc: "a signed difference a-b that is converted to an unsigned shift count or digit count is computed only on paths where a comparison established a > b (or a >= b); in uadd/usub the operand that is shifted left is the one whose exponent is the minuend"})
}

func runShiftDir(m *model.Model, s *ob.Set) {
	const R = "SHIFTDIR"
	n := 0
	for _, fn := range m.Funcs {
		if !m.InDecimalPkg(fn) || inKernelLayer(m, fn) {
			continue
		}
		live := m.Live(fn)
		var bad []string
		sites := 0
		for _, b := range fn.Blocks {
			if !live[b.Index] {
				continue
			}
			for _, in := range b.Instrs {
				cv, ok := in.(*ssa.Convert)
				if !ok {
					continue
				}
				tb, ok := cv.Type().Underlying().(*types.Basic)
				if !ok || tb.Info()&types.IsUnsigned == 0 {
					continue
				}
				sub, ok := cv.X.(*ssa.BinOp)
				if !ok || sub.Op != token.SUB {
					continue
				}
				sb, ok := sub.X.Type().Underlying().(*types.Basic)
				if !ok || sb.Info()&types.IsInteger == 0 || sb.Info()&types.IsUnsigned != 0 {
					continue
				}
				if _, isConst := sub.X.(*ssa.Const); isConst {
					continue // c - x with a constant minuend: a digit-position computation, not a difference of exponents
				}
				// only differences used as a decimal shift count (dec.shl / dec.shr)
				usedAsArg := false
				if cv.Referrers() != nil {
					for _, u := range *cv.Referrers() {
						if cal, _ := model.Callee(u); cal != nil && (m.FuncName(cal) == "dec.shl" || m.FuncName(cal) == "dec.shr") {
							usedAsArg = true
						}
					}
				}
				if !usedAsArg {
					continue
				}
				sites++
				n++
				// dominating edge establishing X > Y or X >= Y
				okDir := false
				for _, gb := range fn.Blocks {
					if len(gb.Instrs) == 0 {
						continue
					}
					ifi, ok := gb.Instrs[len(gb.Instrs)-1].(*ssa.If)
					if !ok {
						continue
					}
					bo, ok := ifi.Cond.(*ssa.BinOp)
					if !ok {
						continue
					}
					eq := func(a, b ssa.Value) bool { return a == b || structEq(a, b, 4) || sameFieldLoad(m, a, b) }
					dirXY := eq(bo.X, sub.X) && eq(bo.Y, sub.Y)
					dirYX := eq(bo.X, sub.Y) && eq(bo.Y, sub.X)
					edge := -1
					switch {
					case dirXY && (bo.Op == token.GTR || bo.Op == token.GEQ):
						edge = 0
					case dirXY && (bo.Op == token.LSS || bo.Op == token.LEQ):
						edge = 1
					case dirYX && (bo.Op == token.LSS || bo.Op == token.LEQ):
						edge = 0
					case dirYX && (bo.Op == token.GTR || bo.Op == token.GEQ):
						edge = 1
					}
					if edge >= 0 && m.EdgeDominates(gb, edge, b) {
						okDir = true
					}
				}
				if !okDir {
					bad = append(bad, fmt.Sprintf("%s: unsigned(%s - %s) is computed without a dominating comparison establishing that the difference is non-negative", m.InstrPos(cv), exprKey(m, sub.X, 3), exprKey(m, sub.Y, 3)))
					continue
				}
				// uadd/usub: shl(P.mant, uint(eP - eQ)): the shifted operand is the one the minuend belongs to
				if cv.Referrers() != nil {
					for _, u := range *cv.Referrers() {
						cal, c := model.Callee(u)
						if cal == nil || m.FuncName(cal) != "dec.shl" {
							continue
						}
						lf, ok := m.LoadOfDecField(model.Unwrap(c.Args[1]))
						if !ok {
							continue
						}
						k, ok := m.RefOf(lf.X).IsSingleParam()
						if !ok {
							continue
						}
						dep := func(v ssa.Value, p int) bool {
							found := false
							var walk func(v ssa.Value, d int)
							seen := map[ssa.Value]bool{}
							walk = func(v ssa.Value, d int) {
								if d == 0 || seen[v] || found {
									return
								}
								seen[v] = true
								if f2, ok := m.LoadOfDecField(v); ok {
									if j, ok := m.RefOf(f2.X).IsSingleParam(); ok && j == p {
										found = true
									}
									return
								}
								if in2, ok := v.(ssa.Instruction); ok {
									var ops []*ssa.Value
									for _, o := range in2.Operands(ops) {
										if *o != nil {
											walk(*o, d-1)
										}
									}
								}
							}
							walk(v, 8)
							return found
						}
						other := false
						for j := range fn.Params {
							if j != k && m.IsDecPtr(fn.Params[j].Type()) && (dep(sub.X, j) || dep(sub.Y, j)) {
								other = true
							}
						}
						if !other {
							continue // both terms belong to the same operand (Rat, intMant): nothing to confuse
						}
						if !dep(sub.X, k) || dep(sub.Y, k) {
							bad = append(bad, fmt.Sprintf("%s: %s.mant is shifted left by a difference whose minuend is not %s's own exponent: the operand with the SMALLER exponent would be scaled up", m.InstrPos(u), fn.Params[k].Name(), fn.Params[k].Name()))
						}
					}
				}
			}
		}
		if sites == 0 {
			continue
		}
		c := m.FuncName(fn)
		if len(bad) == 0 {
			s.Ok(R, c, m.Pos(fn.Pos()), fmt.Sprintf("%d unsigned difference(s), each guarded and pointing the right way", sites))
		} else {
			s.Bad(R, c, m.Pos(fn.Pos()), bad[0], bad[1:]...)
		}
	}
	if n < 1 {
		m.Blind("SHIFTDIR: only %d shift counts computed as a signed difference found", n)
	}
}

// ---------------------------------------------------------------- LOWCUT, DECNORM

func init() {
	Register(&Rule{Name: "LOWCUT", Floor: 2, Run: runLowCut,
		Doc: "low-order words of a Decimal's mantissa are never sliced away outside round (which computes the sticky bit of what it drops) unless exactly the dropped digits are summarised by sticky(words*_DW) that reaches the rounding: digits that are dropped silently are lost to rounding and accuracy"})
	Register(&Rule{Name: "DECNORM", Floor: 6, Run: runDecNorm,
		Doc: "every dec-layer function that returns a dec returns a normalised value: the result of norm(), of another such function, an empty slice, or its own (normalised) parameter"})
}

// runLowCutBigInt: a setter that takes a *big.Int (SetInt) converts the integer it was given. A
// division or right shift of that integer in front of the conversion (to convert fewer words when
// the precision is small) drops the low digits before anything has looked at them: they never
// reach the sticky bit, ties and exact values are misjudged.
func runLowCutBigInt(m *model.Model, s *ob.Set) {
	const R = "LOWCUT"
	for _, fn := range m.Funcs {
		if !m.InDecimalPkg(fn) || len(fn.Blocks) == 0 || fn.Synthetic != "" || len(fn.Params) < 2 || !m.IsDecPtr(fn.Params[0].Type()) {
			continue
		}
		hasInt := false
		for _, p := range fn.Params[1:] {
			if bigNamedType(p.Type()) == "Int" {
				hasInt = true
			}
		}
		if !hasInt || len(m.StoreSets(fn, 0)) == 0 {
			continue // (a conversion the other way, Decimal to Int, truncates by contract)
		}
		live := m.Live(fn)
		n, bad := 0, ""
		for _, b := range fn.Blocks {
			if !live[b.Index] {
				continue
			}
			for _, in := range b.Instrs {
				c, ok := in.(*ssa.Call)
				if !ok {
					continue
				}
				cal := model.Unthunk(c.Call.StaticCallee())
				if cal == nil || cal.Pkg == nil || cal.Pkg.Pkg.Path() != "math/big" || cal.Signature.Recv() == nil {
					continue
				}
				if bigNamedType(cal.Signature.Recv().Type()) != "Int" {
					continue
				}
				n++
				switch cal.Name() {
				case "Quo", "Div", "Rsh", "QuoRem", "DivMod", "Rem", "Mod":
					bad = fmt.Sprintf("%s: the integer is cut down with (*big.Int).%s before it is converted: the digits that fall off are not seen by the rounding (no sticky bit for them)", m.InstrPos(in), cal.Name())
				}
			}
		}
		if n > 0 {
			s.Check(bad == "", R, m.FuncName(fn)+"/bigint-prescale", m.Pos(fn.Pos()), fmt.Sprintf("%d math/big call(s) on the integer, none that drops digits", n), bad)
		}
	}
}

func runLowCut(m *model.Model, s *ob.Set) {
	const R = "LOWCUT"
	runLowCutBigInt(m, s)
	tabled := map[string]string{
		"(*Decimal).round":     "round computes the rounding digit and the sticky bit of everything below it before cutting",
		"(*Decimal).GobEncode": "encodes at most ceil(prec/_DW) top words; lower words are zero for a canonical Decimal (digits <= prec)",
		"(*Decimal).toa":       "strips low words that the preceding loop found to be zero",
	}
	sear := m.Lookup("(*Decimal).setExpAndRound")
	round := m.Lookup("(*Decimal).round")
	n := 0
	highCuts := map[*ssa.Function][]*ssa.Slice{}
	seenTabled := map[string]bool{}
	defer func() {
		// m[:k] on a mantissa drops the most significant words; only round does that, after
		// it has moved the words it keeps to the front
		var fns []*ssa.Function
		for fn := range highCuts {
			fns = append(fns, fn)
		}
		sort.Slice(fns, func(i, j int) bool { return m.FuncName(fns[i]) < m.FuncName(fns[j]) })
		for _, fn := range fns {
			name := m.FuncName(fn)
			c := name + "/top"
			if name == "(*Decimal).round" {
				s.Ok(R, c, m.InstrPos(highCuts[fn][0]), "round truncates after moving the kept (most significant) words to the front")
				continue
			}
			s.Bad(R, c, m.InstrPos(highCuts[fn][0]), fmt.Sprintf("%s: a Decimal's mantissa is sliced as m[:k]: the words kept are the LEAST significant ones (the mantissa is little-endian); the most significant digits are dropped", m.InstrPos(highCuts[fn][0])))
		}
		for name, why := range tabled {
			if !seenTabled[name] {
				s.Note(R, name, "-", "tabled ("+why+") but no low cut found in this function any more")
			}
		}
	}()
	for _, fn := range m.Funcs {
		if !m.InDecimalPkg(fn) || inKernelLayer(m, fn) {
			continue
		}
		live := m.Live(fn)
		var cuts []*ssa.Slice
		for _, b := range fn.Blocks {
			if !live[b.Index] {
				continue
			}
			for _, in := range b.Instrs {
				sl, ok := in.(*ssa.Slice)
				if !ok || !m.IsWordSlice(sl.X.Type()) {
					continue
				}
				lowZero := sl.Low == nil
				if k, ok := model.ConstInt(sl.Low); sl.Low != nil && ok && k == 0 {
					lowZero = true
				}
				if lowZero {
					// m[:k]: the TOP words (most significant digits) are cut off unless k == len(m)
					if sl.High == nil {
						continue
					}
					if k, ok := model.ConstInt(sl.High); ok && k == 0 {
						continue // m[:0]: buffer reuse
					}
					if call, ok := sl.High.(*ssa.Call); ok && model.BuiltinName(&call.Call) == "len" && structEq(call.Call.Args[0], sl.X, 4) {
						continue
					}
					isM := false
					for l := range m.RootsOf(sl.X) {
						if strings.HasSuffix(l, ".mant") {
							isM = true
						}
					}
					if isM {
						highCuts[fn] = append(highCuts[fn], sl)
					}
					continue
				}
				isMant := false
				for l := range m.RootsOf(sl.X) {
					if strings.HasSuffix(l, ".mant") {
						isMant = true
					}
				}
				if !isMant {
					continue
				}
				// a destination of copy/kernels is a write, not a cut
				onlyDest := sl.Referrers() != nil && len(*sl.Referrers()) > 0
				if sl.Referrers() != nil {
					for _, u := range *sl.Referrers() {
						cal, c := model.Callee(u)
						isDest := false
						if c != nil && len(c.Args) > 0 && c.Args[0] == ssa.Value(sl) {
							if cal == nil && model.BuiltinName(c) == "copy" {
								isDest = true
							}
							if cal != nil && (carryKernels[cal.Name()] || m.IsVectorKernel(cal)) {
								isDest = true
							}
						}
						if _, isDbg := u.(*ssa.DebugRef); isDbg {
							continue
						}
						if !isDest {
							onlyDest = false
						}
					}
				}
				if onlyDest {
					continue
				}
				cuts = append(cuts, sl)
			}
		}
		if len(cuts) == 0 {
			continue
		}
		n += len(cuts)
		name := m.FuncName(fn)
		c := name
		if why, ok := tabled[name]; ok {
			seenTabled[name] = true
			s.Ok(R, c, m.InstrPos(cuts[0]), fmt.Sprintf("%d low cut(s), tabled: %s", len(cuts), why))
			continue
		}
		var bad []string
		for _, sl := range cuts {
			base, _ := sliceBase(sl.X)
			okSticky := false
			for _, b := range fn.Blocks {
				for _, in := range b.Instrs {
					call, ok := in.(*ssa.Call)
					if !ok {
						continue
					}
					cal := model.Unthunk(call.Call.StaticCallee())
					if cal == nil || m.FuncName(cal) != "dec.sticky" {
						continue
					}
					sb, _ := sliceBase(call.Call.Args[0])
					sameBase := sb == base
					if !sameBase {
						if la, ok1 := m.LoadOfDecField(model.Unwrap(sb)); ok1 {
							if lb, ok2 := m.LoadOfDecField(model.Unwrap(base)); ok2 && la.Field == lb.Field && la.X == lb.X {
								sameBase = true
							}
						}
					}
					if !sameBase {
						continue
					}
					// argument must be (words dropped) * _DW
					mul, ok := call.Call.Args[1].(*ssa.BinOp)
					if !ok || mul.Op != token.MUL {
						continue
					}
					dw, _ := constant.Int64Val(m.PkgConst("_DW"))
					var cnt ssa.Value
					if k, ok := model.ConstInt(mul.Y); ok && k == dw {
						cnt = mul.X
					} else if k, ok := model.ConstInt(mul.X); ok && k == dw {
						cnt = mul.Y
					}
					if cnt == nil || !structEq(stripConv(cnt), stripConv(sl.Low), 5) {
						continue
					}
					// and reach the rounding
					for _, b2 := range fn.Blocks {
						for _, in2 := range b2.Instrs {
							if cal2, c2 := model.Callee(in2); cal2 == sear && flowsInto(m, call, c2.Args[func() int { _, si := searArgs(sear); return si }()], 8, map[ssa.Value]bool{}) {
								okSticky = true
							} else if cal2 == round && flowsInto(m, call, c2.Args[1], 8, map[ssa.Value]bool{}) {
								okSticky = true
							}
						}
					}
				}
			}
			if !okSticky {
				bad = append(bad, fmt.Sprintf("%s: the low words of a mantissa are sliced away (%s) and no sticky(%s*_DW) of the same mantissa reaches the rounding: the dropped digits are invisible to the rounding decision and to Acc()", m.InstrPos(sl), "["+exprKey(m, sl.Low, 3)+":]", exprKey(m, sl.Low, 3)))
			}
		}
		if len(bad) == 0 {
			s.Ok(R, c, m.InstrPos(cuts[0]), fmt.Sprintf("%d low cut(s), each summarised by a sticky bit that reaches the rounding", len(cuts)))
		} else {
			s.Bad(R, c, m.InstrPos(cuts[0]), bad[0], bad[1:]...)
		}
	}
	if n < 1 {
		m.Blind("LOWCUT: no low cut of a mantissa found at all (round, GobEncode, toa expected): the rule is blind")
	}
}

func runDecNorm(m *model.Model, s *ob.Set) {
	const R = "DECNORM"
	tabled := map[string]string{
		"dec.make":    "buffer constructor: returns storage, not a value",
		"dec.set":     "copies its argument: normalised iff the argument is (callers pass normalised values)",
		"dec.setWord": "a single non-zero word (the zero case returns z[:0])",
		"dec.norm":    "the normaliser itself",
	}
	isDecFn := func(fn *ssa.Function) bool {
		if fn == nil || !m.InDecimalPkg(fn) || inKernelLayer(m, fn) || len(fn.Blocks) == 0 {
			return false
		}
		res := fn.Signature.Results()
		for i := 0; i < res.Len(); i++ {
			if m.IsDecNamed(res.At(i).Type()) {
				return true
			}
		}
		return false
	}
	// φ cycles (a buffer threaded through a loop) are treated co-inductively: a φ already on
	// the stack contributes nothing new, every other edge must be a normalised value.
	onStack := map[*ssa.Phi]bool{}
	var curRet ssa.Instruction  // the return whose operand is being judged
	var curSite ssa.Instruction // where the value under judgement is taken (the return, or the end of a φ's incoming block)
	var okVal func(v ssa.Value, d int) (bool, string)
	okVal = func(v ssa.Value, d int) (bool, string) {
		if d == 0 {
			return false, "a value whose construction is too deep to follow"
		}
		switch x := v.(type) {
		case *ssa.Const:
			return true, ""
		case *ssa.Parameter:
			// normalised as the caller gave it — unless this function wrote its words on the way here
			for i, p := range x.Parent().Params {
				lab := fmt.Sprintf("P%d", i)
				if p != x || !m.ElemWrites(x.Parent())[lab] || curRet == nil {
					continue
				}
				for _, wb := range x.Parent().Blocks {
					for _, in := range wb.Instrs {
						wrote := false
						switch w := in.(type) {
						case *ssa.Store:
							if ia, ok := w.Addr.(*ssa.IndexAddr); ok && m.IsWordSlice(ia.X.Type()) && m.RootsOf(ia.X)[lab] {
								wrote = true
							}
						case ssa.CallInstruction:
							c := w.Common()
							if cal := model.Unthunk(c.StaticCallee()); cal != nil {
								for l2 := range m.ElemWrites(cal) {
									var k int
									if _, err := fmt.Sscanf(l2, "P%d", &k); err == nil && l2 == fmt.Sprintf("P%d", k) && k < len(c.Args) && m.IsWordSlice(c.Args[k].Type()) && m.RootsOf(c.Args[k])[lab] {
										wrote = true
									}
								}
							} else if model.BuiltinName(c) == "copy" && m.RootsOf(c.Args[0])[lab] {
								wrote = true
							}
						}
						site := curSite
						if site == nil {
							site = curRet
						}
						if wrote && m.Reaches(in, site) {
							return false, "the buffer parameter " + x.Name() + ", whose words were written on the way (" + m.InstrPos(in) + "), returned without norm()"
						}
					}
				}
			}
			return true, ""
		case *ssa.Slice:
			if x.High != nil {
				if k, ok := model.ConstInt(x.High); ok && k == 0 {
					return true, ""
				}
			}
			return false, "a slice expression (only v[:0] is trivially normalised)"
		case *ssa.Call:
			cal := model.Unthunk(x.Call.StaticCallee())
			if cal == nil {
				return false, "dynamic call"
			}
			if m.FuncName(cal) == "dec.make" || m.FuncName(cal) == "getDec" {
				return false, "a buffer from make() returned without norm()"
			}
			if isDecFn(cal) {
				return true, ""
			}
			return false, "result of " + m.FuncName(cal)
		case *ssa.Extract:
			if call, ok := x.Tuple.(*ssa.Call); ok && isDecFn(model.Unthunk(call.Call.StaticCallee())) {
				return true, ""
			}
			return false, "extracted value"
		case *ssa.ChangeType:
			return okVal(x.X, d-1)
		case *ssa.Phi:
			if onStack[x] {
				return true, ""
			}
			onStack[x] = true
			defer delete(onStack, x)
			for ei, e := range x.Edges {
				// the value that comes in along this edge is judged where the edge leaves its
				// block: a write on another way into the join is not on its way
				save := curSite
				if ei < len(x.Block().Preds) {
					if pb := x.Block().Preds[ei]; len(pb.Instrs) > 0 {
						curSite = pb.Instrs[len(pb.Instrs)-1]
					}
				}
				ok, w := okVal(e, d-1)
				curSite = save
				if !ok {
					return false, w
				}
			}
			return true, ""
		case *ssa.UnOp:
			if lf, ok := m.LoadOfDecField(x); ok && lf.Field == m.F.Mant {
				return true, ""
			}
			// a local whose address is taken (passed to a pointer-receiver method): the value it
			// holds is the one last stored in front of the load in the same block
			if al, ok := x.X.(*ssa.Alloc); ok && x.Op == token.MUL {
				var last *ssa.Store
				for _, in := range x.Block().Instrs {
					if in == ssa.Instruction(x) {
						break
					}
					if st, ok := in.(*ssa.Store); ok && st.Addr == ssa.Value(al) {
						last = st
					}
				}
				if last != nil {
					return okVal(last.Val, d-1)
				}
			}
		}
		return false, fmt.Sprintf("%T", v)
	}
	for _, fn := range m.Funcs {
		if !isDecFn(fn) || m.IsDecMethod(fn) {
			continue
		}
		// the obligation is on the operations of the dec type (methods with a dec receiver): a plain
		// helper that hands back a working buffer (a zero-extended dividend, scratch space) makes
		// no promise about normalisation, and what it returns is checked where it is consumed
		if fn.Signature.Recv() == nil || !m.IsDecNamed(fn.Signature.Recv().Type()) {
			continue
		}
		name := m.FuncName(fn)
		if why, ok := tabled[name]; ok {
			s.Note(R, name, m.Pos(fn.Pos()), "tabled: "+why)
			continue
		}
		live := m.Live(fn)
		var bad []string
		nret := 0
		for _, b := range fn.Blocks {
			if !live[b.Index] {
				continue
			}
			ret, ok := b.Instrs[len(b.Instrs)-1].(*ssa.Return)
			if !ok {
				continue
			}
			for i, r := range ret.Results {
				if !m.IsDecNamed(fn.Signature.Results().At(i).Type()) {
					continue
				}
				nret++
				curRet, curSite = ret, nil
				if ok, why := okVal(r, 12); !ok {
					bad = append(bad, fmt.Sprintf("%s: result %d is %s", m.InstrPos(ret), i, why))
				}
			}
		}
		if len(bad) == 0 {
			s.Ok(R, name, m.Pos(fn.Pos()), fmt.Sprintf("%d returned value(s), all normalised by construction", nret))
		} else {
			s.Bad(R, name, m.Pos(fn.Pos()), "a dec-layer function may return a value with high zero words (callers compare lengths and index the top word): "+bad[0], bad[1:]...)
		}
	}
}

// isNlzOfMant: v is nlz10(m[len(m)-1]) for a mantissa m of parameter k (possibly through a
// conversion): the number of leading zero digits of the top word.
func isNlzOfMant(m *model.Model, v ssa.Value, k int) bool {
	c, ok := stripConv(v).(*ssa.Call)
	if !ok {
		return false
	}
	cal := model.Unthunk(c.Call.StaticCallee())
	if cal == nil || cal.Name() != "nlz10" || len(c.Call.Args) != 1 {
		return false
	}
	ld, ok := stripConv(c.Call.Args[0]).(*ssa.UnOp)
	if !ok || ld.Op != token.MUL {
		return false
	}
	ia, ok := ld.X.(*ssa.IndexAddr)
	if !ok {
		return false
	}
	return m.RootsOf(ia.X)[fmt.Sprintf("P%d.mant", k)]
}

func isErrorType(t types.Type) bool {
	return types.Identical(t, types.Universe.Lookup("error").Type())
}

// emptyOnEdge: successor si of block b is taken only when len(v) == 0 for a slice v accepted by is.
func emptyOnEdge(b *ssa.BasicBlock, si int, is func(ssa.Value) bool) bool {
	if len(b.Instrs) == 0 {
		return false
	}
	ifi, ok := b.Instrs[len(b.Instrs)-1].(*ssa.If)
	if !ok {
		return false
	}
	bo, ok := ifi.Cond.(*ssa.BinOp)
	if !ok {
		return false
	}
	x, y, op := bo.X, bo.Y, bo.Op
	if _, isC := x.(*ssa.Const); isC {
		x, y, op = y, x, mirrorOpTok[op]
	}
	k, ok := model.ConstInt(y)
	if !ok {
		return false
	}
	c, ok := x.(*ssa.Call)
	if !ok || model.BuiltinName(&c.Call) != "len" || !is(c.Call.Args[0]) {
		return false
	}
	if si == 1 {
		op = negOp[op]
	}
	switch {
	case op == token.EQL && k == 0, op == token.LEQ && k == 0, op == token.LSS && k == 1:
		return true
	}
	return false
}
