package rules

// E7 (continued) — ASM defuse/…: a must-define dataflow over each TEXT of dec_arith_amd64.s.
// A general-purpose register (or the flags) may be read only where every path from the entry
// of the routine has written it. Nothing is executed and no value is modelled: each opcode of
// the (small, closed) set the file uses has a fixed read/write signature; an opcode outside
// that set is an ANALYSIS-ERROR, never a silent pass.

import (
	"fmt"
	"regexp"
	"sort"
	"strings"
)

var asmRegs = map[string]bool{"AX": true, "BX": true, "CX": true, "DX": true, "SI": true, "DI": true, "BP": true,
	"R8": true, "R9": true, "R10": true, "R11": true, "R12": true, "R13": true, "R14": true, "R15": true}

var reAddr = regexp.MustCompile(`^(-?\w+)?\((\w+)\)(?:\((\w+)\*\d\))?$`)

const asmFlags = "FLAGS"

// operandRegs returns the registers an operand reads to form its address (memory operand) or
// its value (register operand), and whether the operand is a plain register.
func operandRegs(a string) (regs []string, isReg bool) {
	if asmRegs[a] {
		return []string{a}, true
	}
	if strings.HasPrefix(a, "$") || reFP.MatchString(a) || strings.HasSuffix(a, "(SB)") {
		return nil, false
	}
	if mm := reAddr.FindStringSubmatch(a); mm != nil {
		for _, r := range []string{mm[2], mm[3]} {
			if asmRegs[r] {
				regs = append(regs, r)
			}
		}
		return regs, false
	}
	return nil, false
}

type asmRW struct {
	reads, writes []string
	known         bool
}

// asmEffect gives the registers (and FLAGS) an instruction reads and writes.
func asmEffect(in asmInstr) asmRW {
	var rw asmRW
	rw.known = true
	rd := func(a string) {
		r, _ := operandRegs(a)
		rw.reads = append(rw.reads, r...)
	}
	wr := func(a string) {
		r, isReg := operandRegs(a)
		if isReg {
			rw.writes = append(rw.writes, a)
		} else {
			rw.reads = append(rw.reads, r...) // address registers of a memory destination
		}
	}
	n := len(in.args)
	switch in.op {
	case "MOVQ", "MOVWLZX", "LEAQ":
		if n != 2 {
			rw.known = false
			return rw
		}
		rd(in.args[0])
		wr(in.args[1])
	case "ADDQ", "SUBQ", "ANDQ", "ORQ", "XORQ", "ADCQ", "SBBQ", "SHRQ", "SHLQ", "SARQ", "RORW", "ROLW":
		if n != 2 {
			rw.known = false
			return rw
		}
		same := in.args[0] == in.args[1] && asmRegs[in.args[0]]
		if same && (in.op == "XORQ" || in.op == "SUBQ" || in.op == "SBBQ") {
			// zeroing / carry-materialising idioms: the old value does not matter
		} else {
			rd(in.args[0])
			rd(in.args[1])
		}
		if in.op == "ADCQ" || in.op == "SBBQ" {
			rw.reads = append(rw.reads, asmFlags)
		}
		wr(in.args[1])
		rw.writes = append(rw.writes, asmFlags)
	case "NEGQ", "NOTQ", "INCQ", "DECQ":
		if n != 1 {
			rw.known = false
			return rw
		}
		rd(in.args[0])
		wr(in.args[0])
		if in.op != "NOTQ" {
			rw.writes = append(rw.writes, asmFlags)
		}
	case "MULQ":
		rd(in.args[0])
		rw.reads = append(rw.reads, "AX")
		rw.writes = append(rw.writes, "AX", "DX", asmFlags)
	case "DIVQ":
		rd(in.args[0])
		rw.reads = append(rw.reads, "AX", "DX")
		rw.writes = append(rw.writes, "AX", "DX", asmFlags)
	case "CMPQ", "TESTQ", "BTQ":
		for _, a := range in.args {
			rd(a)
		}
		rw.writes = append(rw.writes, asmFlags)
	case "JMP", "RET":
	default:
		if strings.HasPrefix(in.op, "J") {
			rw.reads = append(rw.reads, asmFlags)
		} else {
			rw.known = false
		}
	}
	return rw
}

// helperContract: registers a JMP-entered helper (a TEXT without a Go declaration) expects to be
// defined on entry. Derived from the helper itself by asmContracts: its upward-exposed reads.
// (a value, not package state: controls analyse variants of the file concurrently)
type asmContractMap map[string][]string

// asmContracts derives the register contract of every helper TEXT (no "·" in the name: not
// callable from Go, entered by JMP): the registers it reads before writing them.
func asmContracts(f *asmFile) asmContractMap {
	helperContract := asmContractMap{}
	for _, t := range f.texts {
		if strings.Contains(t.name, "·") {
			continue
		}
		helperContract[t.name] = nil
		bad, _, _ := asmDefUse(t, helperContract)
		set := map[string]bool{}
		for _, b := range bad {
			if i := strings.Index(b, " reads "); i >= 0 {
				r := strings.SplitN(b[i+7:], ",", 2)[0]
				if asmRegs[r] {
					set[r] = true
				}
			}
		}
		var regs []string
		for r := range set {
			regs = append(regs, r)
		}
		sort.Strings(regs)
		helperContract[t.name] = regs
	}
	return helperContract
}

type regSet map[string]bool

func (a regSet) clone() regSet {
	b := regSet{}
	for k := range a {
		b[k] = true
	}
	return b
}

// asmDefUse runs the must-define analysis over t and returns the violations found
// (sorted, each naming the instruction and the register) and the number of reads checked.
func asmDefUse(t *asmText, helperContract asmContractMap) (bad []string, checked int, unknown []string) {
	at := map[string]int{}
	for i, in := range t.instrs {
		if in.label != "" {
			at[in.label] = i
		}
	}
	n := len(t.instrs)
	in := make([]regSet, n+1) // nil = unreached (⊤ of the must-lattice)
	entry := regSet{}
	for _, r := range helperContract[t.name] {
		entry[r] = true
	}
	in[0] = entry
	meet := func(i int, s regSet) bool {
		if i > n {
			return false
		}
		if in[i] == nil {
			in[i] = s.clone()
			return true
		}
		ch := false
		for k := range in[i] {
			if !s[k] {
				delete(in[i], k)
				ch = true
			}
		}
		return ch
	}
	succs := func(i int) []int {
		ins := t.instrs[i]
		if ins.label != "" {
			return []int{i + 1}
		}
		switch {
		case ins.op == "RET":
			return nil
		case ins.op == "JMP":
			if len(ins.args) == 1 {
				if j, ok := at[ins.args[0]]; ok {
					return []int{j}
				}
			}
			return nil // tail call
		case strings.HasPrefix(ins.op, "J"):
			out := []int{i + 1}
			if len(ins.args) == 1 {
				if j, ok := at[ins.args[0]]; ok {
					out = append(out, j)
				}
			}
			return out
		}
		return []int{i + 1}
	}
	work := []int{0}
	for len(work) > 0 {
		i := work[len(work)-1]
		work = work[:len(work)-1]
		if i >= n || in[i] == nil {
			continue
		}
		out := in[i].clone()
		if t.instrs[i].label == "" {
			for _, w := range asmEffect(t.instrs[i]).writes {
				out[w] = true
			}
		}
		for _, j := range succs(i) {
			if meet(j, out) {
				work = append(work, j)
			}
		}
	}
	seen := map[string]bool{}
	for i, ins := range t.instrs {
		if ins.label != "" || in[i] == nil {
			continue
		}
		rw := asmEffect(ins)
		if !rw.known {
			unknown = append(unknown, fmt.Sprintf("dec_arith_amd64.s:%d: %s", ins.line, ins.op))
			continue
		}
		for _, r := range rw.reads {
			checked++
			if !in[i][r] {
				msg := fmt.Sprintf("dec_arith_amd64.s:%d: %s %s reads %s, which is not written on every path from the entry of %s", ins.line, ins.op, strings.Join(ins.args, ", "), r, t.name)
				if !seen[msg] {
					seen[msg] = true
					bad = append(bad, msg)
				}
			}
		}
		// tail calls into the copy helpers must establish the helper's register contract
		if ins.op == "JMP" && len(ins.args) == 1 && strings.HasSuffix(ins.args[0], "(SB)") {
			callee := strings.TrimSuffix(ins.args[0], "(SB)")
			need, ok := helperContract[callee]
			if !ok {
				bad = append(bad, fmt.Sprintf("dec_arith_amd64.s:%d: tail call to %s, which has no tabled register contract", ins.line, callee))
				continue
			}
			for _, r := range need {
				checked++
				if !in[i][r] {
					bad = append(bad, fmt.Sprintf("dec_arith_amd64.s:%d: JMP %s with %s not written on every path (the helper's contract needs %s)", ins.line, callee, r, strings.Join(need, ", ")))
				}
			}
		}
	}
	sort.Strings(bad)
	return bad, checked, unknown
}

// asmDeadMoves: a register loaded by a pure move (MOVQ/MOVWLZX/LEAQ) whose value is overwritten
// or abandoned on every path before anything reads it. Such a move is either useless or — the
// case that matters — the value was meant for an instruction that now reads another register.
// Backward may-liveness over the same CFG; live-out of RET is empty (results travel through
// FP slots), live-out of a tail call is the helper's register contract.
func asmDeadMoves(t *asmText, helperContract asmContractMap) (bad []string, moves int) {
	at := map[string]int{}
	for i, in := range t.instrs {
		if in.label != "" {
			at[in.label] = i
		}
	}
	n := len(t.instrs)
	succs := func(i int) []int {
		ins := t.instrs[i]
		if ins.label != "" {
			return []int{i + 1}
		}
		switch {
		case ins.op == "RET":
			return nil
		case ins.op == "JMP":
			if len(ins.args) == 1 {
				if j, ok := at[ins.args[0]]; ok {
					return []int{j}
				}
			}
			return nil
		case strings.HasPrefix(ins.op, "J"):
			out := []int{i + 1}
			if len(ins.args) == 1 {
				if j, ok := at[ins.args[0]]; ok {
					out = append(out, j)
				}
			}
			return out
		}
		return []int{i + 1}
	}
	liveOut := make([]regSet, n)
	liveIn := make([]regSet, n)
	for i := range liveIn {
		liveIn[i], liveOut[i] = regSet{}, regSet{}
	}
	for changed := true; changed; {
		changed = false
		for i := n - 1; i >= 0; i-- {
			ins := t.instrs[i]
			out := regSet{}
			for _, j := range succs(i) {
				if j < n {
					for r := range liveIn[j] {
						out[r] = true
					}
				}
			}
			if ins.label == "" && ins.op == "JMP" && len(ins.args) == 1 && strings.HasSuffix(ins.args[0], "(SB)") {
				for _, r := range helperContract[strings.TrimSuffix(ins.args[0], "(SB)")] {
					out[r] = true
				}
			}
			li := out.clone()
			if ins.label == "" {
				rw := asmEffect(ins)
				for _, w := range rw.writes {
					delete(li, w)
				}
				for _, r := range rw.reads {
					li[r] = true
				}
			}
			if len(li) != len(liveIn[i]) || len(out) != len(liveOut[i]) {
				changed = true
			}
			liveIn[i], liveOut[i] = li, out
		}
	}
	for i, ins := range t.instrs {
		if ins.label != "" || (ins.op != "MOVQ" && ins.op != "MOVWLZX" && ins.op != "LEAQ") || len(ins.args) != 2 || !asmRegs[ins.args[1]] {
			continue
		}
		moves++
		if !liveOut[i][ins.args[1]] {
			bad = append(bad, fmt.Sprintf("dec_arith_amd64.s:%d: %s %s loads %s, but no path reads it before it is overwritten or the routine returns: the instruction that was meant to use it reads something else", ins.line, ins.op, strings.Join(ins.args, ", "), ins.args[1]))
		}
	}
	return bad, moves
}
