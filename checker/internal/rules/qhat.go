package rules

// QHAT — the quotient-estimate corrections of the long division (Knuth 4.3.1 D and the recursive
// variant), the places a test suite reaches only with rare operands:
//
// (stale-product) a loop that corrects an estimate q̂ and whose exit test reads a product of q̂
// recomputes that product from the corrected q̂ on the way back: the loop-carried value of the
// product comes from the same routine applied to the loop-carried value of q̂.
//
// (normalisation) the factor divLarge scales divisor and dividend with is base / (top word + 1):
// the largest factor that keeps the top word below the base, which is what makes it at least
// base/2 — the premise of "q̂ is at most 2 too large".
//
// (step) in the recursive division every decrement of an estimate (sub10VW(q, q, 1)) sits behind a
// comparison that found the partial product strictly larger than what is left of the dividend
// (cmp > 0: equal means the remainder is 0, no correction), and is completed on every way out by
// taking the divisor's low part off the product and giving its high part back to the dividend
// (sub10VV(t[:s], t[:s], v[:s]) … decAddAt(u[s:], v[s:], 0)); an "impossible" panic behind such
// a comparison is behind the strict one too.

import (
	"fmt"
	"go/constant"
	"go/token"
	"go/types"
	"strings"

	"golang.org/x/tools/go/ssa"

	"decverif/internal/cdai"
	"decverif/internal/model"
	"decverif/internal/ob"
)

func init() {
	Register(&Rule{Name: "QHAT", Floor: 3, Run: runQhat,
		Doc: "the quotient-estimate corrections of the long division: the product tested in the correction loop is recomputed from the corrected estimate, the normalisation factor is base/(top word+1), every decrement of an estimate in the recursive division is behind a strict comparison and completed by the two compensating updates"})
}

func runQhat(m *model.Model, s *ob.Set) {
	const R = "QHAT"
	// ---------------------------------------------------------------- stale-product
	for _, fn := range m.Funcs {
		if !m.InDecimalPkg(fn) || len(fn.Blocks) == 0 || inKernelLayer(m, fn) || fn.Synthetic != "" {
			continue
		}
		live := m.Live(fn)
		// extract results of calls: value -> (call, index)
		prodOf := func(v ssa.Value) (*ssa.Call, int) {
			v = stripConv(v)
			if ex, ok := v.(*ssa.Extract); ok {
				if c, ok := ex.Tuple.(*ssa.Call); ok {
					return c, ex.Index
				}
			}
			if c, ok := v.(*ssa.Call); ok {
				return c, 0
			}
			return nil, 0
		}
		n := 0
		reported := map[string]bool{}
		for _, hb := range fn.Blocks {
			if !live[hb.Index] {
				continue
			}
			// header φs
			var phis []*ssa.Phi
			for _, in := range hb.Instrs {
				if p, ok := in.(*ssa.Phi); ok {
					phis = append(phis, p)
				}
			}
			if len(phis) < 2 {
				continue
			}
			// back edges: preds dominated by the header
			back := map[int]bool{}
			for i, p := range hb.Preds {
				if m.Dominates(hb, p) {
					back[i] = true
				}
			}
			if len(back) == 0 || len(back) == len(hb.Preds) {
				continue
			}
			for _, q := range phis {
				if !m.IsWord(q.Type()) {
					continue
				}
				// q changes in the loop
				changes := false
				for i, e := range q.Edges {
					if back[i] && stripConv(e) != ssa.Value(q) {
						changes = true
					}
				}
				if !changes {
					continue
				}
				var qEntry ssa.Value
				for i, e := range q.Edges {
					if !back[i] {
						qEntry = stripConv(e)
					}
				}
				// products of the entry value of q, computed in front of the loop
				for _, a := range phis {
					if a == q {
						continue
					}
					var aEntry ssa.Value
					for i, e := range a.Edges {
						if !back[i] {
							aEntry = e
						}
					}
					c0, idx := prodOf(aEntry)
					if c0 == nil || model.Unthunk(c0.Call.StaticCallee()) == nil || !m.InDecimalPkg(model.Unthunk(c0.Call.StaticCallee())) {
						continue
					}
					usesQ := false
					for _, arg := range c0.Call.Args {
						if stripConv(arg) == qEntry {
							usesQ = true
						}
					}
					if !usesQ {
						continue
					}
					n++
					cn := fmt.Sprintf("%s/stale-product/%s", m.FuncName(fn), model.Unthunk(c0.Call.StaticCallee()).Name())
					if reported[cn] {
						continue // the second result of the same call
					}
					reported[cn] = true
					bad := ""
					for i, e := range a.Edges {
						if !back[i] {
							continue
						}
						c1, idx1 := prodOf(e)
						okEdge := false
						if c1 != nil && model.Unthunk(c1.Call.StaticCallee()) == model.Unthunk(c0.Call.StaticCallee()) && idx1 == idx {
							for _, arg := range c1.Call.Args {
								if stripConv(arg) == stripConv(q.Edges[i]) {
									okEdge = true
								}
							}
						}
						if !okEdge {
							// the way back is a join of "recomputed" and "left as it was", and the
							// latter is taken exactly when the flag the loop head tests first says stop
							// (fits = r̂ did not overflow; if fits { recompute }; for fits && test(...)):
							// the stale product is never read
							if backEdgeLeavesLoop(m, hb, i) {
								okEdge = true
							} else if e2, ok := e.(*ssa.Phi); ok && e2.Block() != hb {
								allOK := true
								for k, ee := range e2.Edges {
									ck, ik := prodOf(ee)
									if ck != nil && model.Unthunk(ck.Call.StaticCallee()) == model.Unthunk(c0.Call.StaticCallee()) && ik == idx {
										continue
									}
									if !staleEdgeLeavesLoop(m, hb, e2, k, i) {
										allOK = false
									}
								}
								if allOK {
									okEdge = true
								}
							}
						}
						if !okEdge {
							bad = fmt.Sprintf("%s: on the way back into the loop the estimate has changed but the value the loop test reads is not %s of the new estimate: the test goes on comparing the product of the old one", m.InstrPos(a), model.Unthunk(c0.Call.StaticCallee()).Name())
						}
					}
					s.Check(bad == "", R, cn, m.InstrPos(c0), "the product is recomputed from the corrected estimate on every way back into the loop", bad)
				}
			}
		}
		// the product is not loop-carried at all: a value computed in front of a loop from the entry
		// value of a φ the loop changes, and read by the loop's exit test
		for _, hb := range fn.Blocks {
			if !live[hb.Index] {
				continue
			}
			back := map[int]bool{}
			for i, p := range hb.Preds {
				if m.Dominates(hb, p) {
					back[i] = true
				}
			}
			if len(back) == 0 || len(back) == len(hb.Preds) || len(hb.Instrs) == 0 {
				continue
			}
			ifi, ok := hb.Instrs[len(hb.Instrs)-1].(*ssa.If)
			if !ok {
				continue
			}
			tc, ok := ifi.Cond.(*ssa.Call)
			if !ok {
				continue
			}
			for _, in := range hb.Instrs {
				q, ok := in.(*ssa.Phi)
				if !ok || !m.IsWord(q.Type()) {
					continue
				}
				changes := false
				var qEntry ssa.Value
				for i, e := range q.Edges {
					if back[i] && stripConv(e) != ssa.Value(q) {
						changes = true
					}
					if !back[i] {
						qEntry = stripConv(e)
					}
				}
				if !changes || qEntry == nil {
					continue
				}
				for _, arg := range tc.Call.Args {
					c0, _ := prodOf(arg)
					if c0 == nil || model.Unthunk(c0.Call.StaticCallee()) == nil || !m.InDecimalPkg(model.Unthunk(c0.Call.StaticCallee())) || m.Dominates(hb, c0.Block()) {
						continue
					}
					for _, a2 := range c0.Call.Args {
						if stripConv(a2) == qEntry {
							cn := fmt.Sprintf("%s/stale-product/%s", m.FuncName(fn), model.Unthunk(c0.Call.StaticCallee()).Name())
							if !reported[cn] {
								reported[cn] = true
								n++
								s.Bad(R, cn, m.InstrPos(c0), fmt.Sprintf("%s: the loop changes the estimate, but its test reads %s of the estimate as it was in front of the loop (the product is never recomputed)", m.InstrPos(ifi), model.Unthunk(c0.Call.StaticCallee()).Name()))
							}
						}
					}
				}
			}
		}
		_ = n
	}
	runQhatTest(m, s)
	// ---------------------------------------------------------------- normalisation
	if fn := m.TryLookup("dec.divLarge"); fn != nil {
		base := m.PkgConst("_DB")
		live := m.Live(fn)
		var facs []*ssa.BinOp
		for _, b := range fn.Blocks {
			if !live[b.Index] {
				continue
			}
			for _, in := range b.Instrs {
				bo, ok := in.(*ssa.BinOp)
				if !ok || bo.Op != token.QUO {
					continue
				}
				if c, ok := stripConv(bo.X).(*ssa.Const); ok && c.Value != nil && c.Value.Kind() == constant.Int && constant.Compare(c.Value, token.EQL, base) {
					facs = append(facs, bo)
				}
			}
		}
		for i, bo := range facs {
			cn := "dec.divLarge/normalisation"
			if len(facs) > 1 {
				cn = fmt.Sprintf("%s#%d", cn, i+1)
			}
			ok := false
			if add, isAdd := stripConv(bo.Y).(*ssa.BinOp); isAdd && add.Op == token.ADD {
				for _, pr := range [][2]ssa.Value{{add.X, add.Y}, {add.Y, add.X}} {
					k, isK := model.ConstInt(pr[1])
					if !isK || k != 1 {
						continue
					}
					if ld, isLd := stripConv(pr[0]).(*ssa.UnOp); isLd && ld.Op == token.MUL {
						if ia, isIA := ld.X.(*ssa.IndexAddr); isIA && m.IsWordSlice(ia.X.Type()) {
							ok = true
						}
					}
				}
			}
			s.Check(ok, R, cn, m.InstrPos(bo), "the scaling factor is base / (top word of the divisor + 1)", "the factor that normalises the divisor is not base / (top word + 1): a smaller factor leaves the top word below base/2, and then the two-word estimate of a quotient word can be off by more than the two corrections provided")
		}
	}
	// ---------------------------------------------------------------- step
	if fn := m.TryLookup("dec.divRecursiveStep"); fn != nil {
		live := m.Live(fn)
		callName := func(in ssa.Instruction) (string, *ssa.CallCommon) {
			cal, c := model.Callee(in)
			if cal == nil {
				return "", nil
			}
			// the name the function has on the pinned tree (a renamed or re-shaped helper keeps it)
			n := m.FuncName(cal)
			if i := strings.LastIndex(n, "."); i >= 0 {
				n = n[i+1:]
			}
			return n, c
		}
		sameBuf := func(a, b ssa.Value) bool {
			if sameSliceExpr(a, b) {
				return true
			}
			// two loads of one local variable (its address is taken elsewhere) with no store between
			la, oka := stripConvAny(a).(*ssa.UnOp)
			lb, okb := stripConvAny(b).(*ssa.UnOp)
			return oka && okb && la.Op == token.MUL && lb.Op == token.MUL && la.X == lb.X && la.Block() == lb.Block()
		}
		// strictGT: the edge (b, si) establishes  cmp-result > 0
		strictGT := func(b *ssa.BasicBlock, si int) bool {
			if len(b.Instrs) == 0 {
				return false
			}
			ifi, ok := b.Instrs[len(b.Instrs)-1].(*ssa.If)
			if !ok {
				return false
			}
			bo, ok := ifi.Cond.(*ssa.BinOp)
			if !ok {
				return false
			}
			x, y, op := bo.X, bo.Y, bo.Op
			if _, isC := x.(*ssa.Const); isC {
				x, y, op = y, x, mirrorOpTok[op]
			}
			k, isK := model.ConstInt(y)
			c, isCall := stripConv(x).(*ssa.Call)
			if !isK || !isCall || model.Unthunk(c.Call.StaticCallee()) == nil || !strings.HasSuffix(m.FuncName(model.Unthunk(c.Call.StaticCallee())), ".cmp") {
				return false
			}
			if si == 1 {
				op = negOp[op]
			}
			return (op == token.GTR && k == 0) || (op == token.GEQ && k == 1)
		}
		cmpEdge := func(b *ssa.BasicBlock) (cmpIf bool) {
			if len(b.Instrs) == 0 {
				return false
			}
			ifi, ok := b.Instrs[len(b.Instrs)-1].(*ssa.If)
			if !ok {
				return false
			}
			bo, ok := ifi.Cond.(*ssa.BinOp)
			if !ok {
				return false
			}
			for _, v := range []ssa.Value{bo.X, bo.Y} {
				if c, isCall := stripConv(v).(*ssa.Call); isCall && model.Unthunk(c.Call.StaticCallee()) != nil && strings.HasSuffix(m.FuncName(model.Unthunk(c.Call.StaticCallee())), ".cmp") {
					return true
				}
			}
			return false
		}
		behindStrict := func(at *ssa.BasicBlock) bool {
			for _, gb := range fn.Blocks {
				if !live[gb.Index] {
					continue
				}
				for si := 0; si < len(gb.Succs) && si < 2; si++ {
					if strictGT(gb, si) && m.EdgeDominates(gb, si, at) {
						return true
					}
				}
			}
			return false
		}
		// decrements of an estimate
		nDec := 0
		for _, b := range fn.Blocks {
			if !live[b.Index] {
				continue
			}
			for _, in := range b.Instrs {
				nm, c := callName(in)
				if nm != "sub10VW" || len(c.Args) != 3 || !sameBuf(c.Args[0], c.Args[1]) {
					continue
				}
				if k, ok := model.ConstInt(c.Args[2]); !ok || k != 1 {
					continue
				}
				nDec++
				cn := fmt.Sprintf("dec.divRecursiveStep/step#%d", nDec)
				bad := ""
				if !behindStrict(b) {
					bad = m.InstrPos(in) + ": the estimate is decremented on a path that has not found the partial product strictly larger than the rest of the dividend (when they are equal the remainder is 0 and the estimate is right)"
				}
				// completed on every way out of the region the decrement dominates
				need := map[string]bool{"sub10VV": false, "decAddAt": false}
				for name := range need {
					// every path from the decrement to a block it does not dominate (or a return) meets the call
					found := mustMeet(m, fn, live, b, in, func(x ssa.Instruction) bool {
						n2, _ := callName(x)
						return n2 == name
					})
					if !found && bad == "" {
						what := map[string]string{"sub10VV": "the divisor's low part is not taken off the partial product (sub10VV)", "decAddAt": "the divisor's high part is not given back to the dividend (decAddAt)"}[name]
						bad = m.InstrPos(in) + ": the estimate is decremented but on some way out of the correction " + what + ": product, dividend and quotient no longer belong together"
					}
				}
				s.Check(bad == "", R, cn, m.InstrPos(in), "behind cmp > 0, completed by sub10VV of the low part and decAddAt of the high part on every way out", bad)
			}
		}
		// the borrow of the low-part subtraction goes into the words above s: exactly where there are any
		nb := 0
		for _, b := range fn.Blocks {
			if !live[b.Index] {
				continue
			}
			for _, in := range b.Instrs {
				nm, c := callName(in)
				if nm != "sub10VW" || len(c.Args) != 3 || !sameSliceExpr(c.Args[0], c.Args[1]) {
					continue
				}
				sl, ok := stripConvAny(c.Args[0]).(*ssa.Slice)
				if !ok || sl.Low == nil || sl.High != nil {
					continue
				}
				if bc, isCall := stripConv(c.Args[2]).(*ssa.Call); !isCall || model.Unthunk(bc.Call.StaticCallee()) == nil || model.Unthunk(bc.Call.StaticCallee()).Name() != "sub10VV" {
					continue
				}
				// comparisons of len(base) with the cut
				for _, gb := range fn.Blocks {
					if !live[gb.Index] || len(gb.Instrs) == 0 {
						continue
					}
					ifi, ok := gb.Instrs[len(gb.Instrs)-1].(*ssa.If)
					if !ok {
						continue
					}
					bo, ok := ifi.Cond.(*ssa.BinOp)
					if !ok {
						continue
					}
					x, y, op := bo.X, bo.Y, bo.Op
					isLenOf := func(v ssa.Value) bool {
						lc, ok := stripConv(v).(*ssa.Call)
						return ok && model.BuiltinName(&lc.Call) == "len" && (stripConvAny(lc.Call.Args[0]) == stripConvAny(sl.X) || sameSliceExpr(lc.Call.Args[0], sl.X))
					}
					isCut := func(v ssa.Value) bool {
						return stripConv(v) == stripConv(sl.Low) || structEq(stripConv(v), stripConv(sl.Low), 3)
					}
					if isLenOf(y) && isCut(x) {
						x, y, op = y, x, mirrorOpTok[op]
					}
					if !isLenOf(x) || !isCut(y) {
						continue
					}
					for si := 0; si < 2; si++ {
						if !m.EdgeDominates(gb, si, b) {
							continue
						}
						o := op
						if si == 1 {
							o = negOp[o]
						}
						nb++
						s.Check(o == token.GTR || o == token.GEQ || o == token.NEQ, R, fmt.Sprintf("dec.divRecursiveStep/borrow#%d", nb), m.InstrPos(in), "the borrow is carried into the upper words where the product has upper words", "the borrow of the low-part subtraction is carried into the upper words of the product on the path on which the product was found to have none (and dropped where it has some)")
					}
				}
			}
		}
		// compensations without a decrement
		nWin := 0
		for _, b := range fn.Blocks {
			if !live[b.Index] {
				continue
			}
			for _, in := range b.Instrs {
				nm, c := callName(in)
				if nm != "decAddAt" || len(c.Args) != 3 {
					continue
				}
				if k, ok := model.ConstInt(c.Args[2]); !ok || k != 0 {
					continue
				}
				// a give-back at offset 0 of a high part: one of the corrections
				if _, isSl := stripConvAny(c.Args[1]).(*ssa.Slice); !isSl {
					continue
				}
				if sl, isSl := stripConvAny(c.Args[0]).(*ssa.Slice); !isSl || sl.Low == nil {
					continue
				}
				hasDec := false
				for _, b2 := range fn.Blocks {
					for _, in2 := range b2.Instrs {
						n2, c2 := callName(in2)
						if n2 == "sub10VW" && len(c2.Args) == 3 && sameBuf(c2.Args[0], c2.Args[1]) {
							if k, ok := model.ConstInt(c2.Args[2]); ok && k == 1 && m.Dominates(b2, b) {
								hasDec = true
							}
						}
					}
				}
				cn := fmt.Sprintf("dec.divRecursiveStep/give-back@%s", strings.TrimPrefix(m.InstrPos(in), "dec.go:"))
				_ = cn
				// the window given back to is the window that was compared: root slice and the sum of the
				// cut points agree (the compared window's offset plus the split of the divisor). Only a
				// cut point that is missing from the destination and provably positive is a definite
				// difference; everything the decomposition cannot match is left alone.
				if vsl, isSl := stripConvAny(c.Args[1]).(*ssa.Slice); isSl {
					rootD, offsD := gbDecomp(m, c.Args[0])
					for _, gb := range fn.Blocks {
						if !live[gb.Index] {
							continue
						}
						for si := 0; si < len(gb.Succs) && si < 2; si++ {
							if !strictGT(gb, si) || !m.EdgeDominates(gb, si, b) {
								continue
							}
							bo := gb.Instrs[len(gb.Instrs)-1].(*ssa.If).Cond.(*ssa.BinOp)
							var cc *ssa.Call
							for _, v := range []ssa.Value{bo.X, bo.Y} {
								if x, ok := stripConv(v).(*ssa.Call); ok {
									cc = x
								}
							}
							if cc == nil || len(cc.Call.Args) != 2 {
								continue
							}
							rootY, want := gbDecomp(m, cc.Call.Args[1])
							if rootY != rootD {
								continue
							}
							if vsl.Low != nil {
								if k, ok := model.ConstInt(vsl.Low); !ok || k != 0 {
									want = append(want, vsl.Low)
								}
							}
							have := append([]ssa.Value(nil), offsD...)
							var missing []ssa.Value
							for _, w := range want {
								found := false
								for i, h := range have {
									if h != nil && (stripConv(h) == stripConv(w) || structEq(stripConv(h), stripConv(w), 3)) {
										have[i], found = nil, true
										break
									}
								}
								if !found {
									missing = append(missing, w)
								}
							}
							extra := 0
							for _, h := range have {
								if h != nil {
									extra++
								}
							}
							if extra != 0 {
								continue // re-expressed offsets: not decided here
							}
							definite := len(missing) > 0
							for _, w := range missing {
								if !gbPositive(m, fn, live, w, b) {
									definite = false
								}
							}
							if len(missing) == 0 || definite {
								nWin++
								s.Check(len(missing) == 0, R, fmt.Sprintf("dec.divRecursiveStep/window#%d", nWin), m.InstrPos(in), "the divisor's high part is given back to the window of the dividend that the comparison looked at", "the divisor's high part is given back at a different place of the dividend than the window that was compared with the partial product (a cut point of the compared window, positive on this path, is missing from the destination)")
							}
						}
					}
				}
				if !hasDec {
					s.Bad(R, "dec.divRecursiveStep/give-back", m.InstrPos(in), m.InstrPos(in)+": the divisor's high part is given back to the dividend without the estimate having been decremented on the way: dividend and quotient no longer belong together")
				}
			}
		}
		// "impossible" panics behind a comparison: behind the strict one
		np := 0
		for _, b := range fn.Blocks {
			if !live[b.Index] || len(b.Instrs) == 0 {
				continue
			}
			if _, isPanic := b.Instrs[len(b.Instrs)-1].(*ssa.Panic); !isPanic {
				continue
			}
			for _, p := range m.LivePreds(b) {
				if !cmpEdge(p) {
					continue
				}
				np++
				si := 0
				if len(p.Succs) > 1 && p.Succs[1] == b {
					si = 1
				}
				s.Check(strictGT(p, si), R, fmt.Sprintf("dec.divRecursiveStep/impossible#%d", np), m.InstrPos(p.Instrs[len(p.Instrs)-1]), "the panic is behind cmp > 0", "the division panics on a path that has not found the partial product strictly larger than the dividend: equal operands (remainder 0) are a legal outcome")
			}
		}
	}
}

// mustMeet: every path that starts behind instruction `from` (in block b) and leaves the region b
// dominates — or returns — meets an instruction for which hit holds.
func mustMeet(m *model.Model, fn *ssa.Function, live []bool, b *ssa.BasicBlock, from ssa.Instruction, hit func(ssa.Instruction) bool) bool {
	// rest of the block
	after := false
	for _, in := range b.Instrs {
		if in == from {
			after = true
			continue
		}
		if after && hit(in) {
			return true
		}
	}
	seen := map[int]bool{}
	var walk func(x *ssa.BasicBlock) bool
	walk = func(x *ssa.BasicBlock) bool {
		if !live[x.Index] {
			return true
		}
		if !m.Dominates(b, x) || x == b {
			return false // left the region (or came round) without meeting it
		}
		if seen[x.Index] {
			return true
		}
		seen[x.Index] = true
		for _, in := range x.Instrs {
			if hit(in) {
				return true
			}
			switch in.(type) {
			case *ssa.Return:
				return false
			case *ssa.Panic:
				return true
			}
		}
		for _, e := range model.LiveSuccs(x) {
			if !walk(e.To) {
				return false
			}
		}
		return true
	}
	for _, e := range model.LiveSuccs(b) {
		if !walk(e.To) {
			return false
		}
	}
	return true
}

// runQhatTest (test-strict): Knuth's step D3 lowers the estimate while q̂·v₂ > b·r̂ + u₂, a strict
// comparison of two double words. Where that comparison is a helper of four words, the helper is
// evaluated on the nine orderings of (high, high) and (low, low): it must be true exactly for
// high > high, or equal highs and low > low. With >= an exact estimate is lowered once more and
// nothing adds it back.
func runQhatTest(m *model.Model, s *ob.Set) {
	const R = "QHAT"
	n := 0
	for _, fn := range m.Funcs {
		if !m.InDecimalPkg(fn) || len(fn.Blocks) == 0 || inKernelLayer(m, fn) || fn.Synthetic != "" {
			continue
		}
		live := m.Live(fn)
		for _, hb := range fn.Blocks {
			if !live[hb.Index] || len(hb.Instrs) == 0 {
				continue
			}
			ifi, ok := hb.Instrs[len(hb.Instrs)-1].(*ssa.If)
			if !ok {
				continue
			}
			call, ok := ifi.Cond.(*ssa.Call)
			if !ok {
				continue
			}
			g := model.Unthunk(call.Call.StaticCallee())
			if g == nil || !m.InDecimalPkg(g) || len(g.Params) != 4 || len(g.Blocks) == 0 || g.Signature.Results().Len() != 1 {
				continue
			}
			allW := true
			for _, p := range g.Params {
				if !m.IsWord(p.Type()) {
					allW = false
				}
			}
			if b, isB := g.Signature.Results().At(0).Type().Underlying().(*types.Basic); !allW || !isB || b.Kind() != types.Bool {
				continue
			}
			// the loop this test controls lowers a word by one
			if !blockReaches(hb.Succs[0], hb) {
				continue
			}
			dec := false
			for _, lb := range fn.Blocks {
				if !(m.Dominates(hb.Succs[0], lb) && blockReaches(lb, hb)) {
					continue
				}
				for _, in := range lb.Instrs {
					if bo, ok := in.(*ssa.BinOp); ok && bo.Op == token.SUB && m.IsWord(bo.Type()) {
						if k, ok := model.ConstInt(bo.Y); ok && k == 1 {
							dec = true
						}
					}
				}
			}
			if !dec {
				continue
			}
			n++
			cn := fmt.Sprintf("%s/test-strict#%d", m.FuncName(fn), n)
			bad, undecided := "", 0
			names := []string{"x1", "x2", "y1", "y2"}
			for r1 := -1; r1 <= 1; r1++ {
				for r2 := -1; r2 <= 1; r2++ {
					it := cdai.New(m)
					it.Budget = 20000
					rel := map[[2]string]int{{"x1", "y1"}: r1, {"x2", "y2"}: r2}
					it.BinHook = func(op token.Token, a, b cdai.Val) (cdai.Val, bool) {
						sa, ok1 := a.(cdai.Sym)
						sb, ok2 := b.(cdai.Sym)
						if !ok1 || !ok2 {
							return nil, false
						}
						if _, isCmp := negOp[op]; !isCmp {
							return nil, false
						}
						if r, ok := rel[[2]string{sa.Name, sb.Name}]; ok {
							return cdai.Bool(cmpInt(int64(r), op, 0)), true
						}
						if r, ok := rel[[2]string{sb.Name, sa.Name}]; ok {
							return cdai.Bool(cmpInt(int64(-r), op, 0)), true
						}
						return nil, false
					}
					// the borrow of a subtraction of two related words: a < b + borrow-in
					subModel := func(_ *cdai.Interp, _ *cdai.State, _ string, a []cdai.Val) ([]cdai.Val, bool) {
						if len(a) != 3 {
							return nil, false
						}
						sa, ok1 := a[0].(cdai.Sym)
						sb, ok2 := a[1].(cdai.Sym)
						bin, ok3 := cdai.ConstInt(a[2])
						if !ok1 || !ok2 || !ok3 || (bin != 0 && bin != 1) {
							return nil, false
						}
						r, ok := rel[[2]string{sa.Name, sb.Name}]
						if !ok {
							if r2, ok2 := rel[[2]string{sb.Name, sa.Name}]; ok2 {
								r, ok = -r2, true
							}
						}
						if !ok {
							return nil, false
						}
						out := int64(0)
						if r < 0 || (r == 0 && bin == 1) {
							out = 1
						}
						return []cdai.Val{cdai.Tuple{cdai.TopV, cdai.Int(out)}}, true
					}
					it.Models["math/bits.Sub"] = subModel
					it.Models["math/bits.Sub64"] = subModel
					it.Models["math/bits.Sub32"] = subModel
					var args []cdai.Val
					for _, nm := range names {
						args = append(args, cdai.Sym{Name: nm})
					}
					var outs []cdai.Outcome
					func() {
						defer func() {
							if recover() != nil {
								outs = nil
							}
						}()
						outs = it.Run(g, args, cdai.NewState())
					}()
					want := r1 > 0 || (r1 == 0 && r2 > 0)
					decided := len(outs) > 0
					for _, o := range outs {
						v, ok := retBool(o, 0)
						if !ok || len(o.St.Imprec) > 0 {
							decided = false
							break
						}
						if v != want && bad == "" {
							sym := map[int]string{-1: "<", 0: "=", 1: ">"}
							bad = fmt.Sprintf("%s is %v for high %s high, low %s low; the estimate is lowered only while the product is strictly greater (want %v)", g.Name(), v, sym[r1], sym[r2], want)
						}
					}
					if !decided {
						undecided++
					}
				}
			}
			switch {
			case bad != "":
				s.Bad(R, cn, m.InstrPos(call), bad+": on equality q̂ is exact, lowering it leaves a quotient word one too small and a remainder not below the divisor")
			case undecided > 0:
				s.Note(R, cn, m.InstrPos(call), fmt.Sprintf("%s could not be evaluated on %d of the 9 orderings (it does not decide by comparing the words pairwise): not decided", g.Name(), undecided))
			default:
				s.Ok(R, cn, m.InstrPos(call), g.Name()+" is the strict comparison of two double words on all 9 orderings")
			}
		}
	}
	if n == 0 {
		s.Note(R, "test-strict", "-", "no loop that lowers a word under a four-word comparison helper (the test is written in place or differently; not decided)")
	}
}

// staleEdgeLeavesLoop: edge k of the φ e2 (a join inside the loop with header hb) is taken on one
// outcome of a condition c, and the loop header's own test is a φ whose value along back edge i is
// that same c, leaving the loop on that outcome.
func staleEdgeLeavesLoop(m *model.Model, hb *ssa.BasicBlock, e2 *ssa.Phi, k, i int) bool {
	L := e2.Block()
	if k >= len(L.Preds) {
		return false
	}
	P := L.Preds[k]
	ifOf := func(b *ssa.BasicBlock) *ssa.If {
		if len(b.Instrs) == 0 {
			return nil
		}
		x, _ := b.Instrs[len(b.Instrs)-1].(*ssa.If)
		return x
	}
	var G *ssa.BasicBlock
	pol := -1
	if gi := ifOf(P); gi != nil && P.Succs[0] != P.Succs[1] {
		G = P
		if P.Succs[0] == L {
			pol = 0
		} else if P.Succs[1] == L {
			pol = 1
		}
	} else if len(P.Preds) == 1 && ifOf(P.Preds[0]) != nil {
		G = P.Preds[0]
		if G.Succs[0] == P {
			pol = 0
		} else if G.Succs[1] == P {
			pol = 1
		}
	}
	if G == nil || pol < 0 {
		return false
	}
	c := ifOf(G).Cond
	hi := ifOf(hb)
	if hi == nil {
		return false
	}
	F, ok := hi.Cond.(*ssa.Phi)
	if !ok || F.Block() != hb || i >= len(F.Edges) || F.Edges[i] != c {
		return false
	}
	taken := hb.Succs[pol]
	inLoop := taken == hb || (m.Dominates(hb, taken) && blockReaches(taken, hb))
	return !inLoop
}

// backEdgeLeavesLoop: back edge i of the loop header hb comes straight from a block that branches
// on a condition c, and the header's own test is a φ whose value along that edge is c, leaving the
// loop on the outcome on which the edge is taken: what else is carried along that edge is not read.
func backEdgeLeavesLoop(m *model.Model, hb *ssa.BasicBlock, i int) bool {
	if i >= len(hb.Preds) || len(hb.Instrs) == 0 {
		return false
	}
	P := hb.Preds[i]
	if len(P.Instrs) == 0 {
		return false
	}
	pi, ok := P.Instrs[len(P.Instrs)-1].(*ssa.If)
	if !ok || P.Succs[0] == P.Succs[1] {
		return false
	}
	pol := -1
	if P.Succs[0] == hb {
		pol = 0
	} else if P.Succs[1] == hb {
		pol = 1
	}
	hi, ok := hb.Instrs[len(hb.Instrs)-1].(*ssa.If)
	if !ok || pol < 0 {
		return false
	}
	F, ok := hi.Cond.(*ssa.Phi)
	if !ok || F.Block() != hb || i >= len(F.Edges) || F.Edges[i] != pi.Cond {
		return false
	}
	taken := hb.Succs[pol]
	inLoop := taken == hb || (m.Dominates(hb, taken) && blockReaches(taken, hb))
	return !inLoop
}

// gbDecomp follows slicings and norm() calls from v to the slice they start from and collects the
// non-zero low cut points on the way.
func gbDecomp(m *model.Model, v ssa.Value) (ssa.Value, []ssa.Value) {
	var offs []ssa.Value
	for {
		v = stripConvAny(v)
		switch x := v.(type) {
		case *ssa.Slice:
			if x.Low != nil {
				if k, ok := model.ConstInt(x.Low); !ok || k != 0 {
					offs = append(offs, x.Low)
				}
			}
			v = x.X
			continue
		case *ssa.Call:
			if cal := model.Unthunk(x.Call.StaticCallee()); cal != nil && strings.HasSuffix(m.FuncName(cal), ".norm") && len(x.Call.Args) == 1 {
				v = x.Call.Args[0]
				continue
			}
		}
		return v, offs
	}
}

// gbPositive: w is a difference a-b and an edge that dominates at establishes a > b.
func gbPositive(m *model.Model, fn *ssa.Function, live []bool, w ssa.Value, at *ssa.BasicBlock) bool {
	d, ok := stripConv(w).(*ssa.BinOp)
	if !ok || d.Op != token.SUB {
		return false
	}
	same := func(p, q ssa.Value) bool {
		return stripConv(p) == stripConv(q) || structEq(stripConv(p), stripConv(q), 3)
	}
	for _, gb := range fn.Blocks {
		if !live[gb.Index] || len(gb.Instrs) == 0 {
			continue
		}
		ifi, ok := gb.Instrs[len(gb.Instrs)-1].(*ssa.If)
		if !ok {
			continue
		}
		bo, ok := ifi.Cond.(*ssa.BinOp)
		if !ok {
			continue
		}
		for si := 0; si < 2 && si < len(gb.Succs); si++ {
			op := bo.Op
			if si == 1 {
				op = negOp[op]
			}
			if !m.EdgeDominates(gb, si, at) {
				continue
			}
			if (op == token.GTR && same(bo.X, d.X) && same(bo.Y, d.Y)) || (op == token.LSS && same(bo.X, d.Y) && same(bo.Y, d.X)) {
				return true
			}
		}
	}
	return false
}
