// Package rules holds the static rules (engines E1–E10 of DESIGN.md). A rule
// is a pure function of the program model; it only emits obligations.
package rules

import (
	"sort"

	"decverif/internal/model"
	"decverif/internal/ob"
)

type Rule struct {
	Name    string
	Doc     string
	Floor   int      // minimum number of obligations expected on configuration amd64 (0 = no floor)
	Configs []string // configurations in which the rule is meaningful (nil = all)
	Run     func(m *model.Model, s *ob.Set)
}

var registry = map[string]*Rule{}

func Register(r *Rule) {
	if _, dup := registry[r.Name]; dup {
		panic("duplicate rule " + r.Name)
	}
	registry[r.Name] = r
}

func Get(name string) *Rule { return registry[name] }

func Names() []string {
	var n []string
	for k := range registry {
		n = append(n, k)
	}
	sort.Strings(n)
	return n
}

func (r *Rule) AppliesTo(cfg string) bool {
	if r.Configs == nil {
		return true
	}
	for _, c := range r.Configs {
		if c == cfg {
			return true
		}
	}
	return false
}
