// Package cdai is engine E4: a finite-domain abstract interpreter over the
// SSA form. Abstract values are compile-time constants, references to a
// handful of abstract Decimal objects, or ⊤. Branches on known conditions
// follow one edge, branches on ⊤ fork. Mantissas, lengths and everything
// computed by the dec layer are ⊤. It is constant propagation with branch
// pruning and path forking over declared finite inputs — not execution of
// the library.
package cdai

import (
	"fmt"
	"go/constant"
	"go/token"
	"go/types"
	"sort"
	"strings"

	"golang.org/x/tools/go/ssa"

	"decverif/internal/model"
)

type Val interface{}

type Top struct{}
type Const struct{ V constant.Value } // V == nil: nil pointer / slice / interface
type Obj struct{ ID int }             // pointer to an abstract Decimal
type Fld struct{ Obj, F int }         // &obj.field
type Cell struct{ ID int }            // address of a local variable cell
type Iface struct {
	Dyn string // dynamic type
	V   Val
}
type Tuple []Val
type Arr struct{ Base, N int } // address of a small local array: cells Base .. Base+N-1
type Lit []Val                 // a slice of a small local array, as it was when it was sliced
type ElemRef struct{ V Val }   // address of an element of a Lit (read-only)
type Sym struct{ Name string } // a named opaque input (a float64 parameter, a *big.Float, ...)

var TopV = Top{}

func Int(i int64) Val  { return Const{constant.MakeInt64(i)} }
func Bool(b bool) Val  { return Const{constant.MakeBool(b)} }
func IsTop(v Val) bool { _, ok := v.(Top); return ok || v == nil }

func Str(v Val) string {
	switch v := v.(type) {
	case nil, Top:
		return "T"
	case Const:
		if v.V == nil {
			return "nil"
		}
		return v.V.ExactString()
	case Obj:
		return fmt.Sprintf("#%d", v.ID)
	case Fld:
		return fmt.Sprintf("&#%d.%d", v.Obj, v.F)
	case Cell:
		return fmt.Sprintf("cell%d", v.ID)
	case Iface:
		return "iface(" + v.Dyn + ")"
	case Sym:
		return "$" + v.Name
	case Tuple:
		var s []string
		for _, x := range v {
			s = append(s, Str(x))
		}
		return "(" + strings.Join(s, ",") + ")"
	case Lit:
		var s []string
		for _, x := range v {
			s = append(s, Str(x))
		}
		return "[" + strings.Join(s, ",") + "]"
	case Arr:
		return fmt.Sprintf("arr%d", v.Base)
	}
	return fmt.Sprintf("%v", v)
}

// ConstInt extracts an int64 from a constant value.
func ConstInt(v Val) (int64, bool) {
	c, ok := v.(Const)
	if !ok || c.V == nil || c.V.Kind() != constant.Int {
		return 0, false
	}
	i, exact := constant.Int64Val(c.V)
	return i, exact
}

func ConstBool(v Val) (bool, bool) {
	c, ok := v.(Const)
	if !ok || c.V == nil || c.V.Kind() != constant.Bool {
		return false, false
	}
	return constant.BoolVal(c.V), true
}

// Event is one entry of a path's trace: a traced or opaque call.
type Event struct {
	Fn   string // construct name of the callee
	Args []Val
	Recv [8]Val // snapshot of the first Decimal argument's fields at call time
	Has  bool   // Recv valid
	Ret  Val    // value a model returned (for modelled calls)
	NDec int    // number of decisions the path had taken when the call was made
}

func (e Event) String() string {
	var a []string
	for _, x := range e.Args {
		a = append(a, Str(x))
	}
	s := e.Fn + "(" + strings.Join(a, ",") + ")"
	if e.Ret != nil {
		s += "=" + Str(e.Ret)
	}
	return s
}

// Decision is one fork of a path: the comparison X Op Y was not known and the path took the edge
// on which it is Taken.
type Decision struct {
	Op    token.Token
	X, Y  Val
	Taken bool
}

// State is the abstract heap plus the path's history.
type State struct {
	Heap    map[int]*[8]Val
	ver     map[[2]int]int
	Cells   map[int]Val
	Trace   []Event
	Forks   []string
	Decs    []Decision // the comparisons this path forked on, with the abstract operands
	Counter map[string]int
	Imprec  []string // reasons this path is not trustworthy
	ids     *int
}

func NewState() *State {
	n := 0
	return &State{Heap: map[int]*[8]Val{}, ver: map[[2]int]int{}, Cells: map[int]Val{}, Counter: map[string]int{}, ids: &n}
}

func (s *State) Clone() *State {
	n := &State{Heap: make(map[int]*[8]Val, len(s.Heap)), ver: make(map[[2]int]int, len(s.ver)), Cells: make(map[int]Val, len(s.Cells)), Counter: make(map[string]int, len(s.Counter)), ids: s.ids}
	for k, v := range s.Heap {
		c := *v
		n.Heap[k] = &c
	}
	for k, v := range s.ver {
		n.ver[k] = v
	}
	for k, v := range s.Cells {
		n.Cells[k] = v
	}
	for k, v := range s.Counter {
		n.Counter[k] = v
	}
	n.Trace = append([]Event(nil), s.Trace...)
	n.Forks = append([]string(nil), s.Forks...)
	n.Decs = append([]Decision(nil), s.Decs...)
	n.Imprec = append([]string(nil), s.Imprec...)
	return n
}

// NewObj allocates an abstract Decimal whose fields are all ⊤.
func (s *State) NewObj() Obj {
	*s.ids++
	var f [8]Val
	for i := range f {
		f[i] = TopV
	}
	s.Heap[*s.ids] = &f
	return Obj{*s.ids}
}

func (s *State) Set(o Obj, f int, v Val) {
	s.Heap[o.ID][f] = v
	s.ver[[2]int{o.ID, f}]++
}
func (s *State) Get(o Obj, f int) Val {
	v := s.Heap[o.ID][f]
	if v == nil {
		return TopV
	}
	return v
}

type Outcome struct {
	Kind string // return | panic | diverge
	Vals []Val
	St   *State
}

// ModelFunc intercepts a call. It returns the possible results (one state per
// result; the interpreter forks) and true, or false to decline.
type ModelFunc func(it *Interp, st *State, name string, args []Val) ([]Val, bool)

type Interp struct {
	M       *model.Model
	Opaque  map[string]bool // construct names never inlined
	Inline  map[string]bool // additional non-method functions to inline
	Traced  map[string]bool // construct names whose calls are recorded even when inlined
	Models  map[string]ModelFunc
	BinHook func(op token.Token, x, y Val) (Val, bool)
	// StHook is asked before BinHook, with the path's state (its decisions so far): a comparison the
	// path has already decided need not fork again
	StHook func(st *State, op token.Token, x, y Val) (Val, bool)
	// GlobalSyms: a load of a package-level variable yields the named unknown "global:<pkg>.<name>"
	GlobalSyms bool
	Budget     int
	LoopBound  int // visits of one block along a path before the path is given up (default 4)
	Steps      int
	MaxDep     int
}

func New(m *model.Model) *Interp {
	return &Interp{M: m, Opaque: map[string]bool{}, Inline: map[string]bool{}, Traced: map[string]bool{}, Models: map[string]ModelFunc{}, Budget: 400000, MaxDep: 10}
}

type frame struct {
	fn     *ssa.Function
	env    map[ssa.Value]Val
	origin map[ssa.Value][3]int // loaded value -> (obj, field, version)
}

func (f *frame) clone() *frame {
	n := &frame{fn: f.fn, env: make(map[ssa.Value]Val, len(f.env)), origin: make(map[ssa.Value][3]int, len(f.origin))}
	for k, v := range f.env {
		n.env[k] = v
	}
	for k, v := range f.origin {
		n.origin[k] = v
	}
	return n
}

func (it *Interp) val(fr *frame, v ssa.Value) Val {
	switch v := v.(type) {
	case *ssa.Const:
		if v.Value == nil {
			// nil pointer/slice/interface, or the zero value of an aggregate
			return Const{nil}
		}
		return Const{v.Value}
	case *ssa.Global, *ssa.Function, *ssa.Builtin:
		return TopV
	}
	if x, ok := fr.env[v]; ok {
		return x
	}
	return TopV
}

// Run interprets fn on args in state st and returns all path outcomes.
func (it *Interp) Run(fn *ssa.Function, args []Val, st *State) []Outcome {
	return it.run(fn, args, st, 0)
}

func (it *Interp) run(fn *ssa.Function, args []Val, st *State, depth int) []Outcome {
	if len(fn.Blocks) == 0 {
		model.Fatal("cdai: cannot interpret body-less function %s", it.M.FuncName(fn))
	}
	if depth > it.MaxDep {
		model.Fatal("cdai: inlining depth exceeded at %s", it.M.FuncName(fn))
	}
	fr := &frame{fn: fn, env: map[ssa.Value]Val{}, origin: map[ssa.Value][3]int{}}
	for i, p := range fn.Params {
		if i < len(args) {
			fr.env[p] = args[i]
		}
	}
	return it.exec(fr, fn.Blocks[0], 0, nil, st, depth, map[int]int{})
}

func cloneVisits(v map[int]int) map[int]int {
	n := make(map[int]int, len(v))
	for k, x := range v {
		n[k] = x
	}
	return n
}

func (it *Interp) exec(fr *frame, b *ssa.BasicBlock, start int, pred *ssa.BasicBlock, st *State, depth int, visits map[int]int) []Outcome {
	it.Steps++
	if it.Steps > it.Budget {
		model.Fatal("cdai: path budget (%d block visits) exhausted in %s", it.Budget, it.M.FuncName(fr.fn))
	}
	if start == 0 {
		visits[b.Index]++
		lb := it.LoopBound
		if lb == 0 {
			lb = 4
		}
		if visits[b.Index] > lb {
			return []Outcome{{Kind: "diverge", St: st}}
		}
	}
	for idx := start; idx < len(b.Instrs); idx++ {
		switch ins := b.Instrs[idx].(type) {
		case *ssa.Phi:
			for i, p := range b.Preds {
				if p == pred {
					fr.env[ins] = it.val(fr, ins.Edges[i])
					if o, ok := fr.origin[ins.Edges[i]]; ok {
						fr.origin[ins] = o
					}
					break
				}
			}
		case *ssa.DebugRef:
		case *ssa.Alloc:
			et := ins.Type().(*types.Pointer).Elem()
			if n, ok := et.(*types.Named); ok && n.Obj() == it.M.Decimal.Obj() {
				o := st.NewObj()
				for f := range it.M.FieldN {
					st.Set(o, f, it.zeroOfField(f))
				}
				fr.env[ins] = o
			} else if at, ok := et.Underlying().(*types.Array); ok && at.Len() >= 1 && at.Len() <= 128 {
				base := *st.ids + 1
				for i := int64(0); i < at.Len(); i++ {
					*st.ids++
					st.Cells[*st.ids] = it.zeroOf(at.Elem())
				}
				fr.env[ins] = Arr{Base: base, N: int(at.Len())}
			} else {
				*st.ids++
				st.Cells[*st.ids] = it.zeroOf(et)
				fr.env[ins] = Cell{*st.ids}
			}
		case *ssa.FieldAddr:
			switch x := it.val(fr, ins.X).(type) {
			case Obj:
				fr.env[ins] = Fld{x.ID, ins.Field}
			default:
				fr.env[ins] = TopV
			}
		case *ssa.UnOp:
			x := it.val(fr, ins.X)
			switch ins.Op {
			case token.MUL:
				switch a := x.(type) {
				case Fld:
					fr.env[ins] = st.Get(Obj{a.Obj}, a.F)
					fr.origin[ins] = [3]int{a.Obj, a.F, st.ver[[2]int{a.Obj, a.F}]}
				case Cell:
					v, ok := st.Cells[a.ID]
					if !ok {
						v = TopV
					}
					fr.env[ins] = v
				case ElemRef:
					fr.env[ins] = a.V
				case Arr:
					// the value of a small local array (copied as a whole: x := [...]T{…})
					l := make(Lit, a.N)
					for i := range l {
						l[i] = st.Cells[a.Base+i]
					}
					fr.env[ins] = l
				case Sym:
					// *(&name[k]): the k-th element of an opaque sequence
					if strings.HasPrefix(a.Name, "&") {
						fr.env[ins] = Sym{a.Name[1:]}
					} else {
						fr.env[ins] = TopV
					}
				default:
					fr.env[ins] = TopV
					if g, ok := ins.X.(*ssa.Global); ok && it.GlobalSyms && g.Pkg != nil {
						// the value of a package-level variable as a named unknown (error sentinels)
						fr.env[ins] = Sym{"global:" + g.Pkg.Pkg.Path() + "." + g.Name()}
						continue
					}
					// an entry of a package-level constant table at constant indexes
					// (mulForms[x.form][y.form])
					if v, ok := it.tableEntry(fr, ins); ok {
						fr.env[ins] = v
					}
				}
			case token.NOT:
				if bv, ok := ConstBool(x); ok {
					fr.env[ins] = Bool(!bv)
				} else {
					fr.env[ins] = TopV
				}
			case token.SUB:
				if c, ok := x.(Const); ok && c.V != nil && c.V.Kind() == constant.Int {
					fr.env[ins] = wrap(constant.UnaryOp(token.SUB, c.V, 0), ins.Type())
				} else {
					fr.env[ins] = TopV
					if it.BinHook != nil {
						if v, ok := it.BinHook(token.SUB, Int(0), x); ok {
							fr.env[ins] = v
						}
					}
				}
			default:
				fr.env[ins] = TopV
			}
		case *ssa.BinOp:
			x, y := it.val(fr, ins.X), it.val(fr, ins.Y)
			if it.StHook != nil {
				if v, ok := it.StHook(st, ins.Op, x, y); ok {
					fr.env[ins] = v
					continue
				}
			}
			if it.BinHook != nil {
				if v, ok := it.BinHook(ins.Op, x, y); ok {
					fr.env[ins] = v
					continue
				}
			}
			fr.env[ins] = binop(ins.Op, x, y, ins.Type())
		case *ssa.Store:
			switch a := it.val(fr, ins.Addr).(type) {
			case Fld:
				st.Set(Obj{a.Obj}, a.F, it.val(fr, ins.Val))
			case Cell:
				st.Cells[a.ID] = it.val(fr, ins.Val)
			case Arr:
				if l, ok := it.val(fr, ins.Val).(Lit); ok && len(l) == a.N {
					for i := range l {
						st.Cells[a.Base+i] = l[i]
					}
				} else {
					for i := 0; i < a.N; i++ {
						st.Cells[a.Base+i] = TopV
					}
				}
			case Obj:
				// *z = Decimal{}: whole-object store of the zero value
				if c, ok := ins.Val.(*ssa.Const); ok && c.Value == nil {
					for f := range it.M.FieldN {
						st.Set(a, f, it.zeroOfField(f))
					}
				} else {
					for f := range it.M.FieldN {
						st.Set(a, f, TopV)
					}
				}
			default:
				// store through an unknown address: a problem only if it may hit a Decimal
				if fa, ok := ins.Addr.(*ssa.FieldAddr); ok && it.M.IsDecPtr(fa.X.Type()) {
					st.Imprec = append(st.Imprec, "store to a field of an unknown Decimal at "+it.M.InstrPos(ins))
				} else if it.M.IsDecPtr(ins.Addr.Type()) {
					st.Imprec = append(st.Imprec, "store through an unknown *Decimal at "+it.M.InstrPos(ins))
				}
			}
		case *ssa.IndexAddr:
			fr.env[ins] = TopV
			switch a := it.val(fr, ins.X).(type) {
			case Sym:
				if k, ok := ConstInt(it.val(fr, ins.Index)); ok {
					fr.env[ins] = Sym{fmt.Sprintf("&%s[%d]", a.Name, k)}
				} else if ix, ok := it.val(fr, ins.Index).(Sym); ok {
					fr.env[ins] = Sym{fmt.Sprintf("&%s[%s]", a.Name, ix.Name)}
				}
			case Arr:
				if k, ok := ConstInt(it.val(fr, ins.Index)); ok && k >= 0 && int(k) < a.N {
					fr.env[ins] = Cell{a.Base + int(k)}
				}
			case Lit:
				if k, ok := ConstInt(it.val(fr, ins.Index)); ok && k >= 0 && int(k) < len(a) {
					fr.env[ins] = ElemRef{a[k]}
				}
			}
		case *ssa.Slice:
			fr.env[ins] = TopV
			switch a := it.val(fr, ins.X).(type) {
			case Sym:
				if ins.Max != nil {
					break
				}
				bound := func(v ssa.Value) (string, bool) {
					if v == nil {
						return "", true
					}
					x := it.val(fr, v)
					if k, ok := ConstInt(x); ok {
						return fmt.Sprint(k), true
					}
					if sy, ok := x.(Sym); ok {
						return sy.Name, true
					}
					return "", false
				}
				lo, ok1 := bound(ins.Low)
				hi, ok2 := bound(ins.High)
				switch {
				case !ok1 || !ok2:
				case lo == "" && hi == "":
					fr.env[ins] = a
				default:
					fr.env[ins] = Sym{fmt.Sprintf("%s[%s:%s]", a.Name, lo, hi)}
				}
			case Arr:
				lo, hi := int64(0), int64(a.N)
				okB := ins.Max == nil
				if ins.Low != nil {
					if k, ok := ConstInt(it.val(fr, ins.Low)); ok {
						lo = k
					} else {
						okB = false
					}
				}
				if ins.High != nil {
					if k, ok := ConstInt(it.val(fr, ins.High)); ok {
						hi = k
					} else {
						okB = false
					}
				}
				if okB && 0 <= lo && lo <= hi && hi <= int64(a.N) {
					l := make(Lit, hi-lo)
					for i := range l {
						l[i] = st.Cells[a.Base+int(lo)+i]
					}
					fr.env[ins] = l
				}
			case Lit, Const:
				// a slice whose elements are known (or the nil slice), cut at constant bounds
				var l Lit
				if c, isC := a.(Const); isC {
					if c.V != nil && c.V.Kind() == constant.String && ins.Max == nil {
						// a constant string cut at constant bounds
						sv := constant.StringVal(c.V)
						lo, hi := int64(0), int64(len(sv))
						okB := true
						if ins.Low != nil {
							if k, ok := ConstInt(it.val(fr, ins.Low)); ok {
								lo = k
							} else {
								okB = false
							}
						}
						if ins.High != nil {
							if k, ok := ConstInt(it.val(fr, ins.High)); ok {
								hi = k
							} else {
								okB = false
							}
						}
						if okB && 0 <= lo && lo <= hi && hi <= int64(len(sv)) {
							fr.env[ins] = Const{constant.MakeString(sv[lo:hi])}
						}
						break
					}
					if c.V != nil {
						break
					}
				} else {
					l = a.(Lit)
				}
				lo, hi := int64(0), int64(len(l))
				okB := ins.Max == nil
				if ins.Low != nil {
					if k, ok := ConstInt(it.val(fr, ins.Low)); ok {
						lo = k
					} else {
						okB = false
					}
				}
				if ins.High != nil {
					if k, ok := ConstInt(it.val(fr, ins.High)); ok {
						hi = k
					} else {
						okB = false
					}
				}
				if okB && 0 <= lo && lo <= hi && hi <= int64(len(l)) {
					fr.env[ins] = append(Lit{}, l[lo:hi]...)
				}
			}
		case *ssa.ChangeType:
			fr.env[ins] = it.val(fr, ins.X)
		case *ssa.Convert:
			x := it.val(fr, ins.X)
			if c, ok := x.(Const); ok && c.V != nil && c.V.Kind() == constant.Int {
				fr.env[ins] = wrap(c.V, ins.Type())
			} else if _, ok := x.(Sym); ok {
				fr.env[ins] = x
			} else if c, ok := x.(Const); ok && c.V != nil && c.V.Kind() == constant.String && isByteSlice(ins.Type()) {
				// []byte("…") of a constant string
				sv := constant.StringVal(c.V)
				l := make(Lit, len(sv))
				for i := 0; i < len(sv); i++ {
					l[i] = Int(int64(sv[i]))
				}
				fr.env[ins] = l
			} else {
				fr.env[ins] = TopV
			}
		case *ssa.Lookup:
			// s[i] of a constant string at a constant index
			fr.env[ins] = TopV
			if c, ok := it.val(fr, ins.X).(Const); ok && c.V != nil && c.V.Kind() == constant.String {
				if k, ok := ConstInt(it.val(fr, ins.Index)); ok {
					if sv := constant.StringVal(c.V); k >= 0 && int(k) < len(sv) {
						fr.env[ins] = Int(int64(sv[k]))
					}
				}
			}
		case *ssa.MakeInterface:
			fr.env[ins] = Iface{Dyn: ins.X.Type().String(), V: it.val(fr, ins.X)}
		case *ssa.ChangeInterface:
			fr.env[ins] = it.val(fr, ins.X)
		case *ssa.Extract:
			if t, ok := it.val(fr, ins.Tuple).(Tuple); ok && ins.Index < len(t) {
				fr.env[ins] = t[ins.Index]
			} else {
				fr.env[ins] = TopV
			}
		case *ssa.Call:
			return it.call(fr, b, idx, pred, ins, st, depth, visits)
		case *ssa.Defer, *ssa.Go, *ssa.RunDefers:
			// not interpreted (context package is analysed by E8)
		case *ssa.If:
			c := it.val(fr, ins.Cond)
			if bv, ok := ConstBool(c); ok {
				si := 1
				if bv {
					si = 0
				}
				return it.exec(fr, b.Succs[si], 0, b, st, depth, visits)
			}
			var res []Outcome
			for si, s := range b.Succs {
				nfr, nst := fr.clone(), st.Clone()
				nst.Forks = append(nst.Forks, fmt.Sprintf("%s:%s=%v", it.M.FuncName(fr.fn), condStr(ins.Cond), si == 0))
				if bo, ok := ins.Cond.(*ssa.BinOp); ok {
					nst.Decs = append(nst.Decs, Decision{Op: bo.Op, X: it.val(fr, bo.X), Y: it.val(fr, bo.Y), Taken: si == 0})
				} else {
					nst.Decs = append(nst.Decs, Decision{Op: token.ILLEGAL, X: it.val(fr, ins.Cond), Taken: si == 0})
				}
				it.refine(nfr, nst, ins.Cond, si == 0)
				res = append(res, it.exec(nfr, s, 0, b, nst, depth, cloneVisits(visits))...)
			}
			return res
		case *ssa.Jump:
			return it.exec(fr, b.Succs[0], 0, b, st, depth, visits)
		case *ssa.Return:
			var vs []Val
			for _, r := range ins.Results {
				vs = append(vs, it.val(fr, r))
			}
			return []Outcome{{Kind: "return", Vals: vs, St: st}}
		case *ssa.Panic:
			return []Outcome{{Kind: "panic", Vals: []Val{it.val(fr, ins.X)}, St: st}}
		default:
			if v, ok := ins.(ssa.Value); ok {
				fr.env[v] = TopV
			}
		}
	}
	return nil
}

func condStr(v ssa.Value) string {
	if b, ok := v.(*ssa.BinOp); ok {
		return fmt.Sprintf("%s%s%s", short(b.X), b.Op, short(b.Y))
	}
	return short(v)
}

func short(v ssa.Value) string {
	switch v := v.(type) {
	case *ssa.Const:
		if v.Value == nil {
			return "nil"
		}
		return v.Value.ExactString()
	case *ssa.UnOp:
		if fa, ok := v.X.(*ssa.FieldAddr); ok && v.Op == token.MUL {
			if st, ok := fa.X.Type().Underlying().(*types.Pointer).Elem().Underlying().(*types.Struct); ok {
				return short(fa.X) + "." + st.Field(fa.Field).Name()
			}
		}
	case *ssa.Parameter:
		return v.Name()
	case *ssa.Call:
		if c := v.Call.StaticCallee(); c != nil {
			return c.Name() + "()"
		}
	}
	return v.Name()
}

// refine records what a branch on a ⊤ condition taught us: on the equal edge of
// load(o.f) ==/!= const, the field is that constant.
func (it *Interp) refine(fr *frame, st *State, cond ssa.Value, taken bool) {
	bo, ok := cond.(*ssa.BinOp)
	if !ok || (bo.Op != token.EQL && bo.Op != token.NEQ) {
		return
	}
	eq := taken == (bo.Op == token.EQL)
	try := func(l, c ssa.Value) {
		k, ok := c.(*ssa.Const)
		if !ok || k.Value == nil {
			return
		}
		o, ok := fr.origin[l]
		if !ok || st.ver[[2]int{o[0], o[1]}] != o[2] {
			return
		}
		if !IsTop(st.Get(Obj{o[0]}, o[1])) {
			return
		}
		if eq {
			st.Heap[o[0]][o[1]] = Const{k.Value}
			fr.env[l] = Const{k.Value}
		} else if k.Value.Kind() == constant.Bool {
			st.Heap[o[0]][o[1]] = Bool(!constant.BoolVal(k.Value))
			fr.env[l] = Bool(!constant.BoolVal(k.Value))
		}
	}
	try(bo.X, bo.Y)
	try(bo.Y, bo.X)
}

func (it *Interp) zeroOfField(f int) Val {
	if f == it.M.F.Mant {
		return TopV
	}
	st := it.M.Decimal.Underlying().(*types.Struct)
	return it.zeroOf(st.Field(f).Type())
}

func (it *Interp) zeroOf(t types.Type) Val {
	switch u := t.Underlying().(type) {
	case *types.Basic:
		switch {
		case u.Info()&types.IsBoolean != 0:
			return Bool(false)
		case u.Info()&types.IsInteger != 0:
			return Int(0)
		case u.Info()&types.IsString != 0:
			return Const{constant.MakeString("")}
		}
	case *types.Pointer, *types.Slice, *types.Interface, *types.Map, *types.Chan, *types.Signature:
		return Const{nil}
	}
	return TopV
}

func (it *Interp) call(fr *frame, b *ssa.BasicBlock, idx int, pred *ssa.BasicBlock, ins *ssa.Call, st *State, depth int, visits map[int]int) []Outcome {
	cal := model.Unthunk(ins.Call.StaticCallee())
	var args []Val
	for _, a := range ins.Call.Args {
		args = append(args, it.val(fr, a))
	}
	resume := func(nfr *frame, nst *State, v Val, nv map[int]int) []Outcome {
		nfr.env[ins] = v
		return it.exec(nfr, b, idx+1, pred, nst, depth, nv)
	}
	name := "<dynamic>"
	if cal != nil {
		name = it.canonName(cal)
		// the core of a function the table knows by name goes by that name
		if p := it.M.CoreOf(cal); p != "" {
			_, own := it.Models[name]
			_, viaCore := it.Models[p]
			if !own && !it.Traced[name] && !it.Opaque[name] && (viaCore || it.Traced[p] || it.Opaque[p]) {
				name = p
			}
		}
	} else if bn := model.BuiltinName(&ins.Call); bn != "" {
		name = "builtin." + bn
	} else if ins.Call.IsInvoke() {
		name = "invoke." + ins.Call.Method.Name()
		args = append([]Val{it.val(fr, ins.Call.Value)}, args...)
	}
	snap := Event{Fn: name, Args: args, NDec: len(st.Decs)}
	for _, a := range args {
		if o, ok := a.(Obj); ok {
			snap.Recv = *st.Heap[o.ID]
			snap.Has = true
			break
		}
	}
	if l, ok := firstLit(args); ok && name == "builtin.len" {
		return resume(fr, st, Int(int64(len(l))), visits)
	}
	if name == "builtin.len" && len(args) == 1 {
		if c, ok := args[0].(Const); ok && c.V != nil && c.V.Kind() == constant.String {
			return resume(fr, st, Int(int64(len(constant.StringVal(c.V)))), visits)
		}
		if c, ok := args[0].(Const); ok && c.V == nil {
			if _, isSlice := ins.Call.Args[0].Type().Underlying().(*types.Slice); isSlice {
				return resume(fr, st, Int(0), visits) // len of the nil slice
			}
		}
	}
	// 1. models (the core of a modelled function is modelled as that function)
	mf, ok := it.Models[name]
	if !ok && cal != nil {
		if p := it.M.CoreOf(cal); p != "" {
			mf, ok = it.Models[p]
		}
	}
	if ok {
		if vals, handled := mf(it, st, name, args); handled {
			var res []Outcome
			for i, v := range vals {
				nfr, nst, nv := fr, st, visits
				if len(vals) > 1 {
					nfr, nst, nv = fr.clone(), st.Clone(), cloneVisits(visits)
				}
				_ = i
				ev := snap
				ev.Ret = v
				nst.Trace = append(nst.Trace, ev)
				res = append(res, resume(nfr, nst, v, nv)...)
			}
			return res
		}
	}
	// append of known elements to a slice whose elements are known
	if name == "builtin.append" && len(args) == 2 && !it.Traced[name] {
		var base Lit
		okA := false
		switch a := args[0].(type) {
		case Lit:
			base, okA = a, true
		case Const:
			okA = a.V == nil
		}
		if more, ok := args[1].(Lit); ok && okA {
			return resume(fr, st, append(append(Lit{}, base...), more...), visits)
		}
	}
	inl := cal != nil && len(cal.Blocks) > 0 && !it.Opaque[name] && (it.M.InDecimalPkg(cal) || it.M.InContextPkg(cal)) &&
		(it.M.IsDecMethod(cal) || it.Inline[name] || it.receiverLike(cal) || pureScalar(cal))
	if it.Traced[name] || !inl {
		ev := snap
		if it.Traced[name] || (cal != nil && it.M.InDecimalPkg(cal) && hasObj(args)) {
			st.Trace = append(st.Trace, ev)
		}
	}
	if inl {
		outs := Dedupe(it.run(cal, args, st, depth+1))
		var res []Outcome
		for _, o := range outs {
			if o.Kind != "return" {
				res = append(res, o)
				continue
			}
			var v Val = TopV
			if len(o.Vals) == 1 {
				v = o.Vals[0]
			} else if len(o.Vals) > 1 {
				v = Tuple(o.Vals)
			}
			nfr, nv := fr, visits
			if len(outs) > 1 {
				nfr, nv = fr.clone(), cloneVisits(visits)
			}
			res = append(res, resume(nfr, o.St, v, nv)...)
		}
		return res
	}
	// opaque: havoc what the callee may store into Decimal arguments
	states := []*State{st}
	if cal != nil && len(cal.Blocks) > 0 {
		for ai, a := range args {
			o, ok := a.(Obj)
			if !ok {
				continue
			}
			for f, ss := range it.M.StoreSets(cal, ai) {
				if f == it.M.F.Prec && !ss.Plain {
					// every store of the precision in the callee happens only when it is 0
					if pv, ok := ConstInt(st.Get(o, f)); ok && pv != 0 {
						continue
					}
				}
				if ss.Top || f != it.M.F.Form {
					for _, s := range states {
						s.Set(o, f, TopV)
					}
					continue
				}
				// form written with constants only: fork over {old} ∪ consts
				var next []*State
				for _, s := range states {
					next = append(next, s)
					for _, cv := range ss.Consts {
						if old, ok := s.Get(o, f).(Const); ok && old.V != nil && constant.Compare(old.V, token.EQL, cv) {
							continue
						}
						ns := s.Clone()
						ns.Set(o, f, Const{cv})
						next = append(next, ns)
					}
				}
				states = next
			}
		}
	} else if hasObj(args) && !(cal != nil && (it.M.InDecimalPkg(cal) || it.M.InContextPkg(cal))) && !strings.HasPrefix(name, "builtin.") {
		st.Imprec = append(st.Imprec, "a Decimal escapes to "+name+" at "+it.M.InstrPos(ins))
	}
	var ret Val = TopV
	if cal != nil && it.M.ReturnsSelf(cal) && len(args) > 0 && ins.Call.Signature().Results().Len() == 1 {
		ret = args[0] // every return of the callee yields its receiver
	}
	if n := ins.Call.Signature().Results().Len(); n > 1 {
		t := make(Tuple, n)
		for i := range t {
			t[i] = TopV
		}
		ret = t
	}
	var res []Outcome
	for i, s := range states {
		nfr, nv := fr, visits
		if i < len(states)-1 {
			nfr, nv = fr.clone(), cloneVisits(visits)
		}
		res = append(res, resume(nfr, s, ret, nv)...)
	}
	return res
}

func firstLit(args []Val) (Lit, bool) {
	if len(args) == 1 {
		l, ok := args[0].(Lit)
		return l, ok
	}
	return nil, false
}

func hasObj(args []Val) bool {
	for _, a := range args {
		if _, ok := a.(Obj); ok {
			return true
		}
	}
	return false
}

// Key renders an outcome for de-duplication.
func Key(o Outcome) string {
	var sb strings.Builder
	sb.WriteString(o.Kind)
	for _, v := range o.Vals {
		sb.WriteString("|" + Str(v))
	}
	var ids []int
	for id := range o.St.Heap {
		ids = append(ids, id)
	}
	sort.Ints(ids)
	for _, id := range ids {
		fmt.Fprintf(&sb, ";%d:", id)
		for _, v := range o.St.Heap[id] {
			sb.WriteString(Str(v) + ",")
		}
	}
	for _, e := range o.St.Trace {
		sb.WriteString(";" + e.String())
		if e.Has {
			for _, v := range e.Recv {
				sb.WriteString(Str(v) + ",")
			}
		}
	}
	sb.WriteString(strings.Join(o.St.Imprec, ";"))
	return sb.String()
}

func Dedupe(os []Outcome) []Outcome {
	seen := map[string]bool{}
	var r []Outcome
	for _, o := range os {
		k := Key(o)
		if !seen[k] {
			seen[k] = true
			r = append(r, o)
		}
	}
	return r
}

// wrap reduces an integer constant to the range of the given basic type.
func wrap(v constant.Value, t types.Type) Val {
	b, ok := t.Underlying().(*types.Basic)
	if !ok || b.Info()&types.IsInteger == 0 || v.Kind() != constant.Int {
		return TopV
	}
	var bits uint
	signed := b.Info()&types.IsUnsigned == 0
	switch b.Kind() {
	case types.Int8, types.Uint8:
		bits = 8
	case types.Int16, types.Uint16:
		bits = 16
	case types.Int32, types.Uint32:
		bits = 32
	case types.Int64, types.Uint64:
		bits = 64
	case types.Int, types.Uint, types.Uintptr:
		bits = 64 // analysed configurations use concrete values far from the int limits except where stated
	default:
		return Const{v}
	}
	mod := constant.Shift(constant.MakeInt64(1), token.SHL, bits)
	r := constant.BinaryOp(v, token.REM, mod)
	if constant.Sign(r) < 0 {
		r = constant.BinaryOp(r, token.ADD, mod)
	}
	if signed {
		half := constant.Shift(constant.MakeInt64(1), token.SHL, bits-1)
		if constant.Compare(r, token.GEQ, half) {
			r = constant.BinaryOp(r, token.SUB, mod)
		}
	}
	return Const{r}
}

func binop(op token.Token, x, y Val, t types.Type) Val {
	// pointer comparisons between abstract objects
	if ox, ok := x.(Obj); ok {
		switch oy := y.(type) {
		case Obj:
			switch op {
			case token.EQL:
				return Bool(ox.ID == oy.ID)
			case token.NEQ:
				return Bool(ox.ID != oy.ID)
			}
		case Const:
			if oy.V == nil {
				switch op {
				case token.EQL:
					return Bool(false)
				case token.NEQ:
					return Bool(true)
				}
			}
		}
	}
	if cx, ok := x.(Const); ok && cx.V == nil {
		if _, ok := y.(Obj); ok {
			switch op {
			case token.EQL:
				return Bool(false)
			case token.NEQ:
				return Bool(true)
			}
		}
		if cy, ok := y.(Const); ok && cy.V == nil {
			switch op {
			case token.EQL:
				return Bool(true)
			case token.NEQ:
				return Bool(false)
			}
		}
	}
	cx, okx := x.(Const)
	cy, oky := y.(Const)
	if !okx || !oky || cx.V == nil || cy.V == nil {
		return TopV
	}
	switch op {
	case token.EQL, token.NEQ, token.LSS, token.LEQ, token.GTR, token.GEQ:
		if cx.V.Kind() == constant.Bool && cy.V.Kind() == constant.Bool {
			eq := constant.BoolVal(cx.V) == constant.BoolVal(cy.V)
			switch op {
			case token.EQL:
				return Bool(eq)
			case token.NEQ:
				return Bool(!eq)
			}
			return TopV
		}
		if cx.V.Kind() != cy.V.Kind() {
			return TopV
		}
		return Bool(constant.Compare(cx.V, op, cy.V))
	case token.ADD, token.SUB, token.MUL, token.AND, token.OR, token.XOR, token.AND_NOT:
		if cx.V.Kind() == constant.Int && cy.V.Kind() == constant.Int {
			return wrap(constant.BinaryOp(cx.V, op, cy.V), t)
		}
	case token.QUO, token.REM:
		if cx.V.Kind() == constant.Int && cy.V.Kind() == constant.Int && constant.Sign(cy.V) != 0 {
			o := op
			if op == token.QUO {
				o = token.QUO_ASSIGN // integer division
			}
			return wrap(constant.BinaryOp(cx.V, o, cy.V), t)
		}
	case token.SHL, token.SHR:
		if cx.V.Kind() == constant.Int && cy.V.Kind() == constant.Int {
			if s, ok := constant.Uint64Val(cy.V); ok && s < 128 {
				return wrap(constant.Shift(cx.V, op, uint(s)), t)
			}
		}
	case token.LAND, token.LOR:
	}
	return TopV
}

// receiverLike: a plain function of package decimal whose first parameter is a *Decimal — a
// method written as a function (uadd(z, x, y)). It is interpreted and named like the method.
func (it *Interp) receiverLike(fn *ssa.Function) bool {
	return fn.Signature.Recv() == nil && fn.Parent() == nil && it.M.InDecimalPkg(fn) && len(fn.Params) > 0 && it.M.IsDecPtr(fn.Params[0].Type())
}

// canonName: the name under which calls of fn are modelled, traced and reported: a receiver-like
// function f(z, …) goes by "(*Decimal).f" unless a method of that name exists as well.
func (it *Interp) canonName(fn *ssa.Function) string {
	n := it.M.FuncName(fn)
	if it.receiverLike(fn) {
		if c := "(*Decimal)." + fn.Name(); it.M.TryLookup(c) == nil {
			return c
		}
	}
	return n
}

// pureScalar: parameters and results are all basic (integer, boolean, float, string) types, and the
// body contains nothing but arithmetic, comparisons, conversions, φ, branches and returns: such
// a helper (a clamp, a max, an enum mapping) is interpreted instead of being treated as unknown.
func pureScalar(fn *ssa.Function) bool {
	if fn.Signature.Recv() != nil || len(fn.Blocks) == 0 || len(fn.Blocks) > 12 {
		return false
	}
	basic := func(t types.Type) bool {
		_, ok := t.Underlying().(*types.Basic)
		return ok
	}
	sig := fn.Signature
	if sig.Results().Len() == 0 {
		return false
	}
	for i := 0; i < sig.Params().Len(); i++ {
		if !basic(sig.Params().At(i).Type()) {
			return false
		}
	}
	for i := 0; i < sig.Results().Len(); i++ {
		if !basic(sig.Results().At(i).Type()) {
			return false
		}
	}
	for _, b := range fn.Blocks {
		for _, in := range b.Instrs {
			switch in.(type) {
			case *ssa.BinOp, *ssa.UnOp, *ssa.Convert, *ssa.ChangeType, *ssa.Phi, *ssa.If, *ssa.Jump, *ssa.Return, *ssa.DebugRef:
			default:
				return false
			}
		}
	}
	return true
}

// tableEntry evaluates a load of g[i][j]… for a package-level variable g with a constant
// initialiser, when every index is a known constant.
func (it *Interp) tableEntry(fr *frame, ld *ssa.UnOp) (Val, bool) {
	var idx []int64
	addr := ld.X
	for {
		if fa, ok := addr.(*ssa.FieldAddr); ok {
			// a field of a table entry that is a struct
			idx = append([]int64{int64(fa.Field)}, idx...)
			addr = fa.X
			continue
		}
		ia, ok := addr.(*ssa.IndexAddr)
		if !ok {
			break
		}
		k, ok := ConstInt(it.val(fr, ia.Index))
		if !ok {
			return nil, false
		}
		idx = append([]int64{k}, idx...)
		addr = ia.X
	}
	g, ok := addr.(*ssa.Global)
	if !ok || len(idx) == 0 {
		return nil, false
	}
	v, ok := it.M.ConstTableLookup(g, idx)
	if !ok {
		return nil, false
	}
	if v.Kind() == constant.Int {
		return wrap(v, ld.Type()), true
	}
	return Const{v}, true
}

func isByteSlice(t types.Type) bool {
	sl, ok := t.Underlying().(*types.Slice)
	if !ok {
		return false
	}
	b, ok := sl.Elem().Underlying().(*types.Basic)
	return ok && (b.Kind() == types.Uint8 || b.Kind() == types.Byte)
}
