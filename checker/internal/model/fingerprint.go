package model

// Function fingerprints and renamed-function aliasing.
//
// The rules anchor on construct names ("dec.divBasic", "(*Decimal).uquo"): tables of confirmed
// exceptions, lookups of the functions a rule is about. A rename of an unexported function — or
// a plain function turned into a method, or the reverse — leaves every one of those arguments
// valid but would make the anchors miss. The model therefore carries, for every function of the
// tree the tables were confirmed on, a fingerprint of its body that does not depend on any name
// (instruction kinds in block order, operators, constants, field indices, call arities and
// whether a callee is a builtin, in-package or foreign). When a function of the current tree has
// a name the pinned tree did not have, its fingerprint equals that of exactly one pinned name
// which no longer exists, and no other new function shares that fingerprint, it is given the
// pinned name as its construct name. Anything else (body changed as well) is a new function.

import (
	"crypto/sha1"
	"fmt"
	"go/ast"
	"go/constant"
	"go/token"
	"go/types"
	"sort"
	"strings"

	"golang.org/x/tools/go/packages"
	"golang.org/x/tools/go/ssa"
)

// Fingerprint of a function body (name-independent).
func (m *Model) Fingerprint(fn *ssa.Function) string {
	var sb strings.Builder
	fmt.Fprintf(&sb, "P%d R%d;", len(fn.Params), fn.Signature.Results().Len())
	for _, b := range fn.Blocks {
		fmt.Fprintf(&sb, "|B%d:", len(b.Succs))
		for _, in := range b.Instrs {
			switch x := in.(type) {
			case *ssa.DebugRef:
				continue
			case *ssa.BinOp:
				fmt.Fprintf(&sb, "b%s", x.Op)
			case *ssa.UnOp:
				fmt.Fprintf(&sb, "u%s", x.Op)
			case *ssa.FieldAddr:
				fmt.Fprintf(&sb, "fa%d", x.Field)
			case *ssa.Field:
				fmt.Fprintf(&sb, "f%d", x.Field)
			case *ssa.Extract:
				fmt.Fprintf(&sb, "x%d", x.Index)
			case ssa.CallInstruction:
				c := x.Common()
				kind := "dyn"
				if c.IsInvoke() {
					kind = "inv:" + c.Method.Name()
				} else if b, ok := c.Value.(*ssa.Builtin); ok {
					kind = "bi:" + b.Name()
				} else if cal := Unthunk(c.StaticCallee()); cal != nil {
					switch {
					case cal.Pkg == nil:
						kind = "syn"
					case cal.Pkg == m.SDec || cal.Pkg == m.SCtx:
						kind = "in"
					default:
						kind = "ext:" + cal.Pkg.Pkg.Path() + "." + cal.Name()
					}
				}
				fmt.Fprintf(&sb, "c%T(%s/%d)", in, kind, len(c.Args))
			default:
				fmt.Fprintf(&sb, "%T", in)
			}
			var ops []*ssa.Value
			for _, o := range in.Operands(ops) {
				if c, ok := (*o).(*ssa.Const); ok && c.Value != nil {
					if _, isBasic := c.Type().Underlying().(*types.Basic); isBasic {
						fmt.Fprintf(&sb, "#%s", c.Value.ExactString())
					}
				}
			}
			sb.WriteByte(';')
		}
	}
	return fmt.Sprintf("%x", sha1.Sum([]byte(sb.String())))[:16]
}

// Fingerprint2 refines Fingerprint by the names of the in-package functions called: it tells
// twins apart that differ only in which kernel they call (decKaratsubaAdd / decKaratsubaSub).
func (m *Model) Fingerprint2(fn *ssa.Function) string {
	var names []string
	for _, b := range fn.Blocks {
		for _, in := range b.Instrs {
			if ci, ok := in.(ssa.CallInstruction); ok {
				if cal := Unthunk(ci.Common().StaticCallee()); cal != nil && (cal.Pkg == m.SDec || cal.Pkg == m.SCtx) {
					names = append(names, m.rawName(cal))
				}
			}
		}
	}
	sort.Strings(names)
	return fmt.Sprintf("%x", sha1.Sum([]byte(m.Fingerprint(fn)+strings.Join(names, ","))))[:16]
}

// rawName: the construct name before aliasing.
func (m *Model) rawName(fn *ssa.Function) string { return m.funcName(fn, false) }

// computeAliases fills m.alias from the pinned fingerprints.
func (m *Model) computeAliases() {
	m.alias = map[*ssa.Function]string{}
	if m.Cfg.aliasNames != nil {
		// a later load of a normalisation sequence: the renames were settled on the first one
		for _, fn := range m.Funcs {
			if a, ok := m.Cfg.aliasNames[m.rawName(fn)]; ok && fn.Parent() == nil {
				m.alias[fn] = a
			}
		}
		return
	}
	pinned := pinnedFP[m.Cfg.Name]
	if len(pinned) == 0 {
		return
	}
	present := map[string]bool{}
	for _, fn := range m.Funcs {
		present[m.rawName(fn)] = true
	}
	// pinned names that are gone, by fingerprint
	goneByFP := map[string][]string{}
	for name, fp := range pinned {
		if !present[name] {
			goneByFP[fp] = append(goneByFP[fp], name)
		}
	}
	if len(goneByFP) == 0 {
		return
	}
	newByFP := map[string][]*ssa.Function{}
	for _, fn := range m.Funcs {
		if fn.Parent() != nil {
			continue
		}
		if _, known := pinned[m.rawName(fn)]; known {
			continue
		}
		fp := m.Fingerprint(fn)
		newByFP[fp] = append(newByFP[fp], fn)
	}
	var notes []string
	for fp, names := range goneByFP {
		if len(names) == 1 && len(newByFP[fp]) == 1 {
			m.alias[newByFP[fp][0]] = names[0]
			notes = append(notes, m.rawName(newByFP[fp][0])+" is "+names[0]+" under a new name (same body)")
			continue
		}
		// twins: same body up to the kernels they call — match on the refined fingerprint
		for _, fn := range newByFP[fp] {
			fp2 := m.Fingerprint2(fn)
			var match []string
			for _, n := range names {
				if pinnedFP2[m.Cfg.Name][n] == fp2 {
					match = append(match, n)
				}
			}
			others := 0
			for _, g := range newByFP[fp] {
				if m.Fingerprint2(g) == fp2 {
					others++
				}
			}
			if len(match) == 1 && others == 1 {
				m.alias[fn] = match[0]
				notes = append(notes, m.rawName(fn)+" is "+match[0]+" under a new name (same body, same callees)")
			}
		}
	}
	sort.Strings(notes)
	m.AliasNotes = notes
}

// ConstTableLookup evaluates g[idx[0]][idx[1]]… for a package-level array/slice variable g whose
// initialiser is a composite literal of constants (keyed or positional, nested). ok is false when
// the variable has no such initialiser, an index is out of range or the entry is not a constant;
// an entry that the literal leaves out is the zero value (reported as the integer 0).
func (m *Model) ConstTableLookup(g *ssa.Global, idx []int64) (constant.Value, bool) {
	var lit ast.Expr
	var info *types.Info
	for _, p := range []*packages.Package{m.Dec, m.Ctx} {
		if p.Types != g.Pkg.Pkg {
			continue
		}
		for _, f := range p.Syntax {
			for _, d := range f.Decls {
				gd, ok := d.(*ast.GenDecl)
				if !ok || gd.Tok != token.VAR {
					continue
				}
				for _, sp := range gd.Specs {
					vs := sp.(*ast.ValueSpec)
					for i, nm := range vs.Names {
						if nm.Name == g.Name() && i < len(vs.Values) && p.TypesInfo.Defs[nm] == g.Object() {
							lit, info = vs.Values[i], p.TypesInfo
						}
					}
				}
			}
		}
	}
	if lit == nil {
		return nil, false
	}
	cur := lit
	var zeroStruct *types.Struct
	for _, want := range idx {
		if cur == nil && zeroStruct != nil {
			// a field of an entry the literal leaves out
			if want < 0 || int(want) >= zeroStruct.NumFields() {
				return nil, false
			}
			if b, ok := zeroStruct.Field(int(want)).Type().Underlying().(*types.Basic); ok && b.Info()&types.IsBoolean != 0 {
				return constant.MakeBool(false), true
			}
			return constant.MakeInt64(0), true
		}
		cl, ok := cur.(*ast.CompositeLit)
		if !ok {
			return nil, false
		}
		var found ast.Expr
		pos := int64(0)
		var st *types.Struct
		if tv, ok := info.Types[cl]; ok && tv.Type != nil {
			st, _ = tv.Type.Underlying().(*types.Struct)
		}
		for _, el := range cl.Elts {
			if kv, ok := el.(*ast.KeyValueExpr); ok && st != nil {
				// a struct literal with field names: the index is the field's
				id, ok := kv.Key.(*ast.Ident)
				if !ok {
					return nil, false
				}
				fi := -1
				for i := 0; i < st.NumFields(); i++ {
					if st.Field(i).Name() == id.Name {
						fi = i
					}
				}
				if fi < 0 {
					return nil, false
				}
				if int64(fi) == want {
					found = kv.Value
				}
				continue
			}
			if kv, ok := el.(*ast.KeyValueExpr); ok {
				tv, ok := info.Types[kv.Key]
				if !ok || tv.Value == nil {
					return nil, false
				}
				k, ok := constant.Int64Val(constant.ToInt(tv.Value))
				if !ok {
					return nil, false
				}
				pos = k
				el = kv.Value
			}
			if pos == want {
				found = el
			}
			pos++
		}
		if found == nil {
			// left out: the zero value (false for a bool entry)
			if tv, ok := info.Types[cl]; ok && tv.Type != nil {
				var et types.Type
				switch u := tv.Type.Underlying().(type) {
				case *types.Array:
					et = u.Elem()
				case *types.Slice:
					et = u.Elem()
				case *types.Struct:
					if want >= 0 && int(want) < u.NumFields() {
						et = u.Field(int(want)).Type()
					}
				}
				if et != nil {
					if b, ok := et.Underlying().(*types.Basic); ok && b.Info()&types.IsBoolean != 0 {
						return constant.MakeBool(false), true
					}
					if _, isStruct := et.Underlying().(*types.Struct); isStruct {
						zeroStruct = et.Underlying().(*types.Struct)
						cur = nil
						continue
					}
				}
			}
			return constant.MakeInt64(0), true
		}
		cur = found
	}
	if cur == nil {
		return nil, false
	}
	tv, ok := info.Types[cur]
	if !ok || tv.Value == nil {
		return nil, false
	}
	return tv.Value, true
}
