package model

// Conditional element writes.
//
// The slice-root summaries are path-insensitive: a function "may write the elements of parameter
// k" as soon as one path does. Two idioms need one step more. (1) `if len(x) > 1 { x = copy(x) };
// inPlace(z, x)` where inPlace returns before any write when len(x) < 2; (2) `q := x; if b != 10
// { q = copy(x) }; convert(q, b)` where convert writes q only in its own `b != 10` branches. In
// both the operand itself reaches the writer only on paths on which the writer does not write.
//
// After the summaries have converged, a refinement pass recomputes them with this rule: at a call
// whose argument is a φ, an incoming edge contributes its roots only if the facts known on that
// edge (a comparison of len(value) or of another argument with a constant) do not contradict the
// facts that dominate every write site of that parameter in the callee (comparisons of len(param)
// or of an integer parameter with a constant). Facts are read off If instructions; nothing else is
// assumed, and an edge that cannot be refuted counts as before.

import (
	"go/token"
	"go/types"

	"golang.org/x/tools/go/ssa"
)

// wfact: subject op k. Subject: the length of parameter idx (isLen) or the integer parameter idx.
type wfact struct {
	isLen bool
	idx   int
	op    token.Token // EQL, NEQ, LSS, LEQ, GTR, GEQ
	k     int64
}

func negateOp(op token.Token) token.Token {
	switch op {
	case token.EQL:
		return token.NEQ
	case token.NEQ:
		return token.EQL
	case token.LSS:
		return token.GEQ
	case token.GEQ:
		return token.LSS
	case token.GTR:
		return token.LEQ
	case token.LEQ:
		return token.GTR
	}
	return token.ILLEGAL
}

func mirrorOp(op token.Token) token.Token {
	switch op {
	case token.LSS:
		return token.GTR
	case token.GTR:
		return token.LSS
	case token.LEQ:
		return token.GEQ
	case token.GEQ:
		return token.LEQ
	}
	return op
}

func unconv(v ssa.Value) ssa.Value {
	for {
		switch x := v.(type) {
		case *ssa.Convert:
			v = x.X
		case *ssa.ChangeType:
			v = x.X
		default:
			return v
		}
	}
}

// edgeCmp: the comparison an If edge establishes, as (subject value, isLen, op, k).
func edgeCmp(b *ssa.BasicBlock, si int) (subj ssa.Value, isLen bool, op token.Token, k int64, ok bool) {
	if len(b.Instrs) == 0 {
		return
	}
	ifi, isIf := b.Instrs[len(b.Instrs)-1].(*ssa.If)
	if !isIf {
		return
	}
	bo, isB := ifi.Cond.(*ssa.BinOp)
	if !isB {
		return
	}
	x, y, o := bo.X, bo.Y, bo.Op
	if _, isC := x.(*ssa.Const); isC {
		x, y, o = y, x, mirrorOp(o)
	}
	kk, isK := ConstInt(y)
	if !isK {
		// x == nil / x != nil: "x is 0" in the same terms
		if c, isC := y.(*ssa.Const); isC && c.IsNil() && (o == token.EQL || o == token.NEQ) {
			kk, isK = 0, true
		}
	}
	if !isK {
		return
	}
	switch o {
	case token.EQL, token.NEQ, token.LSS, token.LEQ, token.GTR, token.GEQ:
	default:
		return
	}
	if si == 1 {
		o = negateOp(o)
	}
	x = unconv(x)
	if c, isCall := x.(*ssa.Call); isCall && BuiltinName(&c.Call) == "len" {
		return unconv(c.Call.Args[0]), true, o, kk, true
	}
	return x, false, o, kk, true
}

// possible reports whether value v is consistent with fact (op k).
func holds(v int64, op token.Token, k int64) bool {
	switch op {
	case token.EQL:
		return v == k
	case token.NEQ:
		return v != k
	case token.LSS:
		return v < k
	case token.LEQ:
		return v <= k
	case token.GTR:
		return v > k
	case token.GEQ:
		return v >= k
	}
	return true
}

// contradict: no value satisfies all facts of a and all facts of b (same subject). Decided by
// trying the constants that occur and their neighbours.
func contradict(a, b [][2]int64, opsA, opsB []token.Token) bool {
	cands := map[int64]bool{}
	for _, f := range append(append([][2]int64{}, a...), b...) {
		for d := int64(-1); d <= 1; d++ {
			cands[f[1]+d] = true
		}
	}
	for v := range cands {
		ok := true
		for i, f := range a {
			if !holds(v, opsA[i], f[1]) {
				ok = false
			}
		}
		for i, f := range b {
			if !holds(v, opsB[i], f[1]) {
				ok = false
			}
		}
		if ok {
			return false
		}
	}
	return true
}

// writeFacts: the facts about len(param k) and about integer parameters that hold at every site of
// cal that may write elements rooted in parameter k (according to the converged summaries).
func (m *Model) writeFacts(cal *ssa.Function, k int) []wfact {
	ri := m.roots
	lab := "P" + itoa(k)
	var sites []*ssa.BasicBlock
	live := m.Live(cal)
	for _, b := range cal.Blocks {
		if !live[b.Index] {
			continue
		}
		for _, in := range b.Instrs {
			switch in := in.(type) {
			case *ssa.Store:
				if ia, ok := in.Addr.(*ssa.IndexAddr); ok && m.IsWordSlice(ia.X.Type()) && m.RootsOf(ia.X)[lab] {
					sites = append(sites, b)
				}
			case ssa.CallInstruction:
				c := in.Common()
				cc := Unthunk(c.StaticCallee())
				if cc == nil {
					if BuiltinName(c) == "copy" && m.IsWordSlice(c.Args[0].Type()) && m.RootsOf(c.Args[0])[lab] {
						sites = append(sites, b)
					}
					continue
				}
				for l := range ri.elemW[cc] {
					if m.mapLabel(l, c, map[ssa.Value]bool{})[lab] {
						sites = append(sites, b)
					}
				}
			}
		}
	}
	if len(sites) == 0 {
		return nil
	}
	var out []wfact
	for _, gb := range cal.Blocks {
		if !live[gb.Index] {
			continue
		}
		for si := 0; si < len(gb.Succs) && si < 2; si++ {
			subj, isLen, op, kk, ok := edgeCmp(gb, si)
			if !ok {
				continue
			}
			p, isP := subj.(*ssa.Parameter)
			if !isP {
				continue
			}
			pi := -1
			for i, q := range cal.Params {
				if q == p {
					pi = i
				}
			}
			if pi < 0 || (isLen && pi != k) {
				continue
			}
			if !isLen {
				if bt, ok := p.Type().Underlying().(*types.Basic); !ok || bt.Info()&types.IsInteger == 0 {
					continue
				}
			}
			all := true
			for _, sb := range sites {
				if !m.EdgeDominates(gb, si, sb) {
					all = false
				}
			}
			if all {
				out = append(out, wfact{isLen, pi, op, kk})
			}
		}
	}
	return out
}

func itoa(k int) string {
	if k == 0 {
		return "0"
	}
	s := ""
	for k > 0 {
		s = string(rune('0'+k%10)) + s
		k /= 10
	}
	return s
}

// refutedEdge: at call c of cal, the value e reaches parameter k over the edge from pred into phiB;
// the facts on that edge contradict the callee's write facts.
func (m *Model) refutedEdge(c *ssa.CallCommon, facts []wfact, k int, e ssa.Value, phiB *ssa.BasicBlock, predIdx int) bool {
	if len(facts) == 0 {
		return false
	}
	pred := phiB.Preds[predIdx]
	fn := phiB.Parent()
	// the facts known when control comes over this edge: every If edge that dominates pred, and
	// the edge pred -> phiB itself when pred ends in an If
	type ef struct {
		subj  ssa.Value
		isLen bool
		op    token.Token
		k     int64
	}
	var known []ef
	for _, gb := range fn.Blocks {
		for si := 0; si < len(gb.Succs) && si < 2; si++ {
			subj, isLen, op, kk, ok := edgeCmp(gb, si)
			if !ok {
				continue
			}
			if (gb == pred && gb.Succs[si] == phiB) || m.EdgeDominates(gb, si, pred) {
				known = append(known, ef{subj, isLen, op, kk})
			}
		}
	}
	if len(known) == 0 {
		return false
	}
	// group by subject: the length of e itself, or an argument of the call
	var lenA, lenB [][2]int64
	var lenOpsA, lenOpsB []token.Token
	for _, f := range facts {
		if f.isLen && f.idx == k {
			lenB = append(lenB, [2]int64{0, f.k})
			lenOpsB = append(lenOpsB, f.op)
		}
	}
	for _, kf := range known {
		if kf.isLen && unconv(kf.subj) == unconv(e) {
			lenA = append(lenA, [2]int64{0, kf.k})
			lenOpsA = append(lenOpsA, kf.op)
		}
	}
	if len(lenA) > 0 && len(lenB) > 0 {
		// lengths are non-negative
		if contradict(append(lenA, [2]int64{0, 0}), lenB, append(lenOpsA, token.GEQ), lenOpsB) {
			return true
		}
	}
	for j := range c.Args {
		var a, b [][2]int64
		var oa, ob []token.Token
		for _, f := range facts {
			if !f.isLen && f.idx == j {
				b = append(b, [2]int64{0, f.k})
				ob = append(ob, f.op)
			}
		}
		if len(b) == 0 {
			continue
		}
		for _, kf := range known {
			if !kf.isLen && unconv(kf.subj) == unconv(c.Args[j]) {
				a = append(a, [2]int64{0, kf.k})
				oa = append(oa, kf.op)
			}
		}
		if len(a) > 0 && contradict(a, b, oa, ob) {
			return true
		}
	}
	return false
}

// refineElemWrites recomputes the element-write summaries with refuted φ edges left out.
func (m *Model) refineElemWrites() {
	ri := m.roots
	for iter := 0; iter < 64; iter++ {
		next := map[*ssa.Function]RootSet{}
		for fn, rs := range ri.elemW {
			if len(fn.Blocks) == 0 {
				next[fn] = rs
			}
		}
		factCache := map[*ssa.Function]map[int][]wfact{}
		factsOf := func(cal *ssa.Function, k int) []wfact {
			if factCache[cal] == nil {
				factCache[cal] = map[int][]wfact{}
			}
			if f, ok := factCache[cal][k]; ok {
				return f
			}
			f := m.writeFacts(cal, k)
			factCache[cal][k] = f
			return f
		}
		same := true
		for _, fn := range m.Funcs {
			out := RootSet{}
			live := m.Live(fn)
			for _, b := range fn.Blocks {
				if !live[b.Index] {
					continue
				}
				for _, in := range b.Instrs {
					switch in := in.(type) {
					case *ssa.Store:
						if ia, ok := in.Addr.(*ssa.IndexAddr); ok && m.IsWordSlice(ia.X.Type()) {
							out.add(m.rootsOfAt(ia.X, b))
						}
					case ssa.CallInstruction:
						c := in.Common()
						cal := Unthunk(c.StaticCallee())
						if cal == nil {
							if BuiltinName(c) == "copy" && m.IsWordSlice(c.Args[0].Type()) {
								out.add(m.rootsOfAt(c.Args[0], b))
							}
							continue
						}
						for lab := range ri.elemW[cal] {
							// a plain slice parameter whose argument is a φ: leave refuted edges out
							var kk int
							plain := len(lab) >= 2 && lab[0] == 'P' && !contains(lab, ".")
							if plain {
								kk = atoi(lab[1:])
							}
							if plain && kk < len(c.Args) && len(cal.Blocks) > 0 {
								if ph, ok := unconv(c.Args[kk]).(*ssa.Phi); ok {
									facts := factsOf(cal, kk)
									for ei, e := range ph.Edges {
										if m.refutedEdge(c, facts, kk, e, ph.Block(), ei) {
											continue
										}
										out.add(m.rootsOf(e, map[ssa.Value]bool{}))
									}
									continue
								}
							}
							out.add(m.mapLabel(lab, c, map[ssa.Value]bool{}))
						}
					}
				}
			}
			next[fn] = out
			if len(out) != len(ri.elemW[fn]) {
				same = false
			}
			ri.elemW[fn] = out // descending from the converged over-approximation: every iterate is still a post-fixpoint
		}
		ri.elemW = next
		if same {
			break
		}
	}
}

func contains(s, sub string) bool {
	for i := 0; i+len(sub) <= len(s); i++ {
		if s[i:i+len(sub)] == sub {
			return true
		}
	}
	return false
}

func atoi(s string) int {
	n := 0
	for _, c := range s {
		if c < '0' || c > '9' {
			return n
		}
		n = n*10 + int(c-'0')
	}
	return n
}

// rootsOfAt: the roots of the slice value v as it is written at block site. Where v is rooted
// through a φ, an incoming edge whose facts about the length of the incoming value contradict the
// facts about the length of the φ that dominate the site is left out: the write is not reached
// with that value (`if len(x) > 1 { x = copy }` in front of code that writes only behind
// `len(x) != 0 && len(x) != 1`).
func (m *Model) rootsOfAt(v ssa.Value, site *ssa.BasicBlock) RootSet {
	m.siteFilter = site
	defer func() { m.siteFilter = nil }()
	return m.rootsOf(v, map[ssa.Value]bool{})
}

func (m *Model) phiEdgeRefuted(ph *ssa.Phi, ei int, site *ssa.BasicBlock) bool {
	fn := site.Parent()
	if ph.Parent() != fn || !m.IsWordSlice(ph.Type()) {
		return false
	}
	var siteK [][2]int64
	var siteOps []token.Token
	for _, gb := range fn.Blocks {
		for si := 0; si < len(gb.Succs) && si < 2; si++ {
			subj, isLen, op, kk, ok := edgeCmp(gb, si)
			if !ok || !isLen || unconv(subj) != ssa.Value(ph) {
				continue
			}
			if m.EdgeDominates(gb, si, site) {
				siteK = append(siteK, [2]int64{0, kk})
				siteOps = append(siteOps, op)
			}
		}
	}
	if len(siteK) == 0 {
		return false
	}
	e := ph.Edges[ei]
	pred := ph.Block().Preds[ei]
	ek := [][2]int64{{0, 0}}
	eops := []token.Token{token.GEQ}
	for _, gb := range fn.Blocks {
		for si := 0; si < len(gb.Succs) && si < 2; si++ {
			subj, isLen, op, kk, ok := edgeCmp(gb, si)
			if !ok || !isLen || unconv(subj) != unconv(e) {
				continue
			}
			if (gb == pred && gb.Succs[si] == ph.Block()) || m.EdgeDominates(gb, si, pred) {
				ek = append(ek, [2]int64{0, kk})
				eops = append(eops, op)
			}
		}
	}
	return len(ek) > 1 && contradict(ek, siteK, eops, siteOps)
}

// PhiEdgeInfeasibleAt: the value the φ takes from its edge ei cannot be the one seen at block
// site, because a comparison with a constant of some value S (or of its length) that holds on
// every way into that edge contradicts one of the same S that holds on every way to the site
// (`if len(m) == 0 { e = 0 } else { e = f(m) }` joined in front of `if len(m) == 0 { use(e) }`).
// S must not be recomputed between the φ and the site: its block is not reachable from the φ's.
func (m *Model) PhiEdgeInfeasibleAt(ph *ssa.Phi, ei int, site *ssa.BasicBlock) bool {
	fn := site.Parent()
	if ph.Parent() != fn || ei >= len(ph.Block().Preds) {
		return false
	}
	type key struct {
		s     ssa.Value
		isLen bool
	}
	type facts struct {
		k   [][2]int64
		ops []token.Token
	}
	at := map[key]*facts{}
	on := map[key]*facts{}
	pred := ph.Block().Preds[ei]
	for _, gb := range fn.Blocks {
		for si := 0; si < len(gb.Succs) && si < 2; si++ {
			subj, isLen, op, kk, ok := edgeCmp(gb, si)
			if !ok || gb.Succs[0] == gb.Succs[1] {
				continue
			}
			k := key{subj, isLen}
			if m.EdgeDominates(gb, si, site) {
				if at[k] == nil {
					at[k] = &facts{}
				}
				at[k].k = append(at[k].k, [2]int64{0, kk})
				at[k].ops = append(at[k].ops, op)
			}
			if (gb == pred && gb.Succs[si] == ph.Block()) || m.EdgeDominates(gb, si, pred) {
				if on[k] == nil {
					on[k] = &facts{}
				}
				on[k].k = append(on[k].k, [2]int64{0, kk})
				on[k].ops = append(on[k].ops, op)
			}
		}
	}
	for k, a := range at {
		stable := k.s
		if p2, ok := k.s.(*ssa.Phi); ok && p2.Block() == ph.Block() {
			// a value joined at the same place: on this edge it is its ei-th operand
			k.s = unconv(p2.Edges[ei])
		}
		o := on[k]
		if o == nil || !contradict(o.k, a.k, o.ops, a.ops) {
			continue
		}
		k.s = stable
		// stable subject
		switch d := k.s.(type) {
		case *ssa.Parameter, *ssa.Const:
			return true
		case ssa.Instruction:
			if d.Block() == nil || !blockReaches(ph.Block(), d.Block()) {
				return true
			}
		}
	}
	return false
}

func blockReaches(from, to *ssa.BasicBlock) bool {
	seen := map[*ssa.BasicBlock]bool{}
	work := []*ssa.BasicBlock{}
	work = append(work, from.Succs...)
	for len(work) > 0 {
		b := work[len(work)-1]
		work = work[:len(work)-1]
		if seen[b] {
			continue
		}
		seen[b] = true
		if b == to {
			return true
		}
		work = append(work, b.Succs...)
	}
	return false
}

// DominatesBarInfeasible: every way from the entry to block site passes through block must, not
// counting ways that enter a join along an edge which some φ of that join shows to be
// contradicted by the tests in front of site (an error carried out of a helper's body along with
// the results, when site lies behind `err == nil`).
func (m *Model) DominatesBarInfeasible(must, site *ssa.BasicBlock) bool {
	if m.Dominates(must, site) {
		return true
	}
	fn := site.Parent()
	seen := map[*ssa.BasicBlock]bool{}
	work := []*ssa.BasicBlock{fn.Blocks[0]}
	for len(work) > 0 {
		b := work[len(work)-1]
		work = work[:len(work)-1]
		if seen[b] || b == must {
			continue
		}
		seen[b] = true
		if b == site {
			return false
		}
		for _, sc := range b.Succs {
			// the edge b -> sc
			infeasible := false
			for ei, pr := range sc.Preds {
				if pr != b {
					continue
				}
				for _, in := range sc.Instrs {
					ph, ok := in.(*ssa.Phi)
					if !ok {
						break
					}
					if m.PhiEdgeInfeasibleAt(ph, ei, site) {
						infeasible = true
					}
				}
			}
			if !infeasible {
				work = append(work, sc)
			}
		}
	}
	return true
}
