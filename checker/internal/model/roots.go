package model

import (
	"fmt"
	"go/token"
	"sort"
	"strings"

	"golang.org/x/tools/go/ssa"
)

// RootSet is the set of storage roots a dec/[]Word value may be backed by.
// Labels: "P<k>" slice parameter k; "P<k>.mant" mantissa of *Decimal parameter k;
// "fresh" newly allocated in this function (or by a callee); "pool" a buffer from
// getDec; "global:<name>"; "new.mant" mantissa of a Decimal allocated here;
// "ext" result of a call outside the package (big.Int.Bits()); "nil"; "?" unknown.
type RootSet map[string]bool

func (r RootSet) add(o RootSet) bool {
	ch := false
	for k := range o {
		if !r[k] {
			r[k] = true
			ch = true
		}
	}
	return ch
}

func (r RootSet) Has(l string) bool { return r[l] }

func (r RootSet) String() string {
	var s []string
	for k := range r {
		s = append(s, k)
	}
	sort.Strings(s)
	return "{" + strings.Join(s, ",") + "}"
}

func (r RootSet) Sorted() []string {
	var s []string
	for k := range r {
		s = append(s, k)
	}
	sort.Strings(s)
	return s
}

// SubsetOf reports whether every label is accepted by ok.
func (r RootSet) SubsetOf(ok func(string) bool) bool {
	for k := range r {
		if !ok(k) {
			return false
		}
	}
	return true
}

type rootInfo struct {
	ret   map[*ssa.Function][]RootSet // per result index, in terms of the callee's parameters
	elemW map[*ssa.Function]RootSet   // roots whose elements the function may write (own params)
	done  bool
}

// KernelDest: the first []Word parameter of each vector kernel is its only destination
// (axiom for the assembly versions, backed by the E7 store-target lint; the Go twins
// are analysed like any other function).
var kernelNames = map[string]bool{
	"add10VV": true, "sub10VV": true, "add10VW": true, "sub10VW": true, "shl10VU": true, "shr10VU": true,
	"mulAdd10VWW": true, "addMul10VVW": true, "div10VWW": true,
	"addVV": true, "subVV": true, "addVW": true, "subVW": true, "shlVU": true, "shrVU": true,
	"mulAddVWW": true, "addMulVVW": true, "divWVW": true,
}

// IsVectorKernel reports whether fn is one of the body-less (assembly) or wrapper vector kernels.
func (m *Model) IsVectorKernel(fn *ssa.Function) bool {
	return fn != nil && fn.Parent() == nil && fn.Signature.Recv() == nil && m.InDecimalPkg(fn) && kernelNames[fn.Name()]
}

func (m *Model) rootsInit() {
	if m.roots != nil {
		return
	}
	m.roots = &rootInfo{ret: map[*ssa.Function][]RootSet{}, elemW: map[*ssa.Function]RootSet{}}
	ri := m.roots
	for _, fn := range m.Funcs {
		n := fn.Signature.Results().Len()
		ri.ret[fn] = make([]RootSet, n)
		for i := range ri.ret[fn] {
			ri.ret[fn][i] = RootSet{}
		}
		ri.elemW[fn] = RootSet{}
	}
	for _, fn := range m.Externs {
		ri.elemW[fn] = RootSet{}
		if m.IsVectorKernel(fn) {
			ri.elemW[fn]["P0"] = true
		}
	}
	for iter := 0; iter < 40; iter++ {
		changed := false
		for _, fn := range m.Funcs {
			live := m.Live(fn)
			for _, b := range fn.Blocks {
				if !live[b.Index] {
					continue
				}
				for _, in := range b.Instrs {
					switch in := in.(type) {
					case *ssa.Return:
						for i, r := range in.Results {
							if m.IsWordSlice(r.Type()) {
								if ri.ret[fn][i].add(m.RootsOf(r)) {
									changed = true
								}
							}
						}
					case *ssa.Store:
						if ia, ok := in.Addr.(*ssa.IndexAddr); ok && m.IsWordSlice(ia.X.Type()) {
							if ri.elemW[fn].add(m.RootsOf(ia.X)) {
								changed = true
							}
						}
					case ssa.CallInstruction:
						c := in.Common()
						cal := Unthunk(c.StaticCallee())
						if cal == nil {
							if BuiltinName(c) == "copy" && m.IsWordSlice(c.Args[0].Type()) {
								if ri.elemW[fn].add(m.RootsOf(c.Args[0])) {
									changed = true
								}
							}
							continue
						}
						for lab := range ri.elemW[cal] {
							for l := range m.mapLabel(lab, c, map[ssa.Value]bool{}) {
								if !ri.elemW[fn][l] {
									ri.elemW[fn][l] = true
									changed = true
								}
							}
						}
					}
				}
			}
		}
		if !changed {
			ri.done = true
			break
		}
	}
	if !ri.done {
		Fatal("slice-root summaries did not converge")
	}
	m.refineElemWrites()
}

// mapLabel translates a callee-relative root label into caller-relative labels at a call.
func (m *Model) mapLabel(lab string, c *ssa.CallCommon, seen map[ssa.Value]bool) RootSet {
	out := RootSet{}
	if !strings.HasPrefix(lab, "P") {
		if lab == "new.mant" {
			out["fresh"] = true
		} else {
			out[lab] = true
		}
		return out
	}
	var k int
	fmt.Sscanf(lab, "P%d", &k)
	if k >= len(c.Args) {
		out["?"] = true
		return out
	}
	a := c.Args[k]
	if strings.HasSuffix(lab, ".mant") {
		r := m.RefOf(a)
		for i := 0; i < 32; i++ {
			if r.MayBeParam(i) {
				out[fmt.Sprintf("P%d.mant", i)] = true
			}
		}
		if r.Fresh {
			out["new.mant"] = true
			out.add(m.sharedMant(r))
		}
		for _, g := range r.Globals {
			out["global:"+g.Name()+".mant"] = true
		}
		if r.Unknown {
			out["?"] = true
		}
		return out
	}
	out.add(m.rootsOf(a, seen))
	return out
}

// sharedMant: a local Decimal that was given the whole value of another one (tmp := *x) shares
// that one's mantissa array: the mantissa roots of the Decimals whose value was stored into the
// fresh allocations of r.
func (m *Model) sharedMant(r Ref) RootSet {
	out := RootSet{}
	for _, al := range r.Allocs {
		a, ok := al.(*ssa.Alloc)
		if !ok || a.Referrers() == nil {
			continue
		}
		for _, u := range *a.Referrers() {
			st, ok := u.(*ssa.Store)
			if !ok || st.Addr != ssa.Value(a) {
				continue
			}
			ld, ok := st.Val.(*ssa.UnOp)
			if !ok || ld.Op != token.MUL || !m.IsDecPtr(ld.X.Type()) {
				continue
			}
			src := m.RefOf(ld.X)
			for i := 0; i < 32; i++ {
				if src.MayBeParam(i) {
					out[fmt.Sprintf("P%d.mant", i)] = true
				}
			}
			for _, g := range src.Globals {
				out["global:"+g.Name()+".mant"] = true
			}
			if src.Unknown {
				out["?"] = true
			}
		}
	}
	return out
}

// RootsOf computes the storage roots of a slice-typed value.
func (m *Model) RootsOf(v ssa.Value) RootSet {
	m.rootsInit()
	return m.rootsOf(v, map[ssa.Value]bool{})
}

func (m *Model) rootsOf(v ssa.Value, seen map[ssa.Value]bool) RootSet {
	out := RootSet{}
	if seen[v] {
		return out
	}
	seen[v] = true
	switch v := v.(type) {
	case *ssa.Parameter:
		for i, p := range v.Parent().Params {
			if p == v {
				out[fmt.Sprintf("P%d", i)] = true
			}
		}
	case *ssa.FreeVar:
		out["?"] = true
	case *ssa.Const:
		out["nil"] = true
	case *ssa.Slice:
		out.add(m.rootsOf(v.X, seen))
	case *ssa.ChangeType:
		out.add(m.rootsOf(v.X, seen))
	case *ssa.Convert:
		out.add(m.rootsOf(v.X, seen))
	case *ssa.Phi:
		for i, e := range v.Edges {
			if m.siteFilter != nil && m.phiEdgeRefuted(v, i, m.siteFilter) {
				continue
			}
			out.add(m.rootsOf(e, seen))
		}
	case *ssa.MakeSlice:
		out["fresh"] = true
	case *ssa.Alloc:
		out["fresh"] = true
	case *ssa.UnOp:
		if v.Op != token.MUL {
			out["?"] = true
			break
		}
		switch x := v.X.(type) {
		case *ssa.FieldAddr:
			if m.IsDecPtr(x.X.Type()) && x.Field == m.F.Mant {
				r := m.RefOf(x.X)
				for i := 0; i < 32; i++ {
					if r.MayBeParam(i) {
						out[fmt.Sprintf("P%d.mant", i)] = true
					}
				}
				if r.Fresh {
					out["new.mant"] = true
					out.add(m.sharedMant(r))
				}
				for _, g := range r.Globals {
					out["global:"+g.Name()+".mant"] = true
				}
				if r.Unknown {
					out["?"] = true
				}
			} else {
				out["?"] = true
			}
		case *ssa.Global:
			out["global:"+x.Name()] = true
		case *ssa.Alloc:
			// local slice variable: union of the values stored into it
			any := false
			if x.Referrers() != nil {
				for _, u := range *x.Referrers() {
					if st, ok := u.(*ssa.Store); ok && st.Addr == x {
						out.add(m.rootsOf(st.Val, seen))
						any = true
					}
				}
			}
			if !any {
				out["nil"] = true
			}
		default:
			// *p where p is a *dec: pool pointers (getDec result, temps[depth], tmp parameter)
			if m.isPoolPtr(x, map[ssa.Value]bool{}) {
				out["pool"] = true
			} else {
				out["?"] = true
			}
		}
	case *ssa.Extract:
		if call, ok := v.Tuple.(*ssa.Call); ok {
			out.add(m.callRoots(call, v.Index, seen))
		} else {
			out["?"] = true
		}
	case *ssa.Call:
		out.add(m.callRoots(v, 0, seen))
	default:
		out["?"] = true
	}
	return out
}

// isPoolPtr: p is a *dec obtained from getDec, from the temps slice, or a *dec parameter
// (divRecursiveStep's tmp), i.e. a pointer to a pooled scratch buffer.
func (m *Model) isPoolPtr(p ssa.Value, seen map[ssa.Value]bool) bool {
	if seen[p] {
		return true
	}
	seen[p] = true
	switch x := p.(type) {
	case *ssa.Call:
		cal := Unthunk(x.Call.StaticCallee())
		return cal != nil && m.InDecimalPkg(cal) && cal.Name() == "getDec"
	case *ssa.Parameter:
		return m.isDecPtrPtr(x)
	case *ssa.Phi:
		for _, e := range x.Edges {
			if !m.isPoolPtr(e, seen) {
				return false
			}
		}
		return true
	case *ssa.UnOp: // *(&temps[i]) or load of a local *dec
		if x.Op == token.MUL {
			switch y := x.X.(type) {
			case *ssa.IndexAddr:
				return true // element of a []*dec: only pooled buffers are stored there (POOL rule checks stores)
			case *ssa.Alloc:
				ok := false
				if y.Referrers() != nil {
					for _, u := range *y.Referrers() {
						if st, isst := u.(*ssa.Store); isst && st.Addr == y {
							if !m.isPoolPtr(st.Val, seen) {
								return false
							}
							ok = true
						}
					}
				}
				return ok
			}
		}
	case *ssa.Alloc:
		// new(dec) inside getDec
		return true
	case *ssa.TypeAssert:
		return true // v.(*dec) of a pool item
	}
	return false
}

func (m *Model) isDecPtrPtr(v ssa.Value) bool {
	s := v.Type().String()
	return strings.HasSuffix(s, "*"+DecPath+".dec")
}

func (m *Model) callRoots(call *ssa.Call, idx int, seen map[ssa.Value]bool) RootSet {
	out := RootSet{}
	cal := Unthunk(call.Call.StaticCallee())
	if cal == nil {
		switch BuiltinName(&call.Call) {
		case "append":
			out.add(m.rootsOf(call.Call.Args[0], seen))
			out["fresh"] = true
		default:
			out["?"] = true
		}
		return out
	}
	if !m.InDecimalPkg(cal) && !m.InContextPkg(cal) {
		out["ext"] = true
		return out
	}
	rr, ok := m.roots.ret[cal]
	if !ok || idx >= len(rr) {
		out["?"] = true
		return out
	}
	for lab := range rr[idx] {
		out.add(m.mapLabel(lab, &call.Call, seen))
	}
	return out
}

// RetRoots returns the roots of result idx of fn in terms of fn's parameters.
func (m *Model) RetRoots(fn *ssa.Function, idx int) RootSet {
	m.rootsInit()
	rr := m.roots.ret[fn]
	if idx < len(rr) {
		return rr[idx]
	}
	return RootSet{}
}

// ElemWrites returns the roots (in terms of fn's own parameters) whose elements fn may write.
func (m *Model) ElemWrites(fn *ssa.Function) RootSet {
	m.rootsInit()
	return m.roots.elemW[fn]
}
