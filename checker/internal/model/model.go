// Package model is engine E0: it loads the type-checked program and its SSA
// form for one build configuration of /repo and offers the helpers every rule
// needs (constant-pruned CFG, dominators on it, object references,
// returns-self summaries, positions). Nothing in /repo is executed.
package model

import (
	"fmt"
	"go/ast"
	"go/constant"
	"go/token"
	"go/types"
	"os"
	"path/filepath"
	"sort"
	"strings"
	"sync"

	"golang.org/x/tools/go/packages"

	"decverif/internal/normalize"
	"golang.org/x/tools/go/ssa"
	"golang.org/x/tools/go/ssa/ssautil"
)

const (
	DecPath = "github.com/db47h/decimal"
	CtxPath = "github.com/db47h/decimal/context"
)

// AnalysisError is raised (by panic) whenever the analysis cannot be trusted.
type AnalysisError struct{ Msg string }

func (e AnalysisError) Error() string { return e.Msg }

// Fatal aborts the analysis with an ANALYSIS-ERROR.
func Fatal(format string, a ...interface{}) {
	panic(AnalysisError{fmt.Sprintf(format, a...)})
}

// Strict makes Blind fatal. It is set when the checker validates itself on the unchanged tree
// (flag -strict): there, a rule that finds fewer instances than expected, or a property selector
// that matches nothing, means the checker went blind. On an arbitrary tree the same condition
// only means that the code has a different shape: nothing to check is not a violation and not an
// error, so it is recorded (and shown in the evidence) and the run goes on.
var Strict bool

var (
	blindMu    sync.Mutex
	blindNotes []string
)

// Blind reports that a rule (or a selector) found fewer instances than the unchanged tree has.
// Under -strict this is fatal for the tree itself, never for a variant of it (a control overlay):
// controls are judged by the violations they raise, and a variant that removes an anchor has
// simply nothing to check there.
func (m *Model) Blind(format string, a ...interface{}) {
	msg := fmt.Sprintf(format, a...)
	if Strict && len(m.Cfg.Overlay) == 0 {
		panic(AnalysisError{msg})
	}
	if len(m.Cfg.Overlay) != 0 {
		return
	}
	blindMu.Lock()
	defer blindMu.Unlock()
	for _, n := range blindNotes {
		if n == msg {
			return
		}
	}
	blindNotes = append(blindNotes, msg)
}

// BlindNotes returns the notes recorded so far.
func BlindNotes() []string {
	blindMu.Lock()
	defer blindMu.Unlock()
	return append([]string(nil), blindNotes...)
}

// Config selects one build configuration.
type Config struct {
	Name    string // amd64 | purego | 386
	RepoDir string
	Overlay map[string][]byte // absolute file name -> replacement content
	// norm: contents produced by the normalisation pass (helpers extracted by a refactoring
	// inlined back); layered over Overlay, not part of what Blind looks at
	norm map[string][]byte
	// fixed at the first load of a normalisation sequence: which raw construct names are new
	// helpers to inline, and which are renamed pinned functions (raw name -> pinned name); later
	// loads of the same sequence must not re-derive them from bodies that inlining has changed
	newNames   map[string]bool
	aliasNames map[string]string
	coreNames  map[string]string // new helper -> the pinned function that ends in a call of it
}

// Decimal field indexes (re-derived from the struct at load time).
type FieldIdx struct{ Mant, Exp, Prec, Mode, Acc, Form, Neg int }

type Model struct {
	// Memo: results rules compute once per model and share (keyed by a rule-chosen name)
	Memo       sync.Map
	siteFilter *ssa.BasicBlock // set while rootsOfAt runs (load time only)
	accessors  map[*ssa.Function]int
	Cfg        Config
	Fset       *token.FileSet
	Dec, Ctx   *packages.Package
	Prog       *ssa.Program
	SDec       *ssa.Package
	SCtx       *ssa.Package
	Funcs      []*ssa.Function          // source functions with bodies (incl. closures), non-test, sorted
	alias      map[*ssa.Function]string // renamed functions -> the construct name they had on the pinned tree
	AliasNotes []string
	NormNotes  []string        // what the normalisation pass did (helpers inlined back)
	Externs    []*ssa.Function // body-less declarations (assembly)
	Decimal    *types.Named
	DecT       *types.Named
	WordT      *types.Named
	Context    *types.Named
	F          FieldIdx
	FieldN     []string
	AsmFiles   []string

	retSelf   map[*ssa.Function]bool
	ctorMemo  map[*ssa.Function]bool
	storeSets map[*ssa.Function]map[int]map[int]*StoreSet
	roots     *rootInfo
	loadSets  map[*ssa.Function]map[int]map[int]bool
	live      map[*ssa.Function][]bool
	idom      map[*ssa.Function][]int
	ipdom     map[*ssa.Function][]int
}

// Load type-checks /repo under the given configuration and builds SSA. Functions that the pinned
// tree does not know (new unexported helpers) are first inlined back into their callers at source
// level (package normalize), so that the rules see the flow graphs they were written against.
func Load(cfg Config) *Model {
	m := load1(cfg)
	if len(pinnedFP[cfg.Name]) == 0 || os.Getenv("DECVERIF_NONORM") != "" {
		return m
	}
	var notes []string
	// what is new and what is merely renamed is decided once, on the tree as given
	cfg.newNames = map[string]bool{}
	cfg.aliasNames = map[string]string{}
	for fn, a := range m.alias {
		cfg.aliasNames[m.rawName(fn)] = a
	}
	for _, fn := range m.Funcs {
		if fn.Parent() != nil || fn.Object() == nil || fn.Object().Exported() {
			continue
		}
		raw := m.rawName(fn)
		if _, aliased := cfg.aliasNames[raw]; aliased {
			continue
		}
		if _, known := pinnedFP[cfg.Name][raw]; !known {
			cfg.newNames[raw] = true
		}
	}
	// a new helper that a function of the pinned tree now hands its work to (return x.digitAt(j, i)
	// at the end of digit) is that function's core: it stays a function (it is not inlined back),
	// and the tables that model the pinned function model it the same way
	cfg.coreNames = map[string]string{}
	for _, fn := range m.Funcs {
		if fn.Parent() != nil || fn.Object() == nil || len(fn.Blocks) == 0 {
			continue
		}
		raw := m.rawName(fn)
		if cfg.newNames[raw] {
			continue
		}
		for _, b := range fn.Blocks {
			r, ok := b.Instrs[len(b.Instrs)-1].(*ssa.Return)
			if !ok || len(r.Results) != 1 {
				continue
			}
			c, ok := r.Results[0].(*ssa.Call)
			if !ok {
				continue
			}
			cal := c.Call.StaticCallee()
			if cal == nil || cal.Parent() != nil || cal.Object() == nil {
				continue
			}
			if cr := m.rawName(cal); cfg.newNames[cr] && types.Identical(cal.Signature.Results(), fn.Signature.Results()) {
				cfg.coreNames[cr] = raw
			}
		}
	}
	// … provided somebody else calls it too (round calling digitAt directly): a helper that only
	// its delegators call (Add, Sub and Mul each `return c.binary(op, …)`) is inlined back as usual
	delegator := map[string]map[string]bool{} // core -> its delegators
	for _, fn := range m.Funcs {
		if fn.Parent() != nil || fn.Object() == nil {
			continue
		}
		raw := m.rawName(fn)
		for _, b := range fn.Blocks {
			if r, ok := b.Instrs[len(b.Instrs)-1].(*ssa.Return); ok && len(r.Results) == 1 {
				if c, ok := r.Results[0].(*ssa.Call); ok {
					if cal := c.Call.StaticCallee(); cal != nil && cal.Object() != nil {
						if cr := m.rawName(cal); cfg.coreNames[cr] != "" {
							if delegator[cr] == nil {
								delegator[cr] = map[string]bool{}
							}
							delegator[cr][raw] = true
						}
					}
				}
			}
		}
	}
	otherCaller := map[string]bool{}
	for _, fn := range m.Funcs {
		if fn.Object() == nil && fn.Parent() == nil {
			continue
		}
		raw := ""
		if fn.Parent() == nil {
			raw = m.rawName(fn)
		}
		for _, b := range fn.Blocks {
			for _, in := range b.Instrs {
				ci, ok := in.(ssa.CallInstruction)
				if !ok {
					continue
				}
				cal := ci.Common().StaticCallee()
				if cal == nil || cal.Object() == nil || cal.Parent() != nil {
					continue
				}
				cr := m.rawName(cal)
				if cfg.coreNames[cr] != "" && !delegator[cr][raw] && cr != raw {
					otherCaller[cr] = true
				}
			}
		}
	}
	byRaw := map[string]*ssa.Function{}
	for _, fn := range m.Funcs {
		if fn.Parent() == nil && fn.Object() != nil {
			byRaw[m.rawName(fn)] = fn
		}
	}
	for cr := range cfg.coreNames {
		// … and only a helper that writes nothing (digitAt, stickyAt): one that has effects
		// (decToNatScratch, which divides its operand in place) is better seen inside its callers
		if !otherCaller[cr] || !writesNothing(byRaw[cr], 3) {
			delete(cfg.coreNames, cr)
			continue
		}
		delete(cfg.newNames, cr)
	}
	m.Cfg.newNames, m.Cfg.aliasNames, m.Cfg.coreNames = cfg.newNames, cfg.aliasNames, cfg.coreNames
	for round := 0; round < 24 && len(cfg.newNames) > 0; round++ {
		cur := m
		isNew := func(f *types.Func) bool {
			fn := cur.Prog.FuncValue(f)
			if fn == nil || fn.Parent() != nil || f.Exported() {
				return false
			}
			return cfg.newNames[cur.rawName(fn)]
		}
		merged := map[string][]byte{}
		for k, v := range cfg.Overlay {
			merged[k] = v
		}
		for k, v := range cfg.norm {
			merged[k] = v
		}
		changed, ns, err := normalize.OneRound([]*packages.Package{m.Dec, m.Ctx}, isNew, merged)
		notes = append(notes, ns...)
		if err != nil {
			notes = append(notes, "normalisation stopped: "+err.Error())
			break
		}
		if len(changed) == 0 {
			break
		}
		cfg2 := cfg
		cfg2.norm = map[string][]byte{}
		for k, v := range cfg.norm {
			cfg2.norm[k] = v
		}
		for k, v := range changed {
			cfg2.norm[k] = v
		}
		var m2 *Model
		func() {
			defer func() {
				if r := recover(); r != nil {
					notes = append(notes, fmt.Sprintf("normalisation abandoned: the inlined source does not load (%v)", r))
				}
			}()
			m2 = load1(cfg2)
		}()
		if m2 == nil {
			break
		}
		m, cfg = m2, cfg2
	}
	m.Cfg.norm = cfg.norm
	if d := os.Getenv("DECVERIF_NORMDUMP"); d != "" {
		for k, v := range cfg.norm {
			os.WriteFile(d+"/"+filepath.Base(k), v, 0o644)
		}
		for _, n := range notes {
			fmt.Fprintln(os.Stderr, "normalize:", n)
		}
		for n := range cfg.newNames {
			fmt.Fprintln(os.Stderr, "normalize: new function", n)
		}
	}
	if len(cfg.norm) > 0 {
		m.dropUncalledNew()
		notes = append(notes, "positions in reports refer to the source after inlining")
	}
	m.NormNotes = notes
	// what the loader did to the tree as given (not to a control's variant of it) goes into the
	// evidence next to the shape notes
	if len(cfg.Overlay) == 0 {
		blindMu.Lock()
		for _, n := range append(append([]string{}, m.AliasNotes...), notes...) {
			msg := "loader: " + n
			dup := false
			for _, x := range blindNotes {
				if x == msg {
					dup = true
				}
			}
			if !dup {
				blindNotes = append(blindNotes, msg)
			}
		}
		blindMu.Unlock()
	}
	return m
}

// dropUncalledNew removes from the function list the new unexported functions that nothing calls
// any more (their bodies live on in their former callers).
func (m *Model) dropUncalledNew() {
	called := map[*ssa.Function]bool{}
	for _, fn := range m.Funcs {
		for _, b := range fn.Blocks {
			for _, in := range b.Instrs {
				var ops []*ssa.Value
				for _, o := range in.Operands(ops) {
					if f, ok := (*o).(*ssa.Function); ok {
						called[f] = true
					}
					if mc, ok := (*o).(*ssa.MakeClosure); ok {
						if f, ok := mc.Fn.(*ssa.Function); ok {
							called[f] = true
						}
					}
				}
			}
		}
	}
	var keep []*ssa.Function
	for _, fn := range m.Funcs {
		root := fn
		for root.Parent() != nil {
			root = root.Parent()
		}
		if m.Cfg.newNames[m.rawName(root)] && !called[root] {
			continue
		}
		keep = append(keep, fn)
	}
	m.Funcs = keep
}

func load1(cfg Config) *Model {
	env := append(os.Environ(), "GOFLAGS=-mod=mod", "GOPROXY=off", "GOSUMDB=off", "GOWORK=off", "GOTOOLCHAIN=local", "CGO_ENABLED=0")
	var flags []string
	switch cfg.Name {
	case "amd64":
		env = append(env, "GOARCH=amd64", "GOOS=linux")
	case "purego":
		env = append(env, "GOARCH=amd64", "GOOS=linux")
		flags = append(flags, "-tags=decimal_pure_go,math_big_pure_go")
	case "386":
		env = append(env, "GOARCH=386", "GOOS=linux")
	default:
		Fatal("unknown configuration %q", cfg.Name)
	}
	pc := &packages.Config{
		Mode:       packages.LoadSyntax | packages.NeedModule,
		Dir:        cfg.RepoDir,
		Env:        env,
		BuildFlags: flags,
		Overlay:    mergeOverlay(cfg.Overlay, cfg.norm),
		Tests:      false,
	}
	pkgs, err := packages.Load(pc, "./...")
	if err != nil {
		Fatal("packages.Load: %v", err)
	}
	if len(pkgs) == 0 {
		Fatal("no packages loaded from %s", cfg.RepoDir)
	}
	m := &Model{Cfg: cfg, retSelf: map[*ssa.Function]bool{}, live: map[*ssa.Function][]bool{}, idom: map[*ssa.Function][]int{}, ipdom: map[*ssa.Function][]int{}}
	for _, p := range pkgs {
		for _, e := range p.Errors {
			Fatal("type-check/load error in %s: %v", p.PkgPath, e)
		}
		if p.IllTyped || p.Types == nil {
			Fatal("package %s is ill-typed", p.PkgPath)
		}
		switch p.PkgPath {
		case DecPath:
			m.Dec = p
		case CtxPath:
			m.Ctx = p
		}
	}
	if m.Dec == nil || m.Ctx == nil {
		Fatal("packages %s and %s not both found (loaded %d)", DecPath, CtxPath, len(pkgs))
	}
	m.Fset = m.Dec.Fset
	for _, f := range m.Dec.OtherFiles {
		if strings.HasSuffix(f, ".s") {
			m.AsmFiles = append(m.AsmFiles, f)
		}
	}
	sort.Strings(m.AsmFiles)

	prog := ssa.NewProgram(m.Fset, ssa.InstantiateGenerics)
	seen := map[*types.Package]bool{m.Dec.Types: true, m.Ctx.Types: true}
	var addDeps func(p *types.Package)
	addDeps = func(p *types.Package) {
		for _, q := range p.Imports() {
			if !seen[q] {
				seen[q] = true
				prog.CreatePackage(q, nil, nil, true)
				addDeps(q)
			}
		}
	}
	addDeps(m.Dec.Types)
	addDeps(m.Ctx.Types)
	m.SDec = prog.CreatePackage(m.Dec.Types, m.Dec.Syntax, m.Dec.TypesInfo, false)
	m.SCtx = prog.CreatePackage(m.Ctx.Types, m.Ctx.Syntax, m.Ctx.TypesInfo, false)
	m.SDec.Build()
	m.SCtx.Build()
	m.Prog = prog

	named := func(p *packages.Package, n string) *types.Named {
		o := p.Types.Scope().Lookup(n)
		if o == nil {
			Fatal("anchor type %s.%s not found", p.PkgPath, n)
		}
		t, ok := o.Type().(*types.Named)
		if !ok {
			Fatal("anchor %s.%s is not a named type", p.PkgPath, n)
		}
		return t
	}
	m.Decimal = named(m.Dec, "Decimal")
	m.Context = named(m.Ctx, "Context")
	st, ok := m.Decimal.Underlying().(*types.Struct)
	if !ok {
		Fatal("Decimal is not a struct")
	}
	// the mantissa type and the word type are unexported and may be renamed: they are the named
	// slice type of one of Decimal's fields and its element type
	for i := 0; i < st.NumFields() && m.DecT == nil; i++ {
		if n, ok := st.Field(i).Type().(*types.Named); ok {
			if sl, ok := n.Underlying().(*types.Slice); ok {
				if w, ok := sl.Elem().(*types.Named); ok {
					m.DecT, m.WordT = n, w
				}
			}
		}
	}
	if m.DecT == nil {
		m.DecT = named(m.Dec, "dec")
		m.WordT = named(m.Dec, "Word")
	}
	// The seven fields are told apart by their TYPES (all distinct), so that renaming a field
	// changes nothing here; constructs and messages use the canonical names below.
	idx := map[string]int{}
	canon := func(t types.Type) string {
		if n, ok := t.(*types.Named); ok {
			if n == m.DecT {
				return "mant"
			}
			switch n.Obj().Name() {
			case "dec":
				return "mant"
			case "RoundingMode":
				return "mode"
			case "Accuracy":
				return "acc"
			case "form":
				return "form"
			}
		}
		if b, ok := t.Underlying().(*types.Basic); ok {
			switch b.Kind() {
			case types.Int32:
				return "exp"
			case types.Uint32:
				return "prec"
			case types.Bool:
				return "neg"
			case types.Uint8:
				return "form" // `type form byte` spelled as a plain byte
			}
		}
		return ""
	}
	for i := 0; i < st.NumFields(); i++ {
		name := st.Field(i).Name()
		if c := canon(st.Field(i).Type()); c != "" {
			if _, dup := idx[c]; !dup {
				name = c
			}
		}
		if _, dup := idx[name]; !dup {
			idx[name] = i
		}
		m.FieldN = append(m.FieldN, name)
	}
	get := func(n string) int {
		i, ok := idx[n]
		if !ok {
			Fatal("Decimal has no field that plays the role of %q", n)
		}
		return i
	}
	m.F = FieldIdx{get("mant"), get("exp"), get("prec"), get("mode"), get("acc"), get("form"), get("neg")}

	for fn := range ssautil.AllFunctions(prog) {
		if fn.Synthetic != "" {
			continue
		}
		root := fn
		for root.Parent() != nil {
			root = root.Parent()
		}
		if root.Pkg != m.SDec && root.Pkg != m.SCtx {
			continue
		}
		if strings.HasSuffix(m.Fset.Position(fn.Pos()).Filename, "_test.go") {
			continue
		}
		if len(fn.Blocks) == 0 {
			m.Externs = append(m.Externs, fn)
		} else {
			m.Funcs = append(m.Funcs, fn)
		}
	}
	byPos := func(l []*ssa.Function) {
		sort.Slice(l, func(i, j int) bool {
			pi, pj := m.Fset.Position(l[i].Pos()), m.Fset.Position(l[j].Pos())
			if pi.Filename != pj.Filename {
				return pi.Filename < pj.Filename
			}
			if pi.Offset != pj.Offset {
				return pi.Offset < pj.Offset
			}
			return l[i].String() < l[j].String()
		})
	}
	byPos(m.Funcs)
	byPos(m.Externs)
	if len(m.Funcs) < 100 {
		Fatal("only %d source functions found; expected several hundred", len(m.Funcs))
	}
	m.computeAliases()
	m.computeRetSelf()
	return m
}

// ---------------------------------------------------------------- naming, positions

// Pos renders a position as file:line relative to the repository.
func (m *Model) Pos(p token.Pos) string {
	if !p.IsValid() {
		return "-"
	}
	pp := m.Fset.Position(p)
	rel, err := filepath.Rel(m.Cfg.RepoDir, pp.Filename)
	if err != nil {
		rel = pp.Filename
	}
	return fmt.Sprintf("%s:%d", rel, pp.Line)
}

// InstrPos returns the best position for an instruction (falls back to the
// enclosing function for position-less instructions).
func (m *Model) InstrPos(in ssa.Instruction) string {
	if p := in.Pos(); p.IsValid() {
		return m.Pos(p)
	}
	if v, ok := in.(*ssa.Store); ok && v.Val.Pos().IsValid() {
		return m.Pos(v.Val.Pos())
	}
	return m.Pos(in.Parent().Pos())
}

// FuncName is the stable construct name of a function: "(*Decimal).Add",
// "dec.mul", "dnorm", "context.(*Context).Add", closures "Add$1".
func (m *Model) FuncName(fn *ssa.Function) string { return m.funcName(fn, true) }

func (m *Model) funcName(fn *ssa.Function, aliased bool) string {
	if fn == nil {
		return "<nil>"
	}
	if aliased {
		if a, ok := m.alias[fn]; ok {
			return a
		}
	}
	if fn.Parent() != nil {
		n := fn.Name()
		if i := strings.LastIndex(n, "$"); i >= 0 {
			n = n[i:]
		}
		return m.funcName(fn.Parent(), aliased) + n
	}
	prefix := ""
	if fn.Pkg != nil && fn.Pkg == m.SCtx {
		prefix = "context."
	} else if fn.Pkg != nil && fn.Pkg != m.SDec {
		prefix = fn.Pkg.Pkg.Path() + "."
	}
	if r := fn.Signature.Recv(); r != nil {
		t := r.Type()
		star := ""
		if p, ok := t.(*types.Pointer); ok {
			t = p.Elem()
			star = "*"
		}
		tn := t.String()
		if n, ok := t.(*types.Named); ok {
			tn = n.Obj().Name()
			if n == m.DecT {
				tn = "dec" // the mantissa type keeps its construct name whatever it is called
			}
		}
		// the methods of the slice type dec are value-receiver methods on the pinned tree; the
		// same method with a pointer receiver keeps its construct name
		if star != "" && !(tn == "dec" && prefix == "") {
			return fmt.Sprintf("%s(*%s).%s", prefix, tn, fn.Name())
		}
		return fmt.Sprintf("%s%s.%s", prefix, tn, fn.Name())
	}
	return prefix + fn.Name()
}

// Lookup finds a source function by its construct name; missing → Fatal.
func (m *Model) Lookup(name string) *ssa.Function {
	if fn := m.TryLookup(name); fn != nil {
		return fn
	}
	// a method written as a plain function with the receiver as first parameter (or the reverse)
	// is the same anchor: (*Decimal).usub <-> usub(z, x, y), dec.addAt <-> decAddAt(z, …)
	if strings.HasPrefix(name, "(*Decimal).") {
		if fn := m.TryLookup(strings.TrimPrefix(name, "(*Decimal).")); fn != nil && fn.Signature.Recv() == nil && len(fn.Params) > 0 && m.IsDecPtr(fn.Params[0].Type()) {
			return fn
		}
	} else if !strings.Contains(name, ".") {
		if fn := m.TryLookup("(*Decimal)." + name); fn != nil {
			return fn
		}
	}
	Fatal("anchor function %q not found in configuration %s", name, m.Cfg.Name)
	return nil
}

func (m *Model) TryLookup(name string) *ssa.Function {
	for _, fn := range m.Funcs {
		if m.FuncName(fn) == name {
			return fn
		}
	}
	for _, fn := range m.Externs {
		if m.FuncName(fn) == name {
			return fn
		}
	}
	return nil
}

// IsExported reports whether fn is an exported function or an exported method
// of an exported type.
func (m *Model) IsExported(fn *ssa.Function) bool {
	if fn.Parent() != nil || fn.Object() == nil || !fn.Object().Exported() {
		return false
	}
	if r := fn.Signature.Recv(); r != nil {
		t := r.Type()
		if p, ok := t.(*types.Pointer); ok {
			t = p.Elem()
		}
		if n, ok := t.(*types.Named); ok {
			return n.Obj().Exported()
		}
		return false
	}
	return true
}

// ---------------------------------------------------------------- types

func (m *Model) IsDecPtr(t types.Type) bool {
	p, ok := t.Underlying().(*types.Pointer)
	if !ok {
		return false
	}
	n, ok := p.Elem().(*types.Named)
	return ok && n.Obj() == m.Decimal.Obj()
}

func (m *Model) IsCtxPtr(t types.Type) bool {
	p, ok := t.Underlying().(*types.Pointer)
	if !ok {
		return false
	}
	n, ok := p.Elem().(*types.Named)
	return ok && n.Obj() == m.Context.Obj()
}

// IsWordSlice: dec or []Word.
func (m *Model) IsWordSlice(t types.Type) bool {
	s, ok := t.Underlying().(*types.Slice)
	if !ok {
		return false
	}
	n, ok := s.Elem().(*types.Named)
	return ok && n.Obj() == m.WordT.Obj()
}

func (m *Model) IsDecNamed(t types.Type) bool {
	n, ok := t.(*types.Named)
	return ok && n.Obj() == m.DecT.Obj()
}

func (m *Model) IsWord(t types.Type) bool {
	n, ok := t.(*types.Named)
	return ok && n.Obj() == m.WordT.Obj()
}

// IsDecMethod: method with receiver *Decimal.
func (m *Model) IsDecMethod(fn *ssa.Function) bool {
	return fn != nil && fn.Signature.Recv() != nil && m.IsDecPtr(fn.Signature.Recv().Type())
}

// InDecimalPkg reports whether fn (or its outermost parent) belongs to package decimal.
func (m *Model) InDecimalPkg(fn *ssa.Function) bool {
	for fn != nil && fn.Parent() != nil {
		fn = fn.Parent()
	}
	return fn != nil && fn.Pkg == m.SDec
}

func (m *Model) InContextPkg(fn *ssa.Function) bool {
	for fn != nil && fn.Parent() != nil {
		fn = fn.Parent()
	}
	return fn != nil && fn.Pkg == m.SCtx
}

// DecField returns (field index, true) if addr is &x.f with x a *Decimal.
func (m *Model) DecField(addr ssa.Value) (*ssa.FieldAddr, bool) {
	fa, ok := addr.(*ssa.FieldAddr)
	if !ok || !m.IsDecPtr(fa.X.Type()) {
		return nil, false
	}
	return fa, true
}

// LoadOfDecField: v is *(&x.f), or a call x.Get() of a trivial accessor method whose whole body
// is `return x.f` (possibly converted): Prec, Mode, Acc, Signbit and whatever else is written
// that way. For an accessor call the result is a synthetic FieldAddr that carries only X (the
// receiver argument) and Field.
func (m *Model) LoadOfDecField(v ssa.Value) (*ssa.FieldAddr, bool) {
	if u, ok := v.(*ssa.UnOp); ok && u.Op == token.MUL {
		return m.DecField(u.X)
	}
	c, ok := v.(*ssa.Call)
	if !ok {
		return nil, false
	}
	cal := Unthunk(c.Call.StaticCallee())
	if cal == nil || len(c.Call.Args) != 1 {
		return nil, false
	}
	f, ok := m.accessorField(cal)
	if !ok {
		return nil, false
	}
	return &ssa.FieldAddr{X: c.Call.Args[0], Field: f}, true
}

// accessorField: fn is a method on *Decimal with a single block that returns the load of one
// field of its receiver, possibly through conversions (memoised).
func (m *Model) accessorField(fn *ssa.Function) (int, bool) {
	accMu.Lock()
	defer accMu.Unlock()
	if m.accessors == nil {
		m.accessors = map[*ssa.Function]int{}
	}
	if f, ok := m.accessors[fn]; ok {
		return f, f >= 0
	}
	m.accessors[fn] = -1
	if !m.IsDecMethod(fn) || len(fn.Params) != 1 || len(fn.Blocks) != 1 {
		return 0, false
	}
	b := fn.Blocks[0]
	ret, ok := b.Instrs[len(b.Instrs)-1].(*ssa.Return)
	if !ok || len(ret.Results) != 1 {
		return 0, false
	}
	v := ret.Results[0]
	for i := 0; i < 3; i++ {
		switch x := v.(type) {
		case *ssa.Convert:
			v = x.X
			continue
		case *ssa.ChangeType:
			v = x.X
			continue
		}
		break
	}
	u, ok := v.(*ssa.UnOp)
	if !ok || u.Op != token.MUL {
		return 0, false
	}
	fa, ok := m.DecField(u.X)
	if !ok || fa.X != ssa.Value(fn.Params[0]) {
		return 0, false
	}
	// nothing else of substance in the body
	for _, in := range b.Instrs {
		switch in.(type) {
		case *ssa.FieldAddr, *ssa.UnOp, *ssa.Convert, *ssa.ChangeType, *ssa.Return, *ssa.DebugRef:
		default:
			return 0, false
		}
	}
	m.accessors[fn] = fa.Field
	return fa.Field, true
}

var accMu sync.Mutex

// ---------------------------------------------------------------- constants

// ConstInt returns the integer value of an SSA constant.
func ConstInt(v ssa.Value) (int64, bool) {
	c, ok := v.(*ssa.Const)
	if !ok || c.Value == nil || c.Value.Kind() != constant.Int {
		return 0, false
	}
	i, exact := constant.Int64Val(c.Value)
	if !exact {
		return 0, false
	}
	return i, true
}

func ConstBool(v ssa.Value) (bool, bool) {
	c, ok := v.(*ssa.Const)
	if !ok || c.Value == nil || c.Value.Kind() != constant.Bool {
		return false, false
	}
	return constant.BoolVal(c.Value), true
}

// PkgConst returns the value of a package-level constant of package decimal.
func (m *Model) PkgConst(name string) constant.Value {
	o := m.Dec.Types.Scope().Lookup(name)
	c, ok := o.(*types.Const)
	if !ok {
		Fatal("anchor constant %q not found", name)
	}
	return c.Val()
}

// ---------------------------------------------------------------- pruned CFG

// DeadEdge reports whether edge si out of b can never be taken because the
// branch condition is a compile-time constant.
func DeadEdge(b *ssa.BasicBlock, si int) bool {
	if len(b.Instrs) == 0 {
		return false
	}
	ifi, ok := b.Instrs[len(b.Instrs)-1].(*ssa.If)
	if !ok {
		return false
	}
	if tv, ok := ConstBool(ifi.Cond); ok {
		return (tv && si == 1) || (!tv && si == 0)
	}
	return false
}

// Live returns, per block index, whether the block is reachable from the
// entry over non-dead edges.
func (m *Model) Live(fn *ssa.Function) []bool {
	if l, ok := m.live[fn]; ok {
		return l
	}
	l := make([]bool, len(fn.Blocks))
	if len(fn.Blocks) > 0 {
		l[0] = true
		work := []*ssa.BasicBlock{fn.Blocks[0]}
		for len(work) > 0 {
			b := work[len(work)-1]
			work = work[:len(work)-1]
			for si, s := range b.Succs {
				if DeadEdge(b, si) || l[s.Index] {
					continue
				}
				l[s.Index] = true
				work = append(work, s)
			}
		}
		// recover blocks are reachable through panics
		if fn.Recover != nil && !l[fn.Recover.Index] {
			l[fn.Recover.Index] = true
		}
	}
	m.live[fn] = l
	return l
}

// LiveSuccs returns the successors of b over non-dead edges, with the edge index.
type Edge struct {
	To *ssa.BasicBlock
	Si int
}

func LiveSuccs(b *ssa.BasicBlock) []Edge {
	var out []Edge
	for si, s := range b.Succs {
		if !DeadEdge(b, si) {
			out = append(out, Edge{s, si})
		}
	}
	return out
}

func (m *Model) LivePreds(b *ssa.BasicBlock) []*ssa.BasicBlock {
	live := m.Live(b.Parent())
	var out []*ssa.BasicBlock
	for _, p := range b.Preds {
		if !live[p.Index] {
			continue
		}
		for si, s := range p.Succs {
			if s == b && !DeadEdge(p, si) {
				out = append(out, p)
				break
			}
		}
	}
	return out
}

// Idom computes immediate dominators on the pruned CFG (-1 for entry/dead).
func (m *Model) Idom(fn *ssa.Function) []int {
	if d, ok := m.idom[fn]; ok {
		return d
	}
	n := len(fn.Blocks)
	live := m.Live(fn)
	// reverse postorder
	var order []int
	seen := make([]bool, n)
	var dfs func(b *ssa.BasicBlock)
	dfs = func(b *ssa.BasicBlock) {
		seen[b.Index] = true
		for _, e := range LiveSuccs(b) {
			if !seen[e.To.Index] {
				dfs(e.To)
			}
		}
		order = append(order, b.Index)
	}
	if n > 0 {
		dfs(fn.Blocks[0])
	}
	rpo := make([]int, n)
	for i := range rpo {
		rpo[i] = -1
	}
	for i, j := 0, len(order)-1; i < j; i, j = i+1, j-1 {
		order[i], order[j] = order[j], order[i]
	}
	for i, b := range order {
		rpo[b] = i
	}
	idom := make([]int, n)
	for i := range idom {
		idom[i] = -1
	}
	if n > 0 {
		idom[0] = 0
	}
	intersect := func(a, b int) int {
		for a != b {
			for rpo[a] > rpo[b] {
				a = idom[a]
			}
			for rpo[b] > rpo[a] {
				b = idom[b]
			}
		}
		return a
	}
	for changed := true; changed; {
		changed = false
		for _, bi := range order {
			if bi == 0 {
				continue
			}
			nd := -1
			for _, p := range m.LivePreds(fn.Blocks[bi]) {
				if !live[p.Index] || rpo[p.Index] < 0 || idom[p.Index] < 0 {
					continue
				}
				if nd < 0 {
					nd = p.Index
				} else {
					nd = intersect(p.Index, nd)
				}
			}
			if nd >= 0 && idom[bi] != nd {
				idom[bi] = nd
				changed = true
			}
		}
	}
	if n > 0 {
		idom[0] = -1
	}
	m.idom[fn] = idom
	return idom
}

// Dominates reports whether block a dominates block b on the pruned CFG.
func (m *Model) Dominates(a, b *ssa.BasicBlock) bool {
	if a.Parent() != b.Parent() {
		return false
	}
	idom := m.Idom(a.Parent())
	live := m.Live(a.Parent())
	if !live[b.Index] {
		return true
	}
	for x := b.Index; x >= 0; x = idom[x] {
		if x == a.Index {
			return true
		}
		if x == 0 {
			break
		}
	}
	return false
}

// EdgeDominates reports whether every path from the entry to block b takes
// the edge (from, si).
func (m *Model) EdgeDominates(from *ssa.BasicBlock, si int, b *ssa.BasicBlock) bool {
	if DeadEdge(from, si) {
		return false
	}
	t := from.Succs[si]
	if !m.Dominates(t, b) {
		return false
	}
	// t must be entered only via this edge (other live preds must be dominated by t: loops back)
	for _, p := range m.LivePreds(t) {
		if p == from {
			// the other edge of the same If may also lead to t
			cnt := 0
			for sj, s := range from.Succs {
				if s == t && !DeadEdge(from, sj) {
					cnt++
				}
			}
			if cnt > 1 {
				return false
			}
			continue
		}
		if !m.Dominates(t, p) {
			return false
		}
	}
	return true
}

// InstrDominates: instruction a is executed before b on every path reaching b.
func (m *Model) InstrDominates(a, b ssa.Instruction) bool {
	if a.Block() == b.Block() {
		for _, in := range a.Block().Instrs {
			if in == a {
				return true
			}
			if in == b {
				return false
			}
		}
		return false
	}
	return m.Dominates(a.Block(), b.Block())
}

// Reaches reports whether some live path leads from the point just after
// instruction a to instruction b.
func (m *Model) Reaches(a, b ssa.Instruction) bool {
	if a.Block() == b.Block() {
		ia, ib := -1, -1
		for i, in := range a.Block().Instrs {
			if in == a {
				ia = i
			}
			if in == b {
				ib = i
			}
		}
		if ia < ib {
			return true
		}
	}
	seen := map[*ssa.BasicBlock]bool{}
	work := []*ssa.BasicBlock{}
	for _, e := range LiveSuccs(a.Block()) {
		work = append(work, e.To)
	}
	for len(work) > 0 {
		x := work[len(work)-1]
		work = work[:len(work)-1]
		if seen[x] {
			continue
		}
		seen[x] = true
		if x == b.Block() {
			return true
		}
		for _, e := range LiveSuccs(x) {
			work = append(work, e.To)
		}
	}
	return false
}

// ---------------------------------------------------------------- object references

// Ref describes which objects a *Decimal-typed SSA value may denote.
type Ref struct {
	Params  uint32 // bit k: parameter k of the enclosing function
	Fresh   bool   // an allocation in this function (or a constructor result)
	Global  bool   // a package-level variable
	Nil     bool
	Unknown bool
	Allocs  []ssa.Value // the fresh allocation sites
	Globals []*ssa.Global
}

func (r Ref) OnlyParam(k int) bool {
	return r.Params == 1<<uint(k) && !r.Fresh && !r.Global && !r.Unknown
}
func (r Ref) MayBeParam(k int) bool { return r.Params&(1<<uint(k)) != 0 }
func (r Ref) IsSingleParam() (int, bool) {
	if r.Fresh || r.Global || r.Unknown || r.Params == 0 || r.Params&(r.Params-1) != 0 {
		return 0, false
	}
	for k := 0; k < 32; k++ {
		if r.Params == 1<<uint(k) {
			return k, true
		}
	}
	return 0, false
}

func (r *Ref) merge(o Ref) {
	r.Params |= o.Params
	r.Fresh = r.Fresh || o.Fresh
	r.Global = r.Global || o.Global
	r.Nil = r.Nil || o.Nil
	r.Unknown = r.Unknown || o.Unknown
	r.Allocs = append(r.Allocs, o.Allocs...)
	r.Globals = append(r.Globals, o.Globals...)
}

// RefOf resolves a pointer-typed value to the objects it may denote.
func (m *Model) RefOf(v ssa.Value) Ref {
	return m.refOf(v, map[ssa.Value]bool{})
}

func (m *Model) refOf(v ssa.Value, seen map[ssa.Value]bool) Ref {
	var r Ref
	if seen[v] {
		return r
	}
	seen[v] = true
	switch v := v.(type) {
	case *ssa.Parameter:
		for i, p := range v.Parent().Params {
			if p == v {
				r.Params = 1 << uint(i)
			}
		}
	case *ssa.FreeVar:
		// closure variable: resolve through the MakeClosure binding in the parent
		r.Unknown = true
	case *ssa.Phi:
		for _, e := range v.Edges {
			r.merge(m.refOf(e, seen))
		}
	case *ssa.Alloc:
		r.Fresh = true
		r.Allocs = []ssa.Value{v}
	case *ssa.Const:
		if v.IsNil() {
			r.Nil = true
		} else {
			r.Unknown = true
		}
	case *ssa.Global:
		r.Global = true
		r.Globals = []*ssa.Global{v}
	case *ssa.UnOp:
		if v.Op == token.MUL {
			if g, ok := v.X.(*ssa.Global); ok {
				r.Global = true
				r.Globals = []*ssa.Global{g}
				return r
			}
			// load of a local *Decimal variable: union of stored values
			if a, ok := v.X.(*ssa.Alloc); ok && a.Referrers() != nil {
				any := false
				for _, u := range *a.Referrers() {
					if st, ok := u.(*ssa.Store); ok && st.Addr == a {
						r.merge(m.refOf(st.Val, seen))
						any = true
					}
				}
				if any {
					return r
				}
			}
		}
		r.Unknown = true
	case *ssa.Call:
		cal := Unthunk(v.Call.StaticCallee())
		if cal != nil && m.retSelf[cal] && len(v.Call.Args) > 0 {
			return m.refOf(v.Call.Args[0], seen)
		}
		if cal != nil && m.isConstructor(cal) {
			r.Fresh = true
			r.Allocs = []ssa.Value{v}
			return r
		}
		// a call through a local function value all of whose possible targets return their
		// receiver (op := z.Mul; if … { op = z.Quo }; z = op(z, y))
		if cal == nil {
			if ts := DynTargets(&v.Call); ts != nil {
				all := true
				for _, t := range ts {
					if !m.retSelf[t.Fn] || len(t.Args) == 0 {
						all = false
					}
				}
				if all {
					for _, t := range ts {
						r.merge(m.refOf(t.Args[0], seen))
					}
					return r
				}
			}
		}
		r.Unknown = true
	case *ssa.Extract:
		// (d, b, err) := z.Parse(...): result 0 of a returns-self call is the receiver or nil
		if call, ok := v.Tuple.(*ssa.Call); ok && v.Index == 0 {
			cal := Unthunk(call.Call.StaticCallee())
			if cal != nil && m.retSelf[cal] && len(call.Call.Args) > 0 {
				r = m.refOf(call.Call.Args[0], seen)
				r.Nil = true
				return r
			}
			// (t, prec) := z.extraDigit(): result 0 of a constructor-like function is fresh
			if cal != nil && m.isConstructor(cal) {
				r.Fresh = true
				r.Allocs = []ssa.Value{v}
				return r
			}
		}
		r.Unknown = true
	default:
		r.Unknown = true
	}
	return r
}

// isConstructor: a function of package decimal/context returning a *Decimal that is
// always a fresh allocation (NewDecimal, newDecimal, (*Context).New, ...).
func (m *Model) isConstructor(fn *ssa.Function) bool {
	if len(fn.Blocks) == 0 || fn.Signature.Results().Len() < 1 || !m.IsDecPtr(fn.Signature.Results().At(0).Type()) {
		return false
	}
	if v, ok := m.ctorMemo[fn]; ok {
		return v
	}
	if m.ctorMemo == nil {
		m.ctorMemo = map[*ssa.Function]bool{}
	}
	m.ctorMemo[fn] = false // recursion guard
	ok := true
	found := false
	for _, b := range fn.Blocks {
		for _, in := range b.Instrs {
			if ret, isr := in.(*ssa.Return); isr {
				found = true
				r := m.RefOf(ret.Results[0])
				if r.Params != 0 || r.Global || r.Unknown || !r.Fresh {
					ok = false
				}
			}
		}
	}
	m.ctorMemo[fn] = ok && found
	return ok && found
}

func (m *Model) computeRetSelf() {
	cand := map[*ssa.Function]bool{}
	for _, fn := range m.Funcs {
		if m.IsDecMethod(fn) && fn.Signature.Results().Len() >= 1 && m.IsDecPtr(fn.Signature.Results().At(0).Type()) {
			cand[fn] = true
		}
	}
	m.retSelf = cand
	for changed := true; changed; {
		changed = false
		for _, fn := range m.Funcs {
			if !m.retSelf[fn] {
				continue
			}
			ok := true
			for _, b := range fn.Blocks {
				for _, in := range b.Instrs {
					r, isr := in.(*ssa.Return)
					if !isr {
						continue
					}
					ref := m.RefOf(r.Results[0])
					// a nil result is allowed (Parse/SetString return nil on error)
					if ref.Params&^1 != 0 || ref.Fresh || ref.Global || ref.Unknown || (ref.Params == 0 && !ref.Nil) {
						ok = false
					}
				}
			}
			if !ok {
				delete(m.retSelf, fn)
				changed = true
			}
		}
	}
}

// ReturnsSelf reports whether every return of fn yields its receiver (or nil).
func (m *Model) ReturnsSelf(fn *ssa.Function) bool { return m.retSelf[fn] }

// ---------------------------------------------------------------- misc helpers

// Callee returns the statically resolved callee of a call instruction.
func Callee(in ssa.Instruction) (*ssa.Function, *ssa.CallCommon) {
	ci, ok := in.(ssa.CallInstruction)
	if !ok {
		return nil, nil
	}
	return Unthunk(ci.Common().StaticCallee()), ci.Common()
}

// Unthunk resolves the wrapper go/ssa makes for a method expression ((*T).M used as a function
// value) to the method: the wrapper's only block calls M with the wrapper's parameters in order,
// so the arguments of a call of the wrapper are the arguments of M.
func Unthunk(fn *ssa.Function) *ssa.Function {
	if fn == nil || fn.Synthetic == "" || !strings.HasSuffix(fn.Name(), "$thunk") || len(fn.Blocks) != 1 {
		return fn
	}
	for _, in := range fn.Blocks[0].Instrs {
		c, ok := in.(*ssa.Call)
		if !ok {
			continue
		}
		t := Unthunk(c.Call.StaticCallee())
		if t == nil || len(c.Call.Args) != len(fn.Params) {
			return fn
		}
		for i, a := range c.Call.Args {
			if a != ssa.Value(fn.Params[i]) {
				return fn
			}
		}
		return t
	}
	return fn
}

// DynTarget is one function a call through a function value may reach, with the arguments it
// receives there (a bound method value z.M gets the bound receiver in front).
type DynTarget struct {
	Fn   *ssa.Function
	Args []ssa.Value
}

// DynTargets resolves a call of a local function value that is a method value (z.Mul), a method
// expression or a plain function, or a join (φ) of those, to the functions it may reach. nil when
// the call is static, a builtin, an interface call, or the value comes from anywhere else.
func DynTargets(c *ssa.CallCommon) []DynTarget {
	if c.IsInvoke() || c.StaticCallee() != nil {
		return nil
	}
	if _, ok := c.Value.(*ssa.Builtin); ok {
		return nil
	}
	var out []DynTarget
	seen := map[ssa.Value]bool{}
	var walk func(v ssa.Value) bool
	walk = func(v ssa.Value) bool {
		if seen[v] {
			return true
		}
		seen[v] = true
		switch x := v.(type) {
		case *ssa.Phi:
			for _, e := range x.Edges {
				if !walk(e) {
					return false
				}
			}
			return true
		case *ssa.ChangeType:
			return walk(x.X)
		case *ssa.Function:
			out = append(out, DynTarget{Unthunk(x), c.Args})
			return true
		case *ssa.MakeClosure:
			fn, ok := x.Fn.(*ssa.Function)
			if !ok || !strings.HasSuffix(fn.Name(), "$bound") || len(x.Bindings) != 1 || len(fn.Blocks) != 1 || len(fn.FreeVars) != 1 {
				return false
			}
			for _, in := range fn.Blocks[0].Instrs {
				cc, ok := in.(*ssa.Call)
				if !ok {
					continue
				}
				t := cc.Call.StaticCallee()
				if t == nil || len(cc.Call.Args) != len(fn.Params)+1 || cc.Call.Args[0] != ssa.Value(fn.FreeVars[0]) {
					return false
				}
				for i, p := range fn.Params {
					if cc.Call.Args[i+1] != ssa.Value(p) {
						return false
					}
				}
				out = append(out, DynTarget{t, append([]ssa.Value{x.Bindings[0]}, c.Args...)})
				return true
			}
			return false
		}
		return false
	}
	if !walk(c.Value) || len(out) == 0 {
		return nil
	}
	return out
}

// BuiltinName returns the name of the builtin being called, if any.
func BuiltinName(c *ssa.CallCommon) string {
	if b, ok := c.Value.(*ssa.Builtin); ok {
		return b.Name()
	}
	return ""
}

// Unwrap strips ChangeType / Convert-between-slice-types.
func Unwrap(v ssa.Value) ssa.Value {
	for {
		switch x := v.(type) {
		case *ssa.ChangeType:
			v = x.X
		default:
			return v
		}
	}
}

// FuncDecl returns the syntax of a source function.
func FuncDecl(fn *ssa.Function) *ast.FuncDecl {
	d, _ := fn.Syntax().(*ast.FuncDecl)
	return d
}

// SourceFiles returns the non-test Go files of both packages.
func (m *Model) SourceFiles() []*ast.File {
	var out []*ast.File
	for _, p := range []*packages.Package{m.Dec, m.Ctx} {
		for _, f := range p.Syntax {
			if !strings.HasSuffix(m.Fset.Position(f.Pos()).Filename, "_test.go") {
				out = append(out, f)
			}
		}
	}
	return out
}

func mergeOverlay(a, b map[string][]byte) map[string][]byte {
	if len(b) == 0 {
		return a
	}
	out := map[string][]byte{}
	for k, v := range a {
		out[k] = v
	}
	for k, v := range b {
		out[k] = v
	}
	return out
}

// CoreOf: the name of the pinned function that hands its work to the new helper fn ("" if none).
func (m *Model) CoreOf(fn *ssa.Function) string {
	if fn == nil || m.Cfg.coreNames == nil {
		return ""
	}
	if p, ok := m.Cfg.coreNames[m.rawName(fn)]; ok {
		return p
	}
	return ""
}

// writesNothing: fn stores nothing and calls only functions of its own package that store nothing
// either (and builtins that do not write).
func writesNothing(fn *ssa.Function, depth int) bool {
	if fn == nil || depth == 0 || len(fn.Blocks) == 0 {
		return false
	}
	for _, b := range fn.Blocks {
		for _, in := range b.Instrs {
			switch x := in.(type) {
			case *ssa.Store, *ssa.MapUpdate, *ssa.Send, *ssa.Go, *ssa.Defer:
				return false
			case *ssa.Call:
				if bi, ok := x.Call.Value.(*ssa.Builtin); ok {
					switch bi.Name() {
					case "len", "cap", "min", "max":
						continue
					}
					return false
				}
				cal := x.Call.StaticCallee()
				if cal == nil {
					return false
				}
				if cal.Pkg == fn.Pkg {
					if !writesNothing(cal, depth-1) {
						return false
					}
					continue
				}
				if cal.Pkg != nil && cal.Pkg.Pkg.Path() == "math/bits" {
					continue
				}
				return false
			}
		}
	}
	return true
}

// IsNewFunc: the pinned tree has no function of that name (and fn is not a renamed one).
func (m *Model) IsNewFunc(fn *ssa.Function) bool {
	if fn == nil || fn.Parent() != nil || fn.Object() == nil || m.Cfg.newNames == nil {
		return false
	}
	return m.Cfg.newNames[m.rawName(fn)] || m.CoreOf(fn) != ""
}
