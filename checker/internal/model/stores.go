package model

import (
	"go/constant"
	"go/token"

	"golang.org/x/tools/go/ssa"
)

// StoreSet describes what a function may store into one field of one
// *Decimal parameter: a set of constants and/or something non-constant.
type StoreSet struct {
	Consts []constant.Value
	Top    bool // some stored value is not a compile-time constant
}

func (s *StoreSet) addConst(c constant.Value) bool {
	for _, x := range s.Consts {
		if constant.Compare(x, token.EQL, c) {
			return false
		}
	}
	s.Consts = append(s.Consts, c)
	return true
}

// StoreSets returns, for parameter k of fn, field index -> StoreSet, including
// the effects of statically resolved callees in packages decimal/context.
// It is a may-summary (over-approximation); external callees never receive a
// *Decimal in this code base (checked: an external call with a *Decimal
// argument marks every field Top).
func (m *Model) StoreSets(fn *ssa.Function, k int) map[int]*StoreSet {
	if m.storeSets == nil {
		m.storeSets = map[*ssa.Function]map[int]map[int]*StoreSet{}
		m.computeStoreSets()
	}
	return m.storeSets[fn][k]
}

func (m *Model) computeStoreSets() {
	get := func(fn *ssa.Function, k, f int) *StoreSet {
		if m.storeSets[fn] == nil {
			m.storeSets[fn] = map[int]map[int]*StoreSet{}
		}
		if m.storeSets[fn][k] == nil {
			m.storeSets[fn][k] = map[int]*StoreSet{}
		}
		if m.storeSets[fn][k][f] == nil {
			m.storeSets[fn][k][f] = &StoreSet{}
		}
		return m.storeSets[fn][k][f]
	}
	nf := len(m.FieldN)
	for changed := true; changed; {
		changed = false
		for _, fn := range m.Funcs {
			for _, b := range fn.Blocks {
				for _, in := range b.Instrs {
					switch in := in.(type) {
					case *ssa.Store:
						if fa, ok := m.DecField(in.Addr); ok {
							r := m.RefOf(fa.X)
							for k := range fn.Params {
								if !r.MayBeParam(k) {
									continue
								}
								ss := get(fn, k, fa.Field)
								if c, ok := in.Val.(*ssa.Const); ok && c.Value != nil {
									if ss.addConst(c.Value) {
										changed = true
									}
								} else if !ss.Top {
									ss.Top = true
									changed = true
								}
							}
						} else if m.IsDecPtr(in.Addr.Type()) { // *z = Decimal{...}
							r := m.RefOf(in.Addr)
							for k := range fn.Params {
								if r.MayBeParam(k) {
									for f := 0; f < nf; f++ {
										if ss := get(fn, k, f); !ss.Top {
											ss.Top = true
											changed = true
										}
									}
								}
							}
						}
					case ssa.CallInstruction:
						c := in.Common()
						cal := c.StaticCallee()
						for ai, a := range c.Args {
							if !m.IsDecPtr(a.Type()) {
								continue
							}
							r := m.RefOf(a)
							if r.Params == 0 {
								continue
							}
							var src map[int]*StoreSet
							allTop := false
							if cal == nil || len(cal.Blocks) == 0 {
								allTop = cal == nil || !(m.InDecimalPkg(cal) || m.InContextPkg(cal))
								if c.IsInvoke() {
									allTop = true
								}
							} else {
								src = m.storeSets[cal][ai]
							}
							for k := range fn.Params {
								if !r.MayBeParam(k) {
									continue
								}
								if allTop {
									for f := 0; f < nf; f++ {
										if ss := get(fn, k, f); !ss.Top {
											ss.Top = true
											changed = true
										}
									}
									continue
								}
								for f, s := range src {
									ss := get(fn, k, f)
									if s.Top && !ss.Top {
										ss.Top = true
										changed = true
									}
									for _, cv := range s.Consts {
										if ss.addConst(cv) {
											changed = true
										}
									}
								}
							}
						}
					}
				}
			}
		}
	}
}
