package model

import (
	"go/constant"
	"go/token"

	"golang.org/x/tools/go/ssa"
)

// StoreSet describes what a function may store into one field of one
// *Decimal parameter: a set of constants and/or something non-constant.
type StoreSet struct {
	Consts []constant.Value
	Top    bool // some stored value is not a compile-time constant
	Plain  bool // some store is not of the "only when the precision is 0" kind (meaningful for prec)
}

func (s *StoreSet) addConst(c constant.Value) bool {
	for _, x := range s.Consts {
		if constant.Compare(x, token.EQL, c) {
			return false
		}
	}
	s.Consts = append(s.Consts, c)
	return true
}

// StoreSets returns, for parameter k of fn, field index -> StoreSet, including
// the effects of statically resolved callees in packages decimal/context.
// It is a may-summary (over-approximation); external callees never receive a
// *Decimal in this code base (checked: an external call with a *Decimal
// argument marks every field Top).
func (m *Model) StoreSets(fn *ssa.Function, k int) map[int]*StoreSet {
	if m.storeSets == nil {
		m.storeSets = map[*ssa.Function]map[int]map[int]*StoreSet{}
		m.computeStoreSets()
	}
	return m.storeSets[fn][k]
}

func (m *Model) computeStoreSets() {
	get := func(fn *ssa.Function, k, f int) *StoreSet {
		if m.storeSets[fn] == nil {
			m.storeSets[fn] = map[int]map[int]*StoreSet{}
		}
		if m.storeSets[fn][k] == nil {
			m.storeSets[fn][k] = map[int]*StoreSet{}
		}
		if m.storeSets[fn][k][f] == nil {
			m.storeSets[fn][k][f] = &StoreSet{}
		}
		return m.storeSets[fn][k][f]
	}
	nf := len(m.FieldN)
	for changed := true; changed; {
		changed = false
		for _, fn := range m.Funcs {
			live := m.Live(fn)
			for _, b := range fn.Blocks {
				if !live[b.Index] {
					continue
				}
				for _, in := range b.Instrs {
					switch in := in.(type) {
					case *ssa.Store:
						if fa, ok := m.DecField(in.Addr); ok {
							r := m.RefOf(fa.X)
							for k := range fn.Params {
								if !r.MayBeParam(k) {
									continue
								}
								ss := get(fn, k, fa.Field)
								if !(fa.Field == m.F.Prec && m.IsGuard0Store(in)) && !ss.Plain {
									ss.Plain = true
									changed = true
								}
								if c, ok := in.Val.(*ssa.Const); ok && c.Value != nil {
									if ss.addConst(c.Value) {
										changed = true
									}
								} else if !ss.Top {
									ss.Top = true
									changed = true
								}
							}
						} else if m.IsDecPtr(in.Addr.Type()) { // *z = Decimal{...}
							r := m.RefOf(in.Addr)
							for k := range fn.Params {
								if r.MayBeParam(k) {
									for f := 0; f < nf; f++ {
										if ss := get(fn, k, f); !ss.Top || !ss.Plain {
											ss.Top, ss.Plain = true, true
											changed = true
										}
									}
								}
							}
						}
					case ssa.CallInstruction:
						c := in.Common()
						cal := Unthunk(c.StaticCallee())
						for ai, a := range c.Args {
							if !m.IsDecPtr(a.Type()) {
								continue
							}
							r := m.RefOf(a)
							if r.Params == 0 {
								continue
							}
							var src map[int]*StoreSet
							allTop := false
							if cal == nil || len(cal.Blocks) == 0 {
								allTop = cal == nil || !(m.InDecimalPkg(cal) || m.InContextPkg(cal))
								if c.IsInvoke() {
									allTop = true
								}
							} else {
								src = m.storeSets[cal][ai]
							}
							for k := range fn.Params {
								if !r.MayBeParam(k) {
									continue
								}
								if allTop {
									for f := 0; f < nf; f++ {
										if ss := get(fn, k, f); !ss.Top || !ss.Plain {
											ss.Top, ss.Plain = true, true
											changed = true
										}
									}
									continue
								}
								for f, s := range src {
									ss := get(fn, k, f)
									if s.Top && !ss.Top {
										ss.Top = true
										changed = true
									}
									if s.Plain && !ss.Plain {
										ss.Plain = true
										changed = true
									}
									for _, cv := range s.Consts {
										if ss.addConst(cv) {
											changed = true
										}
									}
								}
							}
						}
					}
				}
			}
		}
	}
}

// IsGuard0Store reports whether st assigns x.prec only when x.prec was 0:
// the store is dominated by the true edge of `x.prec == 0` (or the false edge
// of `x.prec != 0`) on the same object, or the stored value is
// φ(entry x.prec, c) selected by such a test (the idiom of (*Decimal).scan).
func (m *Model) IsGuard0Store(st *ssa.Store) bool {
	fa, ok := m.DecField(st.Addr)
	if !ok || fa.Field != m.F.Prec {
		return false
	}
	obj := m.RefOf(fa.X)
	sameObj := func(v ssa.Value) bool {
		r := m.RefOf(v)
		if obj.Unknown || r.Unknown {
			return false
		}
		if obj.Params != 0 && obj.Params == r.Params && !obj.Fresh && !r.Fresh && !obj.Global && !r.Global {
			return true
		}
		if obj.Params == 0 && r.Params == 0 && len(obj.Allocs) == 1 && len(r.Allocs) == 1 && obj.Allocs[0] == r.Allocs[0] {
			return true
		}
		return false
	}
	isZeroTest := func(cond ssa.Value) (edge int, ok bool) {
		bo, isb := cond.(*ssa.BinOp)
		if !isb || (bo.Op != token.EQL && bo.Op != token.NEQ) {
			return 0, false
		}
		x, y := bo.X, bo.Y
		if k, isk := ConstInt(x); isk && k == 0 {
			x, y = y, x
		}
		if k, isk := ConstInt(y); !isk || k != 0 {
			return 0, false
		}
		lf, isl := m.LoadOfDecField(x)
		if !isl || lf.Field != m.F.Prec || !sameObj(lf.X) {
			return 0, false
		}
		if bo.Op == token.EQL {
			return 0, true
		}
		return 1, true
	}
	fn := st.Parent()
	for _, b := range fn.Blocks {
		if len(b.Instrs) == 0 {
			continue
		}
		ifi, isif := b.Instrs[len(b.Instrs)-1].(*ssa.If)
		if !isif {
			continue
		}
		if edge, ok := isZeroTest(ifi.Cond); ok && m.EdgeDominates(b, edge, st.Block()) {
			return true
		}
	}
	// phi idiom
	if ph, isp := st.Val.(*ssa.Phi); isp {
		hasLoad := false
		for i, e := range ph.Edges {
			if lf, isl := m.LoadOfDecField(e); isl && lf.Field == m.F.Prec && sameObj(lf.X) {
				hasLoad = true
				continue
			}
			if _, isk := e.(*ssa.Const); isk {
				// the constant must come in over the zero edge of a test of the loaded precision
				pred := ph.Block().Preds[i]
				okEdge := false
				for _, b := range fn.Blocks {
					if len(b.Instrs) == 0 {
						continue
					}
					if ifi, isif := b.Instrs[len(b.Instrs)-1].(*ssa.If); isif {
						if edge, ok := isZeroTest(ifi.Cond); ok && (b.Succs[edge] == pred || (b == pred && b.Succs[edge] == ph.Block())) {
							okEdge = true
						}
					}
				}
				if okEdge {
					continue
				}
			}
			return false
		}
		return hasLoad
	}
	return false
}

// LoadSet returns the fields of *Decimal parameter k that fn may read (directly or through
// statically resolved callees in the analysed packages), over live blocks only.
func (m *Model) LoadSet(fn *ssa.Function, k int) []int {
	if m.loadSets == nil {
		m.loadSets = map[*ssa.Function]map[int]map[int]bool{}
		add := func(fn *ssa.Function, k, f int) bool {
			if m.loadSets[fn] == nil {
				m.loadSets[fn] = map[int]map[int]bool{}
			}
			if m.loadSets[fn][k] == nil {
				m.loadSets[fn][k] = map[int]bool{}
			}
			if m.loadSets[fn][k][f] {
				return false
			}
			m.loadSets[fn][k][f] = true
			return true
		}
		for changed := true; changed; {
			changed = false
			for _, fn := range m.Funcs {
				live := m.Live(fn)
				for _, b := range fn.Blocks {
					if !live[b.Index] {
						continue
					}
					for _, in := range b.Instrs {
						switch in := in.(type) {
						case *ssa.UnOp:
							if fa, ok := m.LoadOfDecField(in); ok {
								r := m.RefOf(fa.X)
								for k := range fn.Params {
									if r.MayBeParam(k) && add(fn, k, fa.Field) {
										changed = true
									}
								}
							}
						case ssa.CallInstruction:
							c := in.Common()
							cal := Unthunk(c.StaticCallee())
							if cal == nil || len(cal.Blocks) == 0 {
								continue
							}
							for ai, a := range c.Args {
								if !m.IsDecPtr(a.Type()) {
									continue
								}
								r := m.RefOf(a)
								for f := range m.loadSets[cal][ai] {
									for k := range fn.Params {
										if r.MayBeParam(k) && add(fn, k, f) {
											changed = true
										}
									}
								}
							}
						}
					}
				}
			}
		}
	}
	var out []int
	for f := range m.loadSets[fn][k] {
		out = append(out, f)
	}
	return out
}
